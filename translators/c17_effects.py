"""C17 translator: effect analyser for Splink's creator classes.

For a creator class C and an entry method (get_comparison_level, get_comparison,
get_blocking_rule, get_settings, create_*_dict, create_sql) it interprets the Python `ast` of the
method and, transitively, of every function / method / constructor / property of the `splink`
package it calls while a value reachable from `self` is involved, over abstract values
(which attribute paths of `self` a value was computed from, whether it depends on the call's
argument, which `self`-rooted objects it may alias).  The result is a *program* in the
statement language of coq/theories/Model/Creators.v:

    ("set", path, reads, arg)      self.<path> = f(reads, arg?)
    ("mut", path, reads, arg)      in-place mutation of self.<path> (append, +=, del, unknown call)
    ("if",  reads, arg, body)      conditional / loop / try block

and the reads of the returned value.  Runtime classes of attribute paths are taken from sample
instances (only to resolve which method a call dispatches to).  Fail-closed: a construct the
analyser does not understand becomes ("mut", "<unknown ...>") and is rejected by the Coq checker.
"""
from __future__ import annotations

import ast
import inspect
import sys
import textwrap

PKG = "splink"
MUTATORS = {"append", "extend", "insert", "pop", "remove", "clear", "sort", "reverse", "update", "setdefault",
            "popitem", "add", "discard", "__setitem__", "__delitem__", "appendleft", "popleft"}
PURE_METHODS = {"copy", "items", "keys", "values", "get", "join", "format", "replace", "lower", "upper", "title", "strip",
                "split", "startswith", "endswith", "index", "count", "sql", "find_all", "find", "isdigit", "lstrip",
                "rstrip", "capitalize", "encode", "decode", "__contains__", "issubset", "union", "intersection"}
PURE_BUILTINS = {"len", "str", "int", "float", "bool", "list", "tuple", "dict", "set", "frozenset", "sorted", "reversed",
                 "enumerate", "zip", "range", "min", "max", "sum", "any", "all", "repr", "type", "id", "hasattr",
                 "isinstance", "issubclass", "callable", "print", "abs", "round", "iter", "next", "locals", "vars",
                 "partial", "signature", "cast", "wraps", "format", "hash", "ValueError", "TypeError", "KeyError",
                 "SplinkException", "AttributeError", "NotImplementedError", "super"}


class V:
    """abstract value"""
    __slots__ = ("reads", "arg", "aliases", "shallow", "local", "classes", "elem", "static", "const", "func", "bound",
                 "is_class", "lam", "sbool", "unordered")

    def __init__(self, reads=(), arg=False, aliases=(), shallow=None, classes=None, elem=None, static=None, const=None,
                 func=None, bound=None, is_class=None, lam=None, local=None):
        self.reads = frozenset(reads)
        self.arg = bool(arg)
        self.aliases = frozenset(aliases)     # self-rooted paths this value may BE
        self.shallow = shallow                # fresh shallow copy of the object at this path
        self.local = {} if local is None else local    # attributes assigned on a fresh object during the call
        self.classes = classes                # possible runtime classes (method resolution only)
        self.elem = elem                      # element value of a container
        self.static = static                  # statically known list of strings
        self.const = const                    # statically known string
        self.func = func                      # python function object
        self.bound = bound                    # (receiver V, name) for bound methods
        self.is_class = is_class
        self.lam = lam                        # (ast.Lambda, env)
        self.sbool = None                     # statically known truth value (isinstance on sample-typed paths)
        self.unordered = False                # a set: its iteration order is not a function of the specification

    def tainted(self, depth=0):
        if self.aliases or self.shallow is not None:
            return True
        if depth > 4:
            return False
        if self.elem is not None and self.elem.tainted(depth + 1):
            return True
        return any(v.tainted(depth + 1) for v in self.local.values())


def merge(a: "V | None", b: "V | None") -> "V":
    if a is None:
        return b if b is not None else V()
    if b is None or a is b:
        return a
    local = dict(a.local)
    for k, v in b.local.items():
        local[k] = merge(local.get(k), v)
    classes = None
    if a.classes or b.classes:
        classes = set(a.classes or ()) | set(b.classes or ())
    return _keep_unordered(a, b, V(reads=a.reads | b.reads, arg=a.arg or b.arg, aliases=a.aliases | b.aliases,
             shallow=a.shallow if a.shallow is not None else b.shallow, classes=classes,
             elem=merge(a.elem, b.elem) if (a.elem is not None or b.elem is not None) else None,
             static=a.static if a.static == b.static else None, const=a.const if a.const == b.const else None,
             func=a.func if a.func is b.func else None, is_class=a.is_class if a.is_class is b.is_class else None,
             local=local))


def _keep_unordered(a, b, v):
    v.unordered = a.unordered or b.unordered
    return v


_AN = [None]      # analyser currently running (observations are emitted where a read happens)


def pure_of(*vals, extra_reads=()):
    reads = set(extra_reads)
    arg = False
    deep = set()
    for v in vals:
        if v is None:
            continue
        reads |= v.reads
        # an object consumed as a whole: its entire content is read ("path.*") - observed here
        deep |= {a + ".*" for a in v.aliases}
        if v.shallow is not None:
            deep.add(v.shallow + ".*")
        arg = arg or v.arg
    if deep and _AN[0] is not None:
        _AN[0].emit(("obs", sorted(deep)))
    return V(reads=reads | deep, arg=arg)


def ref_of(*vals):
    """consumers that only look at the identity / type / None-ness of a value"""
    reads = set()
    arg = False
    for v in vals:
        if v is None:
            continue
        reads |= v.reads
        arg = arg or v.arg
    return V(reads=reads, arg=arg)


STATIC_PREFIXES = ("<default:", "<module:", "<class:", "<arg:")      # <arg:p> = an object the CALLER passed in
MUTABLE = (list, dict, set, bytearray)


def is_static(path: str) -> bool:
    return path.startswith(STATIC_PREFIXES)


def fkey(fn):
    return f"{(getattr(fn, '__module__', '') or '').split('.')[-1]}.{getattr(fn, '__qualname__', repr(fn))}"


def join(path, attr):
    return attr if path == "" else f"{path}.{attr}"


class Analyser:
    MAX_DEPTH = 14

    PRIMS = (str, int, float, bool, type(None))

    def __init__(self, types: dict, dialect_classes, rawtypes=None):
        self.types = types                    # path -> set of classes (from sample instances)
        self.rawtypes = rawtypes or {}        # path -> set of all python types seen in the samples
        self.dialect_classes = dialect_classes
        self.blocks = [[]]
        self.stack = []
        self.unknown: list[str] = []
        self.inlined: set = set()
        self.assumed_pure: set = set()
        self.skipped: dict = {}     # package callees not inlined because nothing reachable from self was passed

    # ---------------------------------------------------------------- emission
    def emit(self, st):
        self.blocks[-1].append(st)

    def emit_set(self, path, val: V):
        if is_static(path):
            # state shared between instances (mutable default / class / module object): never acceptable
            self.emit(("mut", path, sorted(val.reads), val.arg))
            return
        self.emit(("set", path, sorted(val.reads), val.arg))

    def emit_mut(self, path, val: V | None, why=""):
        v = val or V()
        self.emit(("mut", path, sorted(v.reads), v.arg))
        if path.startswith("<unknown"):
            self.unknown.append(path + " " + why)

    def cond_block(self, cond: V):
        blk = []
        self.emit(("if", sorted(cond.reads), cond.arg, blk, []))
        self.blocks.append(blk)

    def else_block(self):
        """switch from the body of the innermost open conditional to its else branch"""
        self.blocks.pop()
        node = self.blocks[-1][-1]
        self.blocks.append(node[4])

    def end_block(self):
        self.blocks.pop()
        # drop empty conditionals
        parent = self.blocks[-1]
        if parent and parent[-1][0] == "if" and not parent[-1][3] and not parent[-1][4]:
            parent.pop()

    def write_attr(self, base: V, attr: str, val: V):
        """obj.attr = val"""
        targets = set(base.aliases)
        if base.is_class is not None:
            self.emit_mut(f"<class:{base.is_class.__name__}.{attr}>", val)      # Cls.attr = ...
            return
        if targets:
            for a in sorted(val.aliases):
                if is_static(a) and not a.startswith("<arg:") and not all(is_static(t) for t in targets):
                    # a shared mutable object becomes reachable from the instance: stored by reference
                    self.emit_mut(f"<escape: {a} stored by reference in {join(sorted(targets)[0], attr)}>", val)
            for p in sorted(targets):
                self.emit_set(join(p, attr), val)
            if len(targets) == 1 and not base.local and base.shallow is None:
                return
        # local (fresh) object, or a shallow copy: remember the attribute on the value itself
        base.local[attr] = val

    def types_of(self, path):
        return self.types.get(path)

    def primitive(self, path):
        """every sample holds an immutable primitive (or nothing) at this path"""
        ts = self.rawtypes.get(path)
        return ts is None or all(t in self.PRIMS for t in ts)

    # ---------------------------------------------------------------- attribute access
    def getattr(self, base: V, attr: str) -> V:
        if attr in base.local:
            if not base.aliases:
                return base.local[attr]
            # may be the fresh object (local attribute) or the aliased one (attribute of self): both
            stripped = V(reads=base.reads, arg=base.arg, aliases=base.aliases, classes=base.classes)
            return merge(base.local[attr], self.getattr(stripped, attr))
        if base.is_class is not None:
            try:
                raw = inspect.getattr_static(base.is_class, attr)
            except AttributeError:
                return V()
            if isinstance(raw, MUTABLE):
                return V(aliases={f"<class:{base.is_class.__name__}.{attr}>"})
            if isinstance(raw, (staticmethod, classmethod)):
                return V(func=raw.__func__, bound=(base, attr) if isinstance(raw, classmethod) else None)
            if inspect.isfunction(raw):
                return V(func=raw)
            if inspect.isclass(raw):
                return V(is_class=raw)
            return V()
        # properties / methods of the runtime classes
        if base.classes:
            getters, methods = [], []
            for c in sorted(base.classes, key=lambda c: c.__name__):
                try:
                    raw = inspect.getattr_static(c, attr)
                except AttributeError:
                    continue
                if isinstance(raw, MUTABLE) and not any(join(p, attr) in self.rawtypes for p in base.aliases):
                    return V(aliases={f"<class:{c.__name__}.{attr}>"}, reads=base.reads, arg=base.arg)
                if isinstance(raw, property):
                    getters.append((c, raw.fget))
                elif inspect.isfunction(raw):
                    methods.append((c, raw))
                elif isinstance(raw, (staticmethod, classmethod)):
                    methods.append((c, raw.__func__))
            if getters:
                out = None
                seen = set()
                for c, fget in getters:
                    if fget in seen:
                        continue
                    seen.add(fget)
                    out = merge(out, self.inline(fget, [base], {}))
                return out
            if methods:
                return V(bound=(base, attr), reads=base.reads, arg=base.arg)
        roots = set(base.aliases)
        if base.shallow is not None:
            roots.add(base.shallow)
        if roots:
            paths = {join(p, attr) for p in roots}
            if attr == "sql_dialect":
                # SplinkDialect objects are immutable singletons: a value, not an aliasable object
                self.emit(("obs", sorted(paths)))
                return V(reads=paths | base.reads, arg=base.arg, classes=set(self.dialect_classes))
            classes = set()
            for p in paths:
                classes |= set(self.types_of(p) or ())
            self.emit(("obs", sorted(paths)))      # the attribute is read here
            if all(self.primitive(p) for p in paths) and not any(
                    k.startswith(p + ".") or k.startswith(p + "[") for p in paths for k in self.rawtypes):
                # primitive (or never set) in every sample: an immutable value, not an aliasable object
                return V(reads=paths | base.reads, arg=base.arg)
            return V(reads=paths | base.reads, arg=base.arg, aliases=paths, classes=classes or None)
        return V(reads=base.reads, arg=base.arg)

    # ---------------------------------------------------------------- functions
    def source_ast(self, fn):
        try:
            src = textwrap.dedent(inspect.getsource(fn))
            node = ast.parse(src).body[0]
        except (OSError, TypeError, SyntaxError, IndexError):
            return None
        if not isinstance(node, (ast.FunctionDef, ast.AsyncFunctionDef)):
            return None
        return node

    def inline(self, fn, posargs, kwargs) -> V:
        """abstractly execute a python function of the splink package"""
        if hasattr(fn, "__wrapped__"):
            # decorators of the library (unsupported_splink_dialects) only raise for some dialects
            self.assumed_pure.add("decorator around " + getattr(fn, "__qualname__", "?"))
            fn = inspect.unwrap(fn)
        node = self.source_ast(fn)
        key = getattr(fn, "__qualname__", repr(fn))
        if node is None and key.endswith(".__init__") and self._is_dataclass_init(fn):
            return pure_of(*posargs, *kwargs.values())
        if node is None or len(self.stack) >= self.MAX_DEPTH or self.stack.count(key) >= 3:
            tainted = [a for a in list(posargs) + list(kwargs.values()) if a.tainted()]
            res = pure_of(*posargs, *kwargs.values())
            if tainted:
                for a in tainted:
                    for p in sorted(a.aliases) or ["<unknown call>"]:
                        self.emit_mut(f"<unknown call {key} on {p}>", res, "no source / recursion limit")
            return res
        self.inlined.add(key)
        a = node.args
        params = [p.arg for p in a.posonlyargs + a.args]
        env = {}
        g = sys.modules[fn.__module__].__dict__ if getattr(fn, "__module__", None) in sys.modules else {}
        defaults = a.defaults
        real_defaults = dict(zip(params[len(params) - len(defaults):], getattr(fn, "__defaults__", None) or ()))
        real_defaults.update(getattr(fn, "__kwdefaults__", None) or {})

        def default_value(pn):
            dv = real_defaults.get(pn)
            if isinstance(dv, MUTABLE):
                # the one object created when the function was defined, shared by every call
                return V(aliases={f"<default:{key}.{pn}>"})
            return V()
        for p, d in zip(params[len(params) - len(defaults):], defaults):
            env[p] = default_value(p)
        for p in a.kwonlyargs:
            env[p.arg] = default_value(p.arg)
        for p, v in zip(params, posargs):
            env[p] = v
        if len(posargs) > len(params) and a.vararg:
            env[a.vararg.arg] = V(elem=merge_all(posargs[len(params):]))
        elif a.vararg:
            env[a.vararg.arg] = V(elem=V())
        extra = {}
        for k, v in kwargs.items():
            if k in params or k in [x.arg for x in a.kwonlyargs]:
                env[k] = v
            else:
                extra[k] = v
        if a.kwarg:
            env[a.kwarg.arg] = V(elem=merge_all(list(extra.values())) if extra else V(), local=dict(extra))
        for p in params:
            env.setdefault(p, V())
        self.stack.append(key)
        try:
            fr = Frame(self, env, g, fn)
            fr.block(node.body)
            return fr.result()
        finally:
            self.stack.pop()

    @staticmethod
    def _is_dataclass_init(fn):
        import dataclasses
        mod = sys.modules.get(getattr(fn, "__module__", ""), None)
        owner = getattr(mod, getattr(fn, "__qualname__", "").split(".")[0], None) if mod else None
        return owner is not None and dataclasses.is_dataclass(owner)

    def call_value(self, f: V, posargs, kwargs, node=None) -> V:
        src = ast.unparse(node)[:70] if node is not None else "<call>"
        allargs = list(posargs) + list(kwargs.values())
        # lambda
        if f.lam is not None:
            lam, env = f.lam
            e2 = dict(env)
            for p, v in zip([x.arg for x in lam.args.args], posargs):
                e2[p] = v
            fr = Frame(self, e2, f.func or {}, None)
            return fr.eval(lam.body)
        # class construction
        if f.is_class is not None:
            cls = f.is_class
            if cls.__module__.split(".")[0] != PKG:
                return pure_of(*allargs)
            fresh = V(classes={cls}, reads=frozenset().union(*[a.reads for a in allargs]) if allargs else (),
                      arg=any(a.arg for a in allargs))
            if not any(a.tainted() for a in allargs):
                try:
                    i0 = inspect.getattr_static(cls, "__init__")
                    if inspect.isfunction(i0):
                        self.skipped[fkey(i0)] = (i0, cls)
                except AttributeError:
                    pass
                return fresh       # untainted constructor arguments: a fresh object of pure data
            try:
                init = inspect.getattr_static(cls, "__init__")
            except AttributeError:
                init = None
            if inspect.isfunction(init):
                self.inline(init, [fresh] + list(posargs), kwargs)
            else:
                self.emit_mut(f"<unknown constructor {cls.__name__}>", fresh, src)
            return fresh
        # bound method
        if f.bound is not None and not (f.func is not None and getattr(f.bound[0], "is_class", None) is not None):
            recv, name = f.bound
            return self.call_method(recv, name, posargs, kwargs, src)
        if f.func is not None:
            fn = f.func
            if f.bound is not None:            # classmethod: the class is the first argument
                posargs = [f.bound[0]] + list(posargs)
            mod = getattr(fn, "__module__", "") or ""
            if mod.split(".")[0] == PKG:
                if not any(a.tainted() for a in allargs):
                    self.skipped[fkey(fn)] = (fn, None)
                    return self.special_returns(fn, pure_of(*allargs))
                return self.inline(fn, posargs, kwargs)
            if any(a.tainted() for a in allargs):
                self.assumed_pure.add(f"{mod}.{getattr(fn, '__name__', '?')}")
            return pure_of(*allargs)
        return pure_of(*allargs)

    def special_returns(self, fn, res: V) -> V:
        if getattr(fn, "__qualname__", "") == "SplinkDialect.from_string":
            return V(reads=res.reads, arg=res.arg, classes=set(self.dialect_classes))
        return res

    def call_method(self, recv: V, name: str, posargs, kwargs, src) -> V:
        allargs = list(posargs) + list(kwargs.values())
        # `configure(**options)`: setattr for every supplied option (shape checked by the caller module)
        if name == "configure" and recv.classes and all(hasattr(c, "configure") for c in recv.classes):
            for k, v in kwargs.items():
                self.setattr(recv, k, v)
            return recv
        impls = []
        if recv.classes:
            seen = set()
            for c in sorted(recv.classes, key=lambda c: c.__name__):
                try:
                    raw = inspect.getattr_static(c, name)
                except AttributeError:
                    continue
                fn = raw.__func__ if isinstance(raw, (staticmethod, classmethod)) else raw
                if inspect.isfunction(fn) and fn not in seen:
                    seen.add(fn)
                    impls.append((c, fn, isinstance(raw, staticmethod)))
        if impls:
            interesting = recv.tainted() or any(a.tainted() for a in allargs)
            if not interesting:
                for c, fn, is_static in impls:
                    self.skipped[fkey(fn)] = (fn, None if is_static else c)
                return pure_of(recv, *allargs)
            out = None
            multi = len(impls) > 1
            for c, fn, is_static in impls:
                if multi:
                    self.cond_block(ref_of(recv))
                r = self.inline(fn, ([] if is_static else [recv]) + list(posargs), kwargs)
                if multi:
                    self.end_block()
                out = merge(out, r)
            return out
        # no known implementation
        if recv.aliases or recv.shallow is not None:
            roots = sorted(recv.aliases | ({recv.shallow} if recv.shallow is not None else set()))
            if name in MUTATORS:
                for p in roots:
                    self.emit_mut(p, pure_of(recv, *allargs))
                return pure_of(recv, *allargs)
            if name in ("items", "keys", "values", "get", "copy", "__contains__", "index", "count"):
                # reads the container and (references to) its elements, not the elements' content
                elems = {p + "[*]" for p in roots}
                self.emit(("obs", sorted(elems)))
                classes = set()
                for e in elems:
                    classes |= set(self.types_of(e) or ())
                base = ref_of(recv, *allargs)
                ev = V(reads=base.reads | elems, arg=base.arg, aliases=elems, classes=classes or None)
                if name in ("get",):
                    return ev
                if name in ("index", "count", "__contains__"):
                    return V(reads=ev.reads, arg=ev.arg)
                return V(reads=ev.reads, arg=ev.arg, elem=ev)
            if name in PURE_METHODS:
                return pure_of(recv, *allargs)
            for p in roots:
                self.emit_mut(f"<unknown call {p}.{name}>", pure_of(recv, *allargs), src)
            return pure_of(recv, *allargs)
        # local object: its own mutation is invisible outside the call, but a tainted element may escape
        if name in MUTATORS and allargs:
            recv.elem = merge(recv.elem, merge_all(allargs))
        res = pure_of(recv, *allargs)
        if name in ("pop", "get", "copy", "__getitem__") and recv.elem is not None:
            return merge(res, recv.elem) if name != "copy" else V(reads=res.reads, arg=res.arg, elem=recv.elem, local=dict(recv.local))
        if name in ("items", "values") and recv.elem is not None:
            return V(reads=res.reads, arg=res.arg, elem=recv.elem)
        return res

    def setattr(self, recv: V, name: str, val: V):
        if recv.classes:
            for c in sorted(recv.classes, key=lambda c: c.__name__):
                try:
                    raw = inspect.getattr_static(c, name)
                except AttributeError:
                    continue
                if isinstance(raw, property) and raw.fset is not None:
                    self.inline(raw.fset, [recv, val], {})
                    return
        self.write_attr(recv, name, val)


def merge_all(vals):
    out = None
    for v in vals:
        out = merge(out, v)
    return out if out is not None else V()


class Frame:
    """abstract execution of one function body"""

    def __init__(self, an: Analyser, env: dict, g: dict, fn):
        self.an = an
        self.env = env
        self.g = g
        self.fn = fn
        self.returns: list[V] = []
        self.open_conds = 0

    def result(self) -> V:
        while self.open_conds:
            self.an.end_block()
            self.open_conds -= 1
        return merge_all(self.returns) if self.returns else V()

    # ---------------------------------------------------------------- statements
    def block(self, stmts):
        an = self.an
        for i, st in enumerate(stmts):
            if isinstance(st, ast.If):
                c = self.eval(st.test)
                if c.sbool is not None:
                    self.block(st.body if c.sbool else st.orelse)
                    continue
                rb, ro = self.has_return(st.body), self.has_return(st.orelse)
                if rb or ro:
                    rest = stmts[i + 1:]
                    saved = dict(self.env)
                    an.cond_block(c)
                    self.block(st.body)
                    if ro and not rb:
                        self.block(rest)          # the else branch leaves: what follows belongs to the body
                    env_a = self.env
                    self.env = dict(saved)
                    an.else_block()
                    self.block(st.orelse)
                    if rb:
                        self.block(rest)          # the body leaves: what follows is the else branch
                    an.end_block()
                    self.env = self.merge_env(env_a, self.env)
                    return
            self.stmt(st)

    def has_return(self, stmts):
        return any(isinstance(n, (ast.Return, ast.Raise)) for s in stmts for n in ast.walk(s))

    def stmt(self, st):
        an = self.an
        if isinstance(st, ast.Expr):
            self.eval(st.value)
        elif isinstance(st, ast.Return):
            self.returns.append(self.eval(st.value) if st.value is not None else V())
        elif isinstance(st, ast.Raise):
            pass      # the call ends with an exception: what the message reads is not part of any result
        elif isinstance(st, (ast.Assign, ast.AnnAssign)):
            if st.value is None:
                return
            val = self.eval(st.value)
            targets = st.targets if isinstance(st, ast.Assign) else [st.target]
            for t in targets:
                self.assign(t, val)
        elif isinstance(st, ast.AugAssign):
            val = self.eval(st.value)
            if isinstance(st.target, ast.Name):
                self.env[st.target.id] = merge(self.env.get(st.target.id), val)
            elif isinstance(st.target, ast.Attribute):
                base = self.eval(st.target.value)
                old = an.getattr(base, st.target.attr)
                new = pure_of(old, val)
                if base.aliases:
                    for p in sorted(base.aliases):
                        an.emit(("set", join(p, st.target.attr), sorted(new.reads | {join(p, st.target.attr)}), new.arg))
                else:
                    base.local[st.target.attr] = new
            elif isinstance(st.target, ast.Subscript):
                base = self.eval(st.target.value)
                for p in sorted(base.aliases):
                    an.emit_mut(p, val)
        elif isinstance(st, ast.If):
            c = self.eval(st.test)
            if c.sbool is not None:
                self.block(st.body if c.sbool else st.orelse)
                return
            saved = dict(self.env)
            an.cond_block(c)
            self.block(st.body)
            env_a = self.env
            self.env = dict(saved)
            an.else_block()
            self.block(st.orelse)
            an.end_block()
            env_b = self.env
            self.env = self.merge_env(env_a, env_b)
        elif isinstance(st, (ast.For, ast.AsyncFor)):
            it = self.eval(st.iter)
            if it.unordered:
                an.emit_mut("<unordered: the iteration order of a set decides the result>", it, ast.unparse(st.iter)[:60])
            if it.static is not None and isinstance(st.target, ast.Name):
                for name in it.static:
                    self.env[st.target.id] = V(const=name)
                    self.block(st.body)
                return
            saved = dict(self.env)
            an.cond_block(it)
            self.bind_target(st.target, self.elem_of(it))
            self.block(st.body)
            self.block(st.orelse)
            an.end_block()
            self.env = self.merge_env(saved, self.env)
        elif isinstance(st, ast.While):
            c = self.eval(st.test)
            saved = dict(self.env)
            an.cond_block(c)
            self.block(st.body)
            an.end_block()
            self.env = self.merge_env(saved, self.env)
        elif isinstance(st, ast.Try):
            saved = dict(self.env)
            an.cond_block(V())
            self.block(st.body)
            an.end_block()
            envs = [self.env]
            for h in st.handlers:
                self.env = dict(saved)
                an.cond_block(V())
                self.block(h.body)
                an.end_block()
                envs.append(self.env)
            self.env = envs[0]
            for e in envs[1:]:
                self.env = self.merge_env(self.env, e)
            self.block(st.orelse)
            self.block(st.finalbody)
        elif isinstance(st, ast.With):
            for item in st.items:
                v = self.eval(item.context_expr)
                if item.optional_vars is not None:
                    self.assign(item.optional_vars, v)
            self.block(st.body)
        elif isinstance(st, ast.Delete):
            for t in st.targets:
                if isinstance(t, (ast.Attribute, ast.Subscript)):
                    base = self.eval(t.value)
                    for p in sorted(base.aliases):
                        an.emit_mut(p if isinstance(t, ast.Subscript) else join(p, t.attr), None)
                    if isinstance(t, ast.Subscript) and not base.aliases:
                        pass
                elif isinstance(t, ast.Name):
                    self.env.pop(t.id, None)
        elif isinstance(st, (ast.Pass, ast.Assert, ast.Import, ast.ImportFrom, ast.Break, ast.Continue)):
            if isinstance(st, (ast.Import, ast.ImportFrom)):
                # local imports: resolve lazily through the real module
                for alias in st.names:
                    name = alias.asname or alias.name.split(".")[0]
                    try:
                        if isinstance(st, ast.ImportFrom):
                            import importlib
                            base = st.module or ""
                            if st.level:
                                pkg = (getattr(self.fn, "__module__", "") or "").rsplit(".", st.level)[0]
                                base = pkg + ("." + base if base else "")
                            mod = importlib.import_module(base)
                            self.g = dict(self.g)
                            self.g[name] = getattr(mod, alias.name)
                    except Exception:
                        pass
        elif isinstance(st, (ast.FunctionDef, ast.ClassDef)):
            self.env[st.name] = V()
        else:
            an.emit_mut(f"<unknown statement {type(st).__name__}>", None, ast.unparse(st)[:60])

    def merge_env(self, a, b):
        out = {}
        for k in set(a) | set(b):
            out[k] = merge(a.get(k), b.get(k)) if (k in a and k in b) else (a.get(k) or b.get(k))
        return out

    def elem_of(self, it: V) -> V:
        if it.elem is None and it.aliases:
            self.an.emit(("obs", sorted(p + "[*]" for p in it.aliases)))
        if it.elem is not None:
            e = it.elem
            return V(reads=e.reads | it.reads, arg=e.arg or it.arg, aliases=e.aliases, shallow=e.shallow, classes=e.classes,
                     elem=e.elem, local=e.local, static=e.static, const=e.const)
        if it.aliases:
            paths = {p + "[*]" for p in it.aliases}
            classes = set()
            for p in paths:
                classes |= set(self.an.types_of(p) or ())
            return V(reads=paths | it.reads, arg=it.arg, aliases=paths, classes=classes or None)
        return V(reads=it.reads, arg=it.arg)

    def bind_target(self, t, v: V):
        if isinstance(t, ast.Name):
            self.env[t.id] = v
        elif isinstance(t, (ast.Tuple, ast.List)):
            for e in t.elts:
                self.bind_target(e, v if v.elem is None else self.elem_of(v))
        elif isinstance(t, ast.Starred):
            self.bind_target(t.value, v)
        else:
            self.assign(t, v)

    def assign(self, t, val: V):
        an = self.an
        if isinstance(t, ast.Name):
            self.env[t.id] = val
        elif isinstance(t, (ast.Tuple, ast.List)):
            for e in t.elts:
                self.bind_target(e, self.elem_of(val) if (val.elem is not None or val.aliases) else val)
        elif isinstance(t, ast.Attribute):
            base = self.eval(t.value)
            if base.classes:
                for c in base.classes:
                    try:
                        raw = inspect.getattr_static(c, t.attr)
                    except AttributeError:
                        continue
                    if isinstance(raw, property) and raw.fset is not None:
                        an.inline(raw.fset, [base, val], {})
                        return
            an.write_attr(base, t.attr, val)
        elif isinstance(t, ast.Subscript):
            base = self.eval(t.value)
            idx = self.eval(t.slice)
            if base.aliases:
                for p in sorted(base.aliases):
                    an.emit_mut(p, pure_of(val, idx))
            else:
                base.elem = merge(base.elem, val)
                if idx.const is not None:
                    base.local[idx.const] = val
        else:
            an.emit_mut(f"<unknown assignment target {type(t).__name__}>", val)

    # ---------------------------------------------------------------- expressions
    def eval(self, node) -> V:
        an = self.an
        if node is None:
            return V()
        if isinstance(node, ast.Constant):
            return V(const=node.value if isinstance(node.value, str) else None)
        if isinstance(node, ast.Name):
            if node.id in self.env:
                return self.env[node.id]
            if node.id in self.g:
                o = self.g[node.id]
                if inspect.isclass(o):
                    return V(is_class=o)
                if inspect.isfunction(o) or inspect.isbuiltin(o) or callable(o) and hasattr(o, "__name__"):
                    return V(func=o)
                if inspect.ismodule(o):
                    return V(local={}, func=None, is_class=None, static=None, const=None, elem=None, classes=None,
                             reads=(), aliases=(), lam=None, bound=("module", o))
                if isinstance(o, MUTABLE):
                    mod = getattr(self.fn, "__module__", "?")
                    return V(aliases={f"<module:{mod}.{node.id}>"})
            return V()
        if isinstance(node, ast.Attribute):
            base = self.eval(node.value)
            if isinstance(base.bound, tuple) and base.bound and base.bound[0] == "module":
                o = getattr(base.bound[1], node.attr, None)
                if inspect.isclass(o):
                    return V(is_class=o)
                if callable(o):
                    return V(func=o)
                if inspect.ismodule(o):
                    return V(bound=("module", o))
                return V()
            return an.getattr(base, node.attr)
        if isinstance(node, ast.Call):
            return self.call(node)
        if isinstance(node, ast.NamedExpr):
            v = self.eval(node.value)
            self.assign(node.target, v)
            return v
        if isinstance(node, ast.Subscript):
            base = self.eval(node.value)
            idx = self.eval(node.slice)
            if idx.const is not None and idx.const in base.local:
                return base.local[idx.const]
            e = self.elem_of(base)
            return V(reads=e.reads | idx.reads, arg=e.arg or idx.arg, aliases=e.aliases, shallow=e.shallow, classes=e.classes,
                     elem=e.elem, local=e.local)
        if isinstance(node, ast.IfExp):
            c = self.eval(node.test)
            an.cond_block(c)
            a = self.eval(node.body)
            an.else_block()
            b = self.eval(node.orelse)
            an.end_block()
            m = merge(a, b)
            return V(reads=m.reads | c.reads, arg=m.arg or c.arg, aliases=m.aliases, shallow=m.shallow, classes=m.classes,
                     elem=m.elem, local=m.local)
        if isinstance(node, ast.Set):
            m = pure_of(*[self.eval(e) for e in node.elts])
            m.unordered = True
            return m
        if isinstance(node, (ast.List, ast.Tuple, ast.Set)):
            vals = []
            for e in node.elts:
                v = self.eval(e.value if isinstance(e, ast.Starred) else e)
                vals.append(self.elem_of(v) if isinstance(e, ast.Starred) else v)
            static = [v.const for v in vals] if vals and all(v.const is not None for v in vals) else None
            m = merge_all(vals) if vals else V()
            return V(reads=m.reads, arg=m.arg, elem=m if vals else None, static=static)
        if isinstance(node, ast.Dict):
            local = {}
            vals = []
            for k, v in zip(node.keys, node.values):
                vv = self.eval(v)
                if k is None:
                    vals.append(self.elem_of(vv) if vv.elem is not None else vv)
                    local.update(vv.local)
                    continue
                kk = self.eval(k)
                vals.append(vv)
                if kk.const is not None:
                    local[kk.const] = vv
            m = merge_all(vals) if vals else V()
            return V(reads=m.reads, arg=m.arg, elem=m if vals else None, local=local)
        if isinstance(node, (ast.ListComp, ast.SetComp, ast.GeneratorExp, ast.DictComp)):
            saved = dict(self.env)
            reads = V()
            opened = 0
            for gen in node.generators:
                it = self.eval(gen.iter)
                if it.unordered and not isinstance(node, ast.SetComp):
                    an.emit_mut("<unordered: the iteration order of a set decides the result>", it, ast.unparse(node)[:60])
                reads = ref_of(reads, it)        # iterating reads the container, not its elements' content
                if it.static is not None and isinstance(gen.target, ast.Name) and len(node.generators) == 1 \
                        and isinstance(node, ast.ListComp) and isinstance(node.elt, ast.Name) and node.elt.id == gen.target.id:
                    names = list(it.static)
                    for cond in gen.ifs:
                        if (isinstance(cond, ast.Compare) and len(cond.ops) == 1 and isinstance(cond.ops[0], ast.NotEq)
                                and isinstance(cond.comparators[0], ast.Constant)):
                            names = [n for n in names if n != cond.comparators[0].value]
                    self.env = saved
                    return V(static=names, elem=V())
                an.cond_block(it)
                opened += 1
                self.bind_target(gen.target, self.elem_of(it))
                for cond in gen.ifs:
                    reads = ref_of(reads, self.eval(cond))
            if isinstance(node, ast.DictComp):
                e = merge(self.eval(node.key), self.eval(node.value))
            else:
                e = self.eval(node.elt)
            for _ in range(opened):
                an.end_block()
            self.env = saved
            res = V(reads=reads.reads | e.reads, arg=reads.arg or e.arg, elem=e)
            res.unordered = isinstance(node, ast.SetComp)
            return res
        if isinstance(node, ast.Lambda):
            return V(lam=(node, dict(self.env)), func=self.g)
        if isinstance(node, ast.JoinedStr):
            return pure_of(*[self.eval(v) for v in node.values])
        if isinstance(node, ast.FormattedValue):
            return pure_of(self.eval(node.value))
        if isinstance(node, ast.BoolOp):
            vals = [self.eval(v) for v in node.values]
            m = merge_all(vals)
            return m
        if isinstance(node, ast.BinOp):
            return pure_of(self.eval(node.left), self.eval(node.right))
        if isinstance(node, ast.UnaryOp):
            return pure_of(self.eval(node.operand))
        if isinstance(node, ast.Compare):
            vals = [self.eval(node.left)] + [self.eval(c) for c in node.comparators]
            if all(isinstance(o, (ast.Is, ast.IsNot)) for o in node.ops):
                return ref_of(*vals)
            if all(isinstance(o, (ast.In, ast.NotIn)) for o in node.ops) and isinstance(node.left, ast.Constant):
                return ref_of(*vals)        # key membership: the container's keys, not its values' content
            return pure_of(*vals)
        if isinstance(node, ast.Starred):
            return self.eval(node.value)
        if isinstance(node, ast.Slice):
            return pure_of(self.eval(node.lower), self.eval(node.upper), self.eval(node.step))
        if isinstance(node, (ast.Await, ast.Yield, ast.YieldFrom)):
            an.emit_mut(f"<unknown expression {type(node).__name__}>", None)
            return V()
        return V()

    def call(self, node: ast.Call) -> V:
        an = self.an
        f = node.func
        posargs = []
        for a in node.args:
            v = self.eval(a.value if isinstance(a, ast.Starred) else a)
            posargs.append(self.elem_of(v) if isinstance(a, ast.Starred) and (v.elem is not None or v.aliases) else v)
        kwargs = {}
        spread = []
        for k in node.keywords:
            v = self.eval(k.value)
            if k.arg is None:
                spread.append(v)
                for kk, vv in v.local.items():
                    kwargs.setdefault(kk, vv)
            else:
                kwargs[k.arg] = v
        allargs = posargs + list(kwargs.values()) + spread
        # ---- names with special meaning
        if isinstance(f, ast.Name) and f.id not in self.env:
            name = f.id
            if name == "super":
                selfv = self.env.get("self")
                return V(bound=("super", selfv, self.fn))
            if name in ("copy",) and len(posargs) == 1:
                x = posargs[0]
                if len(x.aliases) == 1:
                    return V(reads=x.reads, arg=x.arg, shallow=next(iter(x.aliases)), classes=x.classes, local={})
                if x.shallow is not None:
                    return V(reads=x.reads, arg=x.arg, shallow=x.shallow, classes=x.classes, local=dict(x.local))
                if x.aliases:
                    an.emit_mut("<unknown copy of ambiguous alias>", x)
                return V(reads=x.reads, arg=x.arg, classes=x.classes, elem=x.elem, local=dict(x.local))
            if name in ("deepcopy", "asdict"):
                return pure_of(*allargs)
            if name == "getattr" and len(posargs) >= 2:
                o, k = posargs[0], posargs[1]
                d = posargs[2] if len(posargs) > 2 else V()
                if k.const is not None:
                    return merge(an.getattr(o, k.const), d)
                if o.tainted():
                    an.emit_mut("<unknown dynamic getattr>", o, ast.unparse(node)[:60])
                return pure_of(o, d)
            if name == "setattr" and len(posargs) == 3:
                o, k, v = posargs
                if k.const is not None:
                    an.setattr(o, k.const, v)
                elif o.tainted():
                    an.emit_mut("<unknown dynamic setattr>", v, ast.unparse(node)[:60])
                return V()
            if name == "map" and len(posargs) >= 2 and posargs[0].lam is None and posargs[0].is_class is None \
                    and (posargs[0].func is None or (getattr(posargs[0].func, "__module__", "") or "").split(".")[0] != PKG):
                return pure_of(*allargs)      # map(str, xs) and the like
            if name == "map" and len(posargs) >= 2 and posargs[0].lam is not None:
                it = posargs[1]
                an.cond_block(it)
                r = an.call_value(posargs[0], [self.elem_of(it)], {}, node)
                an.end_block()
                return V(reads=r.reads | it.reads, arg=r.arg or it.arg, elem=r)
            if name == "signature" and len(posargs) == 1 and posargs[0].bound is not None \
                    and not isinstance(posargs[0].bound[0], str):
                recv, mname = posargs[0].bound
                if recv.classes:
                    c = sorted(recv.classes, key=lambda c: c.__name__)[0]
                    try:
                        names = list(inspect.signature(getattr(c, mname)).parameters)
                    except (TypeError, ValueError):
                        names = None
                    if names is not None:
                        return V(local={"parameters": V(static=names, elem=V())})
            if name == "isinstance" and len(posargs) == 2 and posargs[1].is_class is not None:
                x, c = posargs[0], posargs[1].is_class
                m = ref_of(*allargs)
                if c.__module__.split(".")[0] == PKG:
                    known = None
                    if x.aliases:
                        # decide from the raw types of the samples (a path may hold dicts as well as creators)
                        raw = set()
                        complete = True
                        for pth in x.aliases:
                            ts = an.rawtypes.get(pth)
                            if ts is None:
                                complete = False
                            else:
                                raw |= set(ts)
                        if x.local or x.shallow is not None:
                            raw |= set(x.classes or ())
                        if complete and raw:
                            if all(issubclass(k, c) for k in raw):
                                known = True
                            elif not any(issubclass(k, c) for k in raw):
                                known = False
                    elif x.classes:
                        if all(issubclass(k, c) for k in x.classes):
                            known = True
                        elif not any(issubclass(k, c) for k in x.classes):
                            known = False
                    elif not x.tainted() and x.is_class is None and x.func is None:
                        known = False       # a primitive / pure value is not an instance of a splink class
                    m.sbool = known
                return m
            if name in ("set", "frozenset") and name not in self.g:
                m = pure_of(*allargs)
                m.unordered = True
                return m
            if name in ("list", "tuple", "iter", "enumerate", "zip", "reversed", "next") and name not in self.g \
                    and any(a.unordered for a in posargs):
                an.emit_mut("<unordered: the iteration order of a set decides the result>", pure_of(*allargs),
                            ast.unparse(node)[:60])
            if name in ("hasattr", "callable", "type", "id", "isinstance", "issubclass", "len", "bool") and name not in self.g:
                return ref_of(*allargs)
            if name in PURE_BUILTINS and name not in self.g:
                m = pure_of(*allargs)
                if name in ("list", "tuple", "sorted", "reversed", "iter", "enumerate", "zip", "set", "dict") and posargs:
                    src0 = posargs[0]
                    e = self.elem_of(src0) if (src0.elem is not None or src0.aliases) else None
                    return V(reads=m.reads, arg=m.arg, elem=e, static=src0.static if name in ("list", "tuple") else None)
                return m
        fv = self.eval(f)
        # super().method(...)
        if isinstance(f, ast.Attribute):
            base_node = f.value
            if isinstance(base_node, ast.Call) and isinstance(base_node.func, ast.Name) and base_node.func.id == "super":
                selfv = self.env.get("self")
                owner = self.owner_class()
                if selfv is not None and owner is not None and selfv.classes:
                    out = None
                    for c in selfv.classes:
                        mro = list(c.__mro__)
                        if owner in mro:
                            for nxt in mro[mro.index(owner) + 1:]:
                                if f.attr in nxt.__dict__:
                                    raw = nxt.__dict__[f.attr]
                                    fn = raw.__func__ if isinstance(raw, (staticmethod, classmethod)) else raw
                                    if inspect.isfunction(fn):
                                        out = merge(out, an.inline(fn, [selfv] + posargs, kwargs))
                                    break
                    return out if out is not None else pure_of(*allargs)
                return pure_of(*allargs)
        if fv.lam is not None or fv.is_class is not None or fv.bound is not None or fv.func is not None:
            if isinstance(fv.bound, tuple) and fv.bound and isinstance(fv.bound[0], str):
                return pure_of(*allargs)
            return an.call_value(fv, posargs, kwargs, node)
        # method call on a value whose classes are unknown
        if isinstance(f, ast.Attribute):
            recv = self.eval(f.value)
            return an.call_method(recv, f.attr, posargs, kwargs, ast.unparse(node)[:70])
        if fv.aliases and all(p.endswith("operations[*]") for p in fv.aliases):
            # ColumnExpressionOperation: partial of a ColumnExpression._*_dialected method (pure; obligation
            # `column_expression_operations_pure` checks every such method)
            return pure_of(fv, *allargs)
        if any(a.tainted() for a in allargs) or fv.tainted():
            for a in allargs + [fv]:
                for p in sorted(a.aliases):
                    an.emit_mut(f"<unknown call on {p}>", a, ast.unparse(node)[:60])
        return pure_of(fv, *allargs)

    def owner_class(self):
        qn = getattr(self.fn, "__qualname__", "")
        mod = sys.modules.get(getattr(self.fn, "__module__", ""), None)
        if mod is None or "." not in qn:
            return None
        o = mod
        for part in qn.split(".")[:-1]:
            o = getattr(o, part, None)
            if o is None:
                return None
        return o if inspect.isclass(o) else None


# ------------------------------------------------------------------------- runtime types from samples
def collect_types(obj, types: dict, path="", depth=0, seen=None):
    seen = seen if seen is not None else set()
    if depth > 5 or (id(obj), path) in seen:
        return
    seen.add((id(obj), path))
    try:
        d = vars(obj)
    except TypeError:
        return
    for k, v in d.items():
        p = join(path, k)
        types.setdefault(p, set()).add(type(v))
        elems = None
        if isinstance(v, (list, tuple)):
            elems = list(v)
        elif isinstance(v, dict):
            elems = list(v.values())
        if elems is not None:
            for e in elems:
                types.setdefault(p + "[*]", set()).add(type(e))
                if type(e).__module__.split(".")[0] == PKG:
                    collect_types(e, types, p + "[*]", depth + 1, seen)
        elif type(v).__module__.split(".")[0] == PKG:
            collect_types(v, types, p, depth + 1, seen)


def analyse_constructor(cls, samples, dialect_classes):
    """program of cls.__init__ called with every defaulted parameter left at its default (so that a mutable
    default is the shared object) and every required parameter an opaque argument"""
    rawtypes: dict = {}
    for s in samples:
        collect_types(s, rawtypes)
    types = {p: {c for c in cs if c.__module__.split(".")[0] == PKG} for p, cs in rawtypes.items()}
    types = {p: cs for p, cs in types.items() if cs}
    an = Analyser(types, dialect_classes, rawtypes)
    selfv = V(aliases={""}, classes={cls})
    init = inspect.getattr_static(cls, "__init__")
    import dataclasses
    if not inspect.isfunction(init) or (dataclasses.is_dataclass(cls) and an.source_ast(init) is None):
        # no constructor of its own / generated dataclass constructor (dataclasses rejects mutable defaults
        # and builds default_factory values afresh)
        return {"program": [], "out_reads": [], "out_arg": False, "unknown": [], "inlined": [], "assumed_pure": []}
    sig = inspect.signature(init)
    pos, kw = [selfv], {}
    for name, prm in list(sig.parameters.items())[1:]:
        if prm.default is not inspect.Parameter.empty or prm.kind in (prm.VAR_POSITIONAL, prm.VAR_KEYWORD):
            continue
        if prm.kind == prm.KEYWORD_ONLY:
            kw[name] = V(arg=True)
        else:
            pos.append(V(arg=True))
    _AN[0] = an
    try:
        an.inline(init, pos, kw)
    finally:
        _AN[0] = None
    return {"program": an.blocks[0], "out_reads": [], "out_arg": True, "unknown": an.unknown,
            "inlined": sorted(an.inlined), "assumed_pure": sorted(an.assumed_pure)}


# callees whose class-level state is a cache of immutable singletons keyed by the dialect itself
ALLOWED_STATE = {"dialects.SplinkDialect.__new__": "instance cache of the immutable dialect singletons, keyed by the dialect class"}


def analyse_callee(fn, owner, dialect_classes):
    """a package callee that the creators' analysis did not inline (no value reachable from the creator was
    passed): abstractly executed with opaque arguments; only its writes to module / class / default state
    matter (its own locals and arguments are not the creator's).  Returns (program, skipped callees)."""
    import dataclasses
    an = Analyser({}, dialect_classes, {})
    node = an.source_ast(inspect.unwrap(fn))
    if node is None:
        if owner is not None and dataclasses.is_dataclass(owner) and getattr(fn, "__name__", "") == "__init__":
            return [], {}      # generated dataclass constructor: stores its arguments
        return [("mut", f"<unknown callee without source {getattr(fn, '__qualname__', fn)}>", [], False)], {}
    a = node.args
    params = [p.arg for p in a.posonlyargs + a.args]
    args = []
    for i, pn in enumerate(params):
        if i == 0 and owner is not None and pn in ("self", "cls"):
            args.append(V(classes={owner}) if pn == "self" else V(is_class=owner))
        else:
            args.append(V(arg=True, classes=set(dialect_classes) if "dialect" in pn and "str" not in pn and "name" not in pn else None))
    kw = {p.arg: V(arg=True) for p in a.kwonlyargs}
    _AN[0] = an
    try:
        an.inline(fn, args, kw)
    finally:
        _AN[0] = None
    return an.blocks[0], an.skipped


def analyse_arguments(cls, name, samples, dialect_classes, hint_classes):
    """program of cls.<name> (constructor, classmethod or method) called with every parameter bound to an object
    supplied by the CALLER (root <arg:param>): whatever it writes below such a root changes the caller's objects"""
    rawtypes: dict = {}
    for s in samples:
        collect_types(s, rawtypes)
    types = {p: {c for c in cs if c.__module__.split(".")[0] == PKG} for p, cs in rawtypes.items()}
    an = Analyser({p: cs for p, cs in types.items() if cs}, dialect_classes, rawtypes)
    raw = inspect.getattr_static(cls, name)
    fn = raw.__func__ if isinstance(raw, (staticmethod, classmethod)) else raw
    if not inspect.isfunction(fn) or an.source_ast(fn) is None:
        return {"program": [], "out_reads": [], "out_arg": True, "unknown": [], "inlined": [], "assumed_pure": [], "skipped": {}}
    sig = inspect.signature(fn)
    pos, kw = [], {}
    for i, (pn, prm) in enumerate(sig.parameters.items()):
        if i == 0 and pn == "self":
            pos.append(V(aliases={""}, classes={cls}))
            continue
        if i == 0 and pn == "cls":
            pos.append(V(is_class=cls))
            continue
        ann = str(prm.annotation)
        classes = set()
        for key, cs in hint_classes.items():
            if key in ann:
                classes |= set(cs)
        root = f"<arg:{pn}>"
        if prm.kind == prm.VAR_POSITIONAL:
            ev = V(aliases={root + "[*]"}, classes=classes or None, reads={root + "[*]"})
            pos.append(ev)          # one representative element
            continue
        if prm.kind == prm.VAR_KEYWORD:
            continue
        v = V(aliases={root}, classes=classes or None, reads={root}, arg=True)
        if prm.kind == prm.KEYWORD_ONLY:
            kw[pn] = v
        else:
            pos.append(v)
    _AN[0] = an
    try:
        an.inline(fn, pos, kw)
    finally:
        _AN[0] = None
    return {"program": an.blocks[0], "out_reads": [], "out_arg": True, "unknown": an.unknown,
            "inlined": sorted(an.inlined), "assumed_pure": sorted(an.assumed_pure), "skipped": dict(an.skipped)}


def analyse(cls, entry: str, samples, dialect_classes):
    """program of cls.entry(dialect); returns dict(program, out_reads, out_arg, unknown, inlined)"""
    rawtypes: dict = {}
    for s in samples:
        collect_types(s, rawtypes)
    types = {p: {c for c in cs if c.__module__.split(".")[0] == PKG} for p, cs in rawtypes.items()}
    types = {p: cs for p, cs in types.items() if cs}
    an = Analyser(types, dialect_classes, rawtypes)
    selfv = V(aliases={""}, classes={cls})
    argv = V(arg=True, classes=set(dialect_classes) if entry == "create_sql" else None)
    raw = inspect.getattr_static(cls, entry)
    fn = raw.__func__ if isinstance(raw, (staticmethod, classmethod)) else raw
    _AN[0] = an
    try:
        ret = an.inline(fn, [selfv, argv], {})
        ret = pure_of(ret)      # the returned object is consumed as a whole (observed at the end)
    finally:
        _AN[0] = None
    prog = an.blocks[0]
    return {"program": prog, "out_reads": [], "out_arg": ret.arg, "unknown": an.unknown,
            "inlined": sorted(an.inlined), "assumed_pure": sorted(an.assumed_pure), "skipped": dict(an.skipped)}


# ------------------------------------------------------------------------- read closure and Coq emission
def written_paths(prog, acc=None):
    acc = acc if acc is not None else set()
    for st in prog:
        if st[0] in ("set", "mut"):
            acc.add(st[1])
        elif st[0] == "if":
            written_paths(st[3], acc)
            written_paths(st[4], acc)
    return acc


def related(r, w):
    """reading r observes the write w (w below r) or is redirected by it (w above r)"""
    if r == w:
        return True
    if r == "":
        return True
    return w.startswith(r + ".") or w.startswith(r + "[") or r.startswith(w + ".") or r.startswith(w + "[")


def close_reads(reads, W, target=None):
    """a plain read of path r depends on r and on every written path above r (rebinding); a deep
    read "r.*" (object consumed as a whole) also on every written path below r"""
    out = set()
    for r in reads:
        deep = r.endswith(".*")
        if deep:
            r = r[:-2]
        if r == "":
            if deep:
                out |= set(W)
            continue
        hit = {w for w in W if w == r or r.startswith(w + ".") or r.startswith(w + "[")}
        if deep:
            hit |= {w for w in W if w.startswith(r + ".") or w.startswith(r + "[")}
        out |= hit if hit else {r}
    if target is not None:
        # the object that is written is located through the paths above the target
        out |= {w for w in W if w != target and (target.startswith(w + ".") or target.startswith(w + "["))}
    return sorted(out)


OUT = "$observed"     # the log of everything the call reads: its result is a function of it and of the argument


def closed_program(prog, W, top=True):
    """close the reads, keep only observations of written paths (reads of never-written attributes
    cannot differ between calls), drop empty conditionals"""
    out = [("set", OUT, [], False)] if top else []
    for st in prog:
        if st[0] in ("set", "mut"):
            out.append((st[0], st[1], [r for r in close_reads(st[2], W, st[1]) if r in W], st[3]))
        elif st[0] == "obs":
            rs = [r for r in close_reads(st[1], W) if r in W]
            if rs:
                if out and out[-1][0] == "set" and out[-1][1] == OUT and out[-1][2] and out[-1][2][0] == OUT:
                    merged = sorted(set(out[-1][2][1:]) | set(rs))
                    out[-1] = ("set", OUT, [OUT] + merged, False)
                else:
                    out.append(("set", OUT, [OUT] + rs, False))
        else:
            body, orelse = closed_program(st[3], W, False), closed_program(st[4], W, False)
            cond = [r for r in close_reads(st[1], W) if r in W]
            if body or orelse:
                out.append(("if", cond, st[2], body, orelse))
            elif cond:
                out.append(("set", OUT, [OUT] + cond, False))
    return out


def cstr(s):
    s = "".join(c if 32 <= ord(c) < 127 else "?" for c in s)
    return '"' + s.replace('"', '""') + '"'


def aexpr(tag, reads, arg):
    parts = [f"(AAttr {cstr(r)})" for r in reads] + (["AArg"] if arg else [])
    if not parts:
        return f"(AConst {cstr(tag)})"
    e = parts[-1]
    for p in reversed(parts[:-1]):
        e = f"(APair {p} {e})"
    return f"(AFn {cstr(tag)} {e})"


def prog_to_coq(prog, counter=None):
    """conditions get site-indexed atoms (c0, c1, ...) so that every branch point can be interpreted
    independently by `truth`"""
    counter = counter if counter is not None else [0]
    items = []
    for st in prog:
        if st[0] == "obs":
            continue
        if st[0] == "set":
            items.append(f"SSet {cstr(st[1])} {aexpr('f', st[2], st[3])}")
        elif st[0] == "mut":
            items.append(f"SMutate {cstr(st[1])} {aexpr('f', st[2], st[3])}")
        else:
            tag = f"c{counter[0]}"
            counter[0] += 1
            items.append(f"SIf {aexpr(tag, st[1], st[2])} {prog_to_coq(st[3], counter)} {prog_to_coq(st[4], counter)}")
    return "[" + "; ".join(items) + "]"
