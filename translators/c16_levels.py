"""C16 translator: SQL condition of every library level creator -> Gallina `expr` (Model/SqlExpr.v).

Fail-closed: `parse_sql` raises Untranslatable on any AST node outside the modelled fragment
(lambdas, brackets, aliases, sub-queries ...).  The real code is *called*
(`creator.get_comparison_level(dialect).sql_condition`, `SettingsCreator(...).get_settings(d)`),
its SQL is parsed with sqlglot in that dialect (with an empty FUNCTIONS table, so that every
function call keeps the name that was actually written) and emitted as a Coq term; next to it
the translator emits the term `gen_X args` of the generator of that creator family
(Model/Levels.v) built from the *constructor arguments* and an independent table of the engine
function names that implement the documented metric in each dialect.  The obligation
`same_expr current generated = true` is evaluated by Coq.

Level lists of comparison creators are emitted for `levels_ok` / `gen_case`; there, sub-trees
outside the fragment become opaque nullary functions `?<hash>` (lenient mode), which keeps
"same left-hand side" detectable for threshold families.
"""
from __future__ import annotations

import hashlib
import re
from dataclasses import dataclass, field
from fractions import Fraction
from typing import Callable

import sqlglot
import sqlglot.expressions as E
from sqlglot.dialects import DuckDB, Spark, SQLite

from harness.common import coq_list, coq_Q, coq_string, coq_Z


class Untranslatable(Exception):
    pass


def _mk(base):
    class P(base.Parser):
        FUNCTIONS: dict = {}

    class D(base):
        Parser = P

    return D


_DIALECTS = {"duckdb": _mk(DuckDB), "sqlite": _mk(SQLite), "spark": _mk(Spark)}

# ------------------------------------------------------------------------------------------
# tree representation (python tuples) and Coq rendering
# ------------------------------------------------------------------------------------------
CMP = {E.EQ: "CEq", E.NEQ: "CNe", E.LT: "CLt", E.LTE: "CLe", E.GT: "CGt", E.GTE: "CGe"}
ARITH = {E.Add: "Add", E.Sub: "Sub", E.Mul: "Mul", E.Div: "Div"}


def v_null():
    return ("null",)


def v_int(n):
    return ("int", int(n))


def v_num(q):
    return ("num", Fraction(q))


def v_str(s):
    return ("str", s)


def v_arr(xs):
    return ("arr", list(xs))


def py_number_val(x):
    """constructor argument (python int/float) -> literal value as the f-string renders it"""
    if isinstance(x, bool):
        raise Untranslatable("bool threshold")
    if isinstance(x, int):
        return v_int(x)
    txt = repr(float(x))
    if "e" in txt or "inf" in txt or "nan" in txt:
        raise Untranslatable(f"float literal {txt}")
    return v_num(Fraction(txt))


def col(side: bool, name: str):
    return ("col", side, name)


def lit(v):
    return ("lit", v)


def fn(name, *args):
    return ("fn", name, list(args))


def coq_val(v) -> str:
    k = v[0]
    if k == "null":
        return "VNull"
    if k == "bool":
        return f"(VBool {'true' if v[1] else 'false'})"
    if k == "int":
        return f"(VInt {coq_Z(v[1])})"
    if k == "num":
        return f"(VNum {coq_Q(v[1])})"
    if k == "str":
        return f"(VStr {coq_string(v[1])})"
    if k == "arr":
        return f"(VArr {coq_list([coq_string(s) for s in v[1]], 'string')})"
    if k == "inf":
        return "VInf"
    raise Untranslatable(f"value {v}")


def coq_expr(n) -> str:
    k = n[0]
    if k == "col":
        return f"(ECol {'true' if n[1] else 'false'} {coq_string(n[2])})"
    if k == "lit":
        return f"(ELit {coq_val(n[1])})"
    if k == "cmp":
        return f"(ECmp {n[1]} {coq_expr(n[2])} {coq_expr(n[3])})"
    if k == "and":
        return f"(EAnd {coq_expr(n[1])} {coq_expr(n[2])})"
    if k == "or":
        return f"(EOr {coq_expr(n[1])} {coq_expr(n[2])})"
    if k == "not":
        return f"(ENot {coq_expr(n[1])})"
    if k == "isnull":
        return f"(EIsNull {coq_expr(n[1])})"
    if k == "abs":
        return f"(EAbs {coq_expr(n[1])})"
    if k == "arith":
        return f"(EArith {n[1]} {coq_expr(n[2])} {coq_expr(n[3])})"
    if k == "case":
        ws = coq_list([f"({coq_expr(c)}, {coq_expr(v)})" for c, v in n[1]], "(expr * expr)%type")
        return f"(ECase {ws} {coq_expr(n[2])})"
    if k == "fn":
        return f"(EFn {coq_string(n[1])} {coq_list([coq_expr(a) for a in n[2]], 'expr')})"
    if k == "cast":
        return f"(ECast {coq_expr(n[1])} {coq_string(n[2])})"
    if k == "paren":
        return f"(EParen {coq_expr(n[1])})"
    if k == "pairwise":
        return f"(EPairwise {'true' if n[1] else 'false'} {coq_string(n[2])} {coq_expr(n[3])} {coq_expr(n[4])})"
    raise Untranslatable(f"node {k}")


def _number(text: str):
    if re.fullmatch(r"\d+", text):
        return v_int(int(text))
    if re.fullmatch(r"\d*\.\d+|\d+\.\d*", text):
        return v_num(Fraction(text))
    raise Untranslatable(f"numeric literal {text!r}")


AGGS = {"list_min": False, "array_min": False, "list_max": True, "array_max": True}
TRANSFORMS = {"list_transform", "transform"}


def _call(node):
    """(lower-cased function name, args) of a function-call node, None otherwise"""
    if isinstance(node, E.Anonymous):
        return str(node.this).lower(), list(node.expressions)
    if isinstance(node, E.Transform):
        return "transform", [node.this, node.expression]
    return None


def _lambda(node, nparams=1):
    if isinstance(node, E.Lambda) and len(node.expressions) == nparams and all(isinstance(p, E.Identifier) for p in node.expressions):
        return [p.this for p in node.expressions], node.this
    return None


def _ident(node, name):
    if isinstance(node, E.Column) and not node.args.get("table"):
        node = node.this
    return isinstance(node, E.Identifier) and node.this == name


def match_pairwise(node):
    """agg(transform(flatten(transform(L, x -> transform(R, y -> [x, y]))), pair -> f(pair[first], pair[first+1])))
    -> (agg_is_max, transform name, f, L node, R node); None if the shape differs anywhere (fail-closed)."""
    c = _call(node)
    if not c or c[0] not in AGGS or len(c[1]) != 1:
        return None
    t1 = _call(c[1][0])
    if not t1 or t1[0] not in TRANSFORMS or len(t1[1]) != 2:
        return None
    fl = _call(t1[1][0])
    if not fl or fl[0] != "flatten" or len(fl[1]) != 1:
        return None
    t2 = _call(fl[1][0])
    if not t2 or t2[0] != t1[0] or len(t2[1]) != 2:
        return None
    left, lx = t2[1][0], _lambda(t2[1][1])
    if not lx:
        return None
    (x,), body = lx
    t3 = _call(body)
    if not t3 or t3[0] != t1[0] or len(t3[1]) != 2:
        return None
    right, ly = t3[1][0], _lambda(t3[1][1])
    if not ly:
        return None
    (y,), arr = ly
    if not (isinstance(arr, E.Array) and len(arr.expressions) == 2 and _ident(arr.expressions[0], x) and _ident(arr.expressions[1], y) and x != y):
        return None
    lp = _lambda(t1[1][1])
    if not lp:
        return None
    (pair,), fbody = lp
    fc = _call(fbody)
    if not fc or len(fc[1]) != 2:
        return None
    for k, b in enumerate(fc[1]):
        # sqlglot normalises the dialect's first array index to 0
        if not (isinstance(b, E.Bracket) and _ident(b.this, pair) and len(b.expressions) == 1 and isinstance(b.expressions[0], E.Literal)
                and not b.expressions[0].is_string and b.expressions[0].this == str(k)):
            return None
    return AGGS[c[0]], t1[0], fc[0], left, right


def _convert(node, lenient: bool, sql_of):
    def rec(x):
        return _convert(x, lenient, sql_of)

    def opaque():
        if not lenient:
            raise Untranslatable(f"{type(node).__name__}: {node.sql()[:80]}")
        h = hashlib.sha1(" ".join(node.sql().split()).lower().encode()).hexdigest()[:10]
        return fn("?" + h)

    t = type(node)
    pw = match_pairwise(node)
    if pw is not None:
        return ("pairwise", pw[0], pw[2], rec(pw[3]), rec(pw[4]))
    if t is E.Paren:
        return ("paren", rec(node.this))
    if t is E.Column:
        if not isinstance(node.this, E.Identifier):
            return opaque()
        if node.args.get("table"):
            # blocking-rule style qualification: l.<col> / r.<col>
            tb = node.args["table"].this if isinstance(node.args["table"], E.Identifier) else None
            if tb in ("l", "r") and not node.args.get("db"):
                return col(tb == "l", node.this.this)
            return opaque()
        name = node.this.this
        if name.endswith("_l"):
            return col(True, name[:-2])
        if name.endswith("_r"):
            return col(False, name[:-2])
        return opaque()
    if t is E.Literal:
        if node.is_string:
            s = node.this
            if not all(32 <= ord(c) < 127 for c in s):
                return opaque()
            return lit(v_str(s))
        return lit(_number(node.this))
    if t is E.Neg and isinstance(node.this, E.Literal) and not node.this.is_string:
        v = _number(node.this.this)
        return lit((v[0], -v[1]))
    if t is E.Null:
        return lit(v_null())
    if t is E.Boolean:
        return lit(("bool", bool(node.this)))
    if t in CMP:
        return ("cmp", CMP[t], rec(node.this), rec(node.expression))
    if t is E.And:
        return ("and", rec(node.this), rec(node.expression))
    if t is E.Or:
        return ("or", rec(node.this), rec(node.expression))
    if t is E.Not:
        return ("not", rec(node.this))
    if t is E.Is:
        if isinstance(node.expression, E.Null):
            return ("isnull", rec(node.this))
        return opaque()
    if t in ARITH:
        return ("arith", ARITH[t], rec(node.this), rec(node.expression))
    # operators outside the arithmetic of the level library (custom SQL): kept as named binary functions
    if t is E.DPipe:
        return ("fn", "||", [rec(node.this), rec(node.expression)])
    if t is E.IntDiv:
        return ("fn", "int_div", [rec(node.this), rec(node.expression)])
    if t is E.Mod:
        return ("fn", "%", [rec(node.this), rec(node.expression)])
    if t is E.Bracket and len(node.expressions) == 1 and isinstance(node.expressions[0], E.Literal) and not node.expressions[0].is_string:
        # sqlglot normalises the dialect's first index to 0
        return ("fn", "element0", [rec(node.this), lit(_number(node.expressions[0].this))])
    if t is E.Case:
        if node.args.get("this") is not None:
            return opaque()
        ws = []
        for i in node.args.get("ifs") or []:
            ws.append((rec(i.this), rec(i.args["true"])))
        d = node.args.get("default")
        return ("case", ws, rec(d) if d is not None else lit(v_null()))
    if t is E.Anonymous:
        name = str(node.this).lower()
        args = [rec(a) for a in node.expressions]
        if name == "abs" and len(args) == 1:
            return ("abs", args[0])
        return ("fn", name, args)
    if t is E.Substring and node.args.get("start") is not None and node.args.get("length") is not None:
        return ("fn", "substring", [rec(node.this), rec(node.args["start"]), rec(node.args["length"])])
    if t in (E.Cast, E.TryCast):
        to = node.args["to"]
        if to.expressions or to.args.get("nested"):
            return opaque()
        return ("cast", rec(node.this), to.this.name.lower())
    return opaque()


def sqlite_affinity(type_name: str) -> str:
    """SQLite decides the affinity of CAST(x AS <name>) from the SPELLING of the type name (sqlite.org/datatype3.html 3.1);
    sqlglot maps several spellings to one DataType, so the spelling is checked on the text"""
    n = type_name.upper()
    if "INT" in n:
        return "int"
    if "CHAR" in n or "CLOB" in n or "TEXT" in n:
        return "text"
    if "BLOB" in n:
        return "blob"
    if "REAL" in n or "FLOA" in n or "DOUB" in n:
        return "float"
    return "numeric"


def _cast_types(node):
    k = node[0]
    if k == "cast":
        return _cast_types(node[1]) + [node[2]]
    out = []
    for x in node[1:]:
        if isinstance(x, tuple) and x and isinstance(x[0], str):
            out += _cast_types(x)
        elif isinstance(x, list):
            for y in x:
                if isinstance(y, tuple) and y and isinstance(y[0], str):
                    out += _cast_types(y)
                elif isinstance(y, tuple):
                    for z in y:
                        if isinstance(z, tuple) and z and isinstance(z[0], str):
                            out += _cast_types(z)
    return out


def parse_sql(sql: str, dialect: str, lenient: bool = False):
    try:
        tree = sqlglot.parse_one(sql, dialect=_DIALECTS[dialect])
    except Exception as e:  # sqlglot ParseError / TokenError
        raise Untranslatable(f"sqlglot cannot parse: {e}") from e
    node = _convert(tree, lenient, None)
    if dialect == "sqlite":
        # the type sqlglot understood (text / int / float / date) must be the affinity SQLite derives from the spelled name
        spelled = sorted(sqlite_affinity(m) for m in re.findall(r"(?is)\bAS\s+([A-Za-z_][A-Za-z_0-9 ]*?)\s*\)", sql))
        meant = sorted({"date": "numeric", "double": "float", "real": "float", "integer": "int", "bigint": "int", "varchar": "text"}.get(t, t)
                       for t in _cast_types(node))
        if spelled != meant:
            raise Untranslatable(f"SQLite type affinity: CAST types spelled {spelled} but meant {meant} in: {' '.join(sql.split())[:120]}")
    return node


# ------------------------------------------------------------------------------------------
# independent table: which engine function implements the documented metric in each dialect
# (used only to build the *expected* generator term; C06's dialect table is extracted from the code)
# ------------------------------------------------------------------------------------------
FN = {
    "duckdb": {"levenshtein": "levenshtein", "damerau_levenshtein": "damerau_levenshtein", "jaro": "jaro_similarity",
               "jaro_winkler": "jaro_winkler_similarity", "jaccard": "jaccard", "cosine": "array_cosine_similarity",
               "arr_len": "array_length", "arr_int_level": "list_intersect", "arr_int_subset": "array_intersect",
               "epoch": "epoch", "parse_date": "try_strptime", "parse_ts": "try_strptime",
               "date_fmt": "%Y-%m-%d", "ts_fmt": "%Y-%m-%dT%H:%M:%SZ", "float": "float", "text": "text"},
    "sqlite": {"levenshtein": "levenshtein", "damerau_levenshtein": "damerau_levenshtein", "jaro": "jaro_sim",
               "jaro_winkler": "jaro_winkler", "float": "float", "text": "text"},
    "spark": {"levenshtein": "levenshtein", "damerau_levenshtein": "damerau_levenshtein", "jaro": "jaro_sim",
              "jaro_winkler": "jaro_winkler", "jaccard": "jaccard",
              "arr_len": "size", "arr_int_level": "array_intersect", "arr_int_subset": "array_intersect",
              "epoch": "unix_timestamp", "parse_date": "to_date", "parse_ts": "to_timestamp",
              "date_fmt": "yyyy-MM-dd", "ts_fmt": "yyyy-MM-dd'T'HH:mm:ssXXX", "float": "float", "text": "text"},
}
HIGHER = {"levenshtein": False, "damerau_levenshtein": False, "jaro": True, "jaro_winkler": True, "jaccard": True, "cosine": True}
METRIC = {"second": "MSecond", "minute": "MMinute", "hour": "MHour", "day": "MDay", "month": "MMonth", "year": "MYear"}
FACTOR = {"second": Fraction(1), "minute": Fraction(60), "hour": Fraction(3600), "day": Fraction(86400),
          "month": Fraction(86400) * Fraction(36525, 100) / 12, "year": Fraction(86400) * Fraction(36525, 100)}


class Unsupported(Exception):
    """the documented metric does not exist in that dialect (creator is expected to raise)"""


def fname(d, role):
    try:
        return FN[d][role]
    except KeyError:
        raise Unsupported(f"{role} on {d}") from None


# column expressions: plain column, or documented transforms rendered per dialect
@dataclass
class ColSpec:
    name: str
    ops: tuple = ()          # e.g. (("lower",), ("substr", 1, 3), ("regex", pat, grp), ("cast_str",), ("nullif", x), ("date", fmt), ("ts", fmt))

    def splink(self):
        from splink.internals.column_expression import ColumnExpression
        if not self.ops:
            return self.name
        c = ColumnExpression(self.name)
        for op in self.ops:
            if op[0] == "lower":
                c = c.lower()
            elif op[0] == "substr":
                c = c.substr(op[1], op[2])
            elif op[0] == "regex":
                c = c.regex_extract(op[1], op[2])
            elif op[0] == "cast_str":
                c = c.cast_to_string()
            elif op[0] == "nullif":
                c = c.nullif(op[1])
            elif op[0] == "date":
                c = c.try_parse_date(op[1])
            elif op[0] == "ts":
                c = c.try_parse_timestamp(op[1])
            else:
                raise ValueError(op)
        return c

    def tree(self, side: bool, d: str):
        t = col(side, self.name)
        for op in self.ops:
            if op[0] == "lower":
                t = fn("lower", t)
            elif op[0] == "substr":
                t = fn("substring", t, lit(v_int(op[1])), lit(v_int(op[2])))
            elif op[0] == "regex":
                if d == "sqlite":
                    raise Unsupported("regex on sqlite")
                t = fn("nullif", fn("regexp_extract", t, lit(v_str(op[1])), lit(v_int(op[2]))), lit(v_str("")))
            elif op[0] == "cast_str":
                t = ("cast", t, "text")
            elif op[0] == "nullif":
                t = fn("nullif", t, lit(v_str(op[1])))
            elif op[0] == "date":
                t = fn(fname(d, "parse_date"), t, lit(v_str(op[1] or fname(d, "date_fmt"))))
            elif op[0] == "ts":
                t = fn(fname(d, "parse_ts"), t, lit(v_str(op[1] or fname(d, "ts_fmt"))))
        return t

    def label(self):
        return self.name + "".join("." + "_".join(str(x) for x in op) for op in self.ops)


def C(name, *ops):
    return ColSpec(name, tuple(ops))


def lr(c: ColSpec, d):
    return coq_expr(c.tree(True, d)), coq_expr(c.tree(False, d))


# ------------------------------------------------------------------------------------------
# the level grid
# ------------------------------------------------------------------------------------------
@dataclass
class LevelInst:
    family: str
    key: str
    make: Callable[[], object]            # () -> ComparisonLevelCreator
    gen: Callable[[str], str | None]      # dialect -> Coq term `gen_X args` (None: not modelled)
    kind: str                             # value table / oracle used by X
    meta: dict = field(default_factory=dict)
    cols: tuple = ()                      # ColSpecs involved (for X)


def level_grid(tier: str) -> list[LevelInst]:
    import splink.comparison_level_library as cll
    out: list[LevelInst] = []
    name, amount = C("name"), C("amount")
    name_variants = [name, C("name", ("lower",)), C("name", ("substr", 1, 3)), C("name", ("lower",), ("substr", 2, 2))]
    if tier != "quick":
        name_variants += [C("name", ("nullif", "x")), C("first name")]

    def add(family, key, make, gen, kind, cols, **meta):
        out.append(LevelInst(family, f"{family}:{key}", make, gen, kind, meta, tuple(cols)))

    # NullLevel (plain and with validity pattern)
    for c in name_variants + [amount]:
        add("NullLevel", c.label(), lambda c=c: cll.NullLevel(c.splink()),
            lambda d, c=c: "gen_null %s %s" % lr(c, d), "null", [c])
    for pat in ["^[A-Z]{1,2}[0-9]$", "^[a-z]+"]:
        cp = C("name", ("regex", pat, 0))
        add("NullLevel", "pattern:" + pat, lambda pat=pat: cll.NullLevel("name", valid_string_pattern=pat),
            lambda d, cp=cp: "gen_null %s %s" % lr(cp, d), "null_pattern", [name], pattern=pat)
    # ColumnExpression.cast_to_string on a TEXT column holding zero-padded / non-numeric codes (a CAST whose type name has
    # NUMERIC affinity on SQLite would turn '00123' into 123 and 'AB12' into 0)
    code = C("code", ("cast_str",))
    add("NullLevel", code.label(), lambda: cll.NullLevel(code.splink()), lambda d: "gen_null %s %s" % lr(code, d), "null", [code])
    add("ExactMatchLevel", code.label(), lambda: cll.ExactMatchLevel(code.splink()), lambda d: "gen_exact %s %s" % lr(code, d), "exact", [code])
    add("LevenshteinLevel", code.label() + ":1", lambda: cll.LevenshteinLevel(code.splink(), 1),
        lambda d: "gen_fn_thresh %s false %s %s (VInt 1)" % ((coq_string(fname(d, "levenshtein")),) + lr(code, d)), "metric", [code],
        role="levenshtein", threshold=1, higher=False)
    code2 = C("code", ("cast_str",), ("lower",), ("substr", 1, 4))
    add("ExactMatchLevel", code2.label(), lambda: cll.ExactMatchLevel(code2.splink()), lambda d: "gen_exact %s %s" % lr(code2, d), "exact", [code2])
    # ExactMatchLevel
    for c in name_variants + [amount]:
        add("ExactMatchLevel", c.label(), lambda c=c: cll.ExactMatchLevel(c.splink()),
            lambda d, c=c: "gen_exact %s %s" % lr(c, d), "exact", [c])
    # LiteralMatchLevel
    for val, ty, side in [("male", "string", "both"), ("male", "string", "left"), ("smith", "string", "right"),
                          ("3", "int", "left"), ("3", "int", "both"), ("2.5", "float", "both"), ("2.5", "float", "right"),
                          ("2000-01-31", "date", "both")]:
        cc = name if ty in ("string",) else (C("dob") if ty == "date" else amount)

        def gen(d, val=val, ty=ty, side=side, cc=cc):
            if ty == "string":
                l = lit(v_str(val))
            elif ty == "int":
                l = ("cast", lit(v_int(int(val))), "int")
            elif ty == "float":
                l = ("cast", lit(v_num(Fraction(val))), "float")
            else:
                l = fn("date", lit(v_str(val))) if d == "sqlite" else ("cast", lit(v_str(val)), "date")
            s = {"left": "SLeft", "right": "SRight", "both": "SBoth"}[side]
            a, b = lr(cc, d)
            return f"gen_literal {s} {a} {b} {coq_expr(l)}"
        add("LiteralMatchLevel", f"{val}:{ty}:{side}", lambda val=val, ty=ty, side=side, cc=cc: cll.LiteralMatchLevel(cc.name, val, ty, side),
            gen, "literal", [cc], value=val, type=ty, side=side)
    # ColumnsReversedLevel
    fnc, snc = C("fn"), C("sn")
    for sym in (False, True):
        def gen(d, sym=sym):
            a1, b1 = lr(fnc, d)
            a2, b2 = lr(snc, d)
            return f"gen_reversed {'true' if sym else 'false'} {a1} {b1} {a2} {b2}"
        add("ColumnsReversedLevel", f"sym={sym}", lambda sym=sym: cll.ColumnsReversedLevel("fn", "sn", symmetrical=sym), gen,
            "reversed", [fnc, snc], symmetrical=sym)
    # string-metric threshold levels
    int_thr = [0, 1, 2, 3] if tier == "quick" else [0, 1, 2, 3, 5, 2.0]
    sim_thr = [0.7, 0.88, 0.9, 1, 0.5] if tier == "quick" else [0, 0.5, 0.7, 0.75, 0.88, 0.9, 0.92, 1, 1.0]
    fam = [("LevenshteinLevel", "levenshtein", int_thr), ("DamerauLevenshteinLevel", "damerau_levenshtein", int_thr),
           ("JaroLevel", "jaro", sim_thr), ("JaroWinklerLevel", "jaro_winkler", sim_thr), ("JaccardLevel", "jaccard", sim_thr)]
    for family, role, thrs in fam:
        cls = getattr(cll, family)
        for t in thrs:
            for c in ([name, C("name", ("lower",))] if t == thrs[1] else [name]):
                def gen(d, role=role, t=t, c=c):
                    a, b = lr(c, d)
                    return f"gen_fn_thresh {coq_string(fname(d, role))} {'true' if HIGHER[role] else 'false'} {a} {b} {coq_val(py_number_val(t))}"
                add(family, f"{c.label()}:{t!r}", lambda cls=cls, c=c, t=t: cls(c.splink(), t), gen, "metric", [c],
                    role=role, threshold=t, higher=HIGHER[role])
    # DistanceFunctionLevel (user-named function: the name is the specification)
    for f, t, hi in [("levenshtein", 2, False), ("hamming", 1, False), ("jaro_winkler_similarity", 0.9, True), ("jaro_winkler", 0.9, True),
                     ("damerau_levenshtein", 1, True)]:
        def gen(d, f=f, t=t, hi=hi):
            a, b = lr(name, d)
            return f"gen_fn_thresh {coq_string(f)} {'true' if hi else 'false'} {a} {b} {coq_val(py_number_val(t))}"
        add("DistanceFunctionLevel", f"{f}:{t}:{hi}", lambda f=f, t=t, hi=hi: cll.DistanceFunctionLevel("name", f, t, hi), gen,
            "distance_function", [name], function=f, threshold=t, higher=hi)
    # CosineSimilarityLevel
    for t in [0.5, 0.9]:
        def gen(d, t=t):
            a, b = lr(C("emb"), d)
            return f"gen_fn_thresh {coq_string(fname(d, 'cosine'))} true {a} {b} {coq_val(py_number_val(t))}"
        add("CosineSimilarityLevel", repr(t), lambda t=t: cll.CosineSimilarityLevel("emb", t), gen, "cosine", [C("emb")], threshold=t)
    # AbsoluteDifferenceLevel / PercentageDifferenceLevel
    for t in [0, 5, 0.5, 2.25]:
        def gen(d, t=t):
            a, b = lr(amount, d)
            return f"gen_absdiff {a} {b} {coq_val(py_number_val(t))}"
        add("AbsoluteDifferenceLevel", repr(t), lambda t=t: cll.AbsoluteDifferenceLevel("amount", t), gen, "absdiff", [amount], threshold=t)
    for t in [0.1, 0.25, 0.5, 0, 1]:
        def gen(d, t=t):
            a, b = lr(amount, d)
            return f"gen_pctdiff {a} {b} {coq_val(py_number_val(t))}"
        add("PercentageDifferenceLevel", repr(t), lambda t=t: cll.PercentageDifferenceLevel("amount", t), gen, "pctdiff", [amount], threshold=t)
    # AbsoluteTimeDifferenceLevel / AbsoluteDateDifferenceLevel
    tcases = [(1, "month"), (1, "year"), (10, "year"), (2, "hour"), (30, "day"), (90, "second"), (0.5, "day"), (1.5, "minute"), (0, "day")]
    for family, is_date in [("AbsoluteDateDifferenceLevel", True), ("AbsoluteTimeDifferenceLevel", False)]:
        cls = getattr(cll, family)
        for thr, metric in tcases:
            for is_str, fmt in [(True, None), (False, None)] + ([(True, "%d/%m/%Y")] if (thr, metric) == (1, "month") else []):
                cname = "dob" if is_str else "ts"
                cs = C(cname, ("date" if is_date else "ts", fmt)) if is_str else C(cname)

                def gen(d, cs=cs, thr=thr, metric=metric):
                    exact = Fraction(repr(thr)) * FACTOR[metric]
                    shown = thr * {"second": 1, "minute": 60, "hour": 3600, "day": 86400, "month": 86400 * 365.25 / 12, "year": 86400 * 365.25}[metric]
                    if Fraction(repr(shown)) != exact:
                        raise Untranslatable("float product not exact")
                    a, b = lr(cs, d)
                    return f"gen_timediff {coq_string(fname(d, 'epoch'))} {a} {b} {coq_val(py_number_val(thr))} {METRIC[metric]}"
                add(family, f"{thr}:{metric}:{'str' if is_str else 'native'}:{fmt}",
                    lambda cls=cls, cname=cname, is_str=is_str, thr=thr, metric=metric, fmt=fmt:
                        cls(cname, input_is_string=is_str, threshold=thr, metric=metric, datetime_format=fmt),
                    gen, "timediff", [C(cname)], threshold=thr, metric=metric, is_string=is_str, is_date=is_date, fmt=fmt)
    # DistanceInKMLevel
    lat, lng = C("lat"), C("lng")
    for t, nn in [(1, False), (10.5, False), (100, True), (20016, False), (0, False)]:
        def gen(d, t=t, nn=nn):
            la, lb = lr(lat, d)
            ga, gb = lr(lng, d)
            return f"gen_km {coq_string(fname(d, 'float'))} {'true' if nn else 'false'} {la} {lb} {ga} {gb} {coq_val(py_number_val(t))}"
        add("DistanceInKMLevel", f"{t}:{nn}", lambda t=t, nn=nn: cll.DistanceInKMLevel("lat", "lng", t, not_null=nn), gen, "km", [lat, lng],
            threshold=t, not_null=nn)
    # array levels
    arr = C("arr")
    for n in [0, 1, 2, 3]:
        def gen(d, n=n):
            a, b = lr(arr, d)
            return f"gen_arr_intersect {coq_string(fname(d, 'arr_len'))} {coq_string(fname(d, 'arr_int_level'))} {a} {b} {coq_val(v_int(n))}"
        add("ArrayIntersectLevel", str(n), lambda n=n: cll.ArrayIntersectLevel("arr", n), gen, "arr_intersect", [arr], threshold=n)
    for emp in (False, True):
        def gen(d, emp=emp):
            a, b = lr(arr, d)
            return f"gen_arr_subset {coq_string(fname(d, 'arr_len'))} {coq_string(fname(d, 'arr_int_subset'))} {'true' if emp else 'false'} {a} {b}"
        add("ArraySubsetLevel", str(emp), lambda emp=emp: cll.ArraySubsetLevel("arr", emp), gen, "arr_subset", [arr], empty_is_subset=emp)
    # PairwiseStringDistanceFunctionLevel (lambdas: outside the fragment, X only)
    for f, t in [("levenshtein", 1), ("damerau_levenshtein", 2), ("jaro_winkler", 0.9), ("jaro", 0.8)]:
        def gen(d, f=f, t=t):
            if d == "sqlite":
                raise Unsupported("pairwise on sqlite")
            a, b = lr(arr, d)
            return f"gen_pairwise {coq_string(fname(d, f))} {'true' if HIGHER[f] else 'false'} {a} {b} {coq_val(py_number_val(t))}"
        add("PairwiseStringDistanceFunctionLevel", f"{f}:{t}", lambda f=f, t=t: cll.PairwiseStringDistanceFunctionLevel("arr", f, t),
            gen, "pairwise", [arr], function=f, threshold=t, higher=HIGHER[f])
    # And / Or / Not
    comps = {
        "and2": (lambda: cll.And(cll.ExactMatchLevel("fn"), cll.LevenshteinLevel("sn", 1)),
                 lambda d: "gen_and [gen_exact %s %s; gen_fn_thresh %s false %s %s (VInt 1)]" % (*lr(fnc, d), coq_string(fname(d, "levenshtein")), *lr(snc, d)),
                 ("and", [("exact", "fn"), ("lev", "sn", 1)])),
        "and3": (lambda: cll.And(cll.ExactMatchLevel("fn"), cll.ExactMatchLevel("sn"), cll.NullLevel("name")),
                 lambda d: "gen_and [gen_exact %s %s; gen_exact %s %s; gen_null %s %s]" % (*lr(fnc, d), *lr(snc, d), *lr(name, d)),
                 ("and", [("exact", "fn"), ("exact", "sn"), ("null", "name")])),
        "or2": (lambda: cll.Or(cll.NullLevel("fn"), cll.NullLevel("sn")),
                lambda d: "gen_or [gen_null %s %s; gen_null %s %s]" % (*lr(fnc, d), *lr(snc, d)),
                ("or", [("null", "fn"), ("null", "sn")])),
        "or3": (lambda: cll.Or(cll.ExactMatchLevel("fn"), cll.ExactMatchLevel("sn"), cll.ExactMatchLevel("name")),
                lambda d: "gen_or [gen_exact %s %s; gen_exact %s %s; gen_exact %s %s]" % (*lr(fnc, d), *lr(snc, d), *lr(name, d)),
                ("or", [("exact", "fn"), ("exact", "sn"), ("exact", "name")])),
        "not": (lambda: cll.Not(cll.ExactMatchLevel("fn")),
                lambda d: "gen_not (gen_exact %s %s)" % lr(fnc, d), ("not", ("exact", "fn"))),
        "not_null": (lambda: cll.Not(cll.NullLevel("fn")),
                     lambda d: "gen_not (gen_null %s %s)" % lr(fnc, d), ("not", ("null", "fn"))),
        "nested": (lambda: cll.And(cll.ExactMatchLevel("name"), cll.Or(cll.NullLevel("fn"), cll.Not(cll.ExactMatchLevel("sn")))),
                   lambda d: "gen_and [gen_exact %s %s; gen_or [gen_null %s %s; gen_not (gen_exact %s %s)]]" % (*lr(name, d), *lr(fnc, d), *lr(snc, d)),
                   ("and", [("exact", "name"), ("or", [("null", "fn"), ("not", ("exact", "sn"))])])),
    }
    for k, (mk, gen, shape) in comps.items():
        add({"and": "And", "or": "Or", "not": "Not"}[shape[0]], k, mk, gen, "compose", [fnc, snc, name], shape=shape)
    return out


def current_sql(inst: LevelInst, d: str) -> str:
    return inst.make().get_comparison_level(d).sql_condition


# ------------------------------------------------------------------------------------------
# comparison creators -> level lists
# ------------------------------------------------------------------------------------------
@dataclass
class CompInst:
    name: str
    key: str
    make: Callable[[], object]
    cols: dict        # column name -> kind ("str", "num", "date", "ts", "arr", "emb", "lat", "lng")
    meta: dict = field(default_factory=dict)


# documented patterns (UK postcode format: area, district, sector, full; e-mail user name)
PC_VALID = "^[A-Za-z]{1,2}[0-9][A-Za-z0-9]? [0-9][A-Za-z]{2}$"
PC_SECTOR = "^[A-Za-z]{1,2}[0-9][A-Za-z0-9]? [0-9]"
PC_DISTRICT = "^[A-Za-z]{1,2}[0-9][A-Za-z0-9]?"
PC_AREA = "^[A-Za-z]{1,2}"
EMAIL_USER = "^[^@]+"


class Gen:
    """Coq generator terms of the DOCUMENTED levels of a comparison in dialect d.  Entries are
    (is_null_level, term or None for ELSE, evaluable_in_coq)."""

    def __init__(self, d):
        self.d = d

    def null(self, c):
        return (True, "gen_null %s %s" % lr(c, self.d), True)

    def exact(self, c):
        return (False, "gen_exact %s %s" % lr(c, self.d), True)

    def th(self, role, t, c, ev=True):
        a, b = lr(c, self.d)
        return (False, f"gen_fn_thresh {coq_string(fname(self.d, role))} {'true' if HIGHER[role] else 'false'} {a} {b} {coq_val(py_number_val(t))}", ev)

    def fnth(self, f, t, hi, c):
        a, b = lr(c, self.d)
        return (False, f"gen_fn_thresh {coq_string(f)} {'true' if hi else 'false'} {a} {b} {coq_val(py_number_val(t))}", True)

    def pw(self, role, t, c):
        a, b = lr(c, self.d)
        return (False, f"gen_pairwise {coq_string(fname(self.d, role))} {'true' if HIGHER[role] else 'false'} {a} {b} {coq_val(py_number_val(t))}", True)

    def arrint(self, n, c):
        a, b = lr(c, self.d)
        return (False, f"gen_arr_intersect {coq_string(fname(self.d, 'arr_len'))} {coq_string(fname(self.d, 'arr_int_level'))} {a} {b} {coq_val(v_int(n))}", True)

    def td(self, c, thr, metric):
        a, b = lr(c, self.d)
        return (False, f"gen_timediff {coq_string(fname(self.d, 'epoch'))} {a} {b} {coq_val(py_number_val(thr))} {METRIC[metric]}", True)

    def km(self, t):
        la, lb = lr(C("lat"), self.d)
        ga, gb = lr(C("lng"), self.d)
        return (False, f"gen_km {coq_string(fname(self.d, 'float'))} false {la} {lb} {ga} {gb} {coq_val(py_number_val(t))}", False)

    def merge(self, op, entries, null=False):
        return (null, f"gen_{op} {coq_list([e[1] for e in entries], 'expr')}", all(e[2] for e in entries))

    def rev(self, c1, c2, sym):
        a1, b1 = lr(c1, self.d)
        a2, b2 = lr(c2, self.d)
        return (False, f"gen_reversed {'true' if sym else 'false'} {a1} {b1} {a2} {b2}", True)

    ELSE = (False, None, True)


def _lst(x):
    return list(x) if isinstance(x, (list, tuple)) else [x]


def comparison_grid(tier: str) -> list[CompInst]:
    """every comparison creator x option combinations, with the DOCUMENTED level list (`expected`) built from the
    constructor arguments and the documented defaults - independently of create_comparison_levels"""
    import splink.comparison_level_library as cll
    import splink.comparison_library as cl
    out = []

    def add(name, key, make, cols, expected, ocols=(), **meta):
        meta = dict(meta, expected=expected, ocols=list(ocols))
        out.append(CompInst(name, f"{name}:{key}", make, cols, meta))

    name, arr, emb, dob, ts, pc, email, fnc, snc = C("name"), C("arr"), C("emb"), C("dob"), C("ts"), C("pc"), C("email"), C("fn"), C("sn")
    add("ExactMatch", "name", lambda: cl.ExactMatch("name"), {"name": "str"},
        lambda d: [Gen(d).null(name), Gen(d).exact(name), Gen.ELSE])
    for cls, role, lists, dflt in [("LevenshteinAtThresholds", "levenshtein", [None, [1], [1, 2, 3], 2], [1, 2]),
                                   ("DamerauLevenshteinAtThresholds", "damerau_levenshtein", [None, [1, 3], 1], [1, 2]),
                                   ("JaccardAtThresholds", "jaccard", [None, [0.95, 0.8, 0.5], 0.9], [0.9, 0.7]),
                                   ("JaroAtThresholds", "jaro", [None, [0.95, 0.8, 0.5], 0.9], [0.9, 0.7]),
                                   ("JaroWinklerAtThresholds", "jaro_winkler", [None, [0.95, 0.8, 0.5], 0.9], [0.9, 0.7])]:
        for th in lists:
            add(cls, str(th), lambda cls=cls, th=th: getattr(cl, cls)("name") if th is None else getattr(cl, cls)("name", th), {"name": "str"},
                lambda d, role=role, th=th, dflt=dflt: [Gen(d).null(name), Gen(d).exact(name)] + [Gen(d).th(role, t, name) for t in _lst(dflt if th is None else th)] + [Gen.ELSE])
    add("DistanceFunctionAtThresholds", "lev", lambda: cl.DistanceFunctionAtThresholds("name", "levenshtein", [1, 2], False), {"name": "str"},
        lambda d: [Gen(d).null(name), Gen(d).exact(name), Gen(d).fnth("levenshtein", 1, False, name), Gen(d).fnth("levenshtein", 2, False, name), Gen.ELSE])
    add("DistanceFunctionAtThresholds", "jw", lambda: cl.DistanceFunctionAtThresholds("name", "jaro_winkler_similarity", [0.9, 0.7], True), {"name": "str"},
        lambda d: [Gen(d).null(name), Gen(d).exact(name), Gen(d).fnth("jaro_winkler_similarity", 0.9, True, name), Gen(d).fnth("jaro_winkler_similarity", 0.7, True, name), Gen.ELSE],
        engines=["duckdb"])
    for key, role, ths in [("lev", "levenshtein", [1, 2]), ("jw", "jaro_winkler", [0.9, 0.8])]:
        add("PairwiseStringDistanceFunctionAtThresholds", key, lambda role=role, ths=ths: cl.PairwiseStringDistanceFunctionAtThresholds("arr", role, ths), {"arr": "arr"},
            lambda d, role=role, ths=ths: [Gen(d).null(arr), Gen(d).arrint(1, arr)] + [Gen(d).pw(role, t, arr) for t in ths] + [Gen.ELSE])
    # AbsoluteTime/DateDifferenceAtThresholds: input_is_string x invalid_dates_as_null x datetime_format
    for cls, is_date in [("AbsoluteTimeDifferenceAtThresholds", False), ("AbsoluteDateDifferenceAtThresholds", True)]:
        op = "date" if is_date else "ts"
        kind = "date" if is_date else "tsstr"
        for key, is_str, inv, fmt, metrics, thrs in [("str", True, True, None, ["day", "month", "year"], [1, 1, 1]),
                                                      ("str_keepinvalid", True, False, None, ["year"], [1]),
                                                      ("native", False, True, None, ["hour", "day"], [2, 2]),
                                                      ("native_keepinvalid", False, False, None, ["day"], [3])] + \
                ([("str_dmy", True, True, "%d/%m/%Y", ["month", "year"], [1, 1]), ("str_dmy_keepinvalid", True, False, "%d/%m/%Y", ["month"], [1])] if is_date else []):
            cname = "dob" if is_str else "ts"
            raw = C(cname)
            parsed = C(cname, (op, fmt)) if is_str else raw

            def expected(d, raw=raw, parsed=parsed, is_str=is_str, inv=inv, metrics=metrics, thrs=thrs):
                g = Gen(d)
                return [g.null(parsed if (is_str and inv) else raw), g.exact(raw)] + [g.td(parsed, t, m) for t, m in zip(thrs, metrics)] + [Gen.ELSE]
            add(cls, key, lambda cls=cls, cname=cname, is_str=is_str, inv=inv, fmt=fmt, metrics=metrics, thrs=thrs:
                getattr(cl, cls)(cname, input_is_string=is_str, metrics=metrics, thresholds=thrs, datetime_format=fmt, invalid_dates_as_null=inv),
                {cname: ("date_dmy" if fmt else kind) if is_str else "ts"}, expected, ocols=[parsed] if is_str else [])
    add("ArrayIntersectAtSizes", "default", lambda: cl.ArrayIntersectAtSizes("arr"), {"arr": "arr"},
        lambda d: [Gen(d).null(arr), Gen(d).arrint(1, arr), Gen.ELSE])
    add("ArrayIntersectAtSizes", "[3, 2, 1]", lambda: cl.ArrayIntersectAtSizes("arr", [3, 2, 1]), {"arr": "arr"},
        lambda d: [Gen(d).null(arr)] + [Gen(d).arrint(n, arr) for n in (3, 2, 1)] + [Gen.ELSE])
    for key, ths in [("[1, 10, 100]", [1, 10, 100]), ("5", 5)]:
        add("DistanceInKMAtThresholds", key, lambda ths=ths: cl.DistanceInKMAtThresholds("lat", "lng", ths), {"lat": "lat", "lng": "lng"},
            lambda d, ths=ths: [Gen(d).merge("or", [Gen(d).null(C("lat")), Gen(d).null(C("lng"))], null=True)] + [Gen(d).km(t) for t in _lst(ths)] + [Gen.ELSE])
    for key, ths in [("default", None), ("[0.9, 0.5]", [0.9, 0.5])]:
        add("CosineSimilarityAtThresholds", key, lambda ths=ths: cl.CosineSimilarityAtThresholds("emb") if ths is None else cl.CosineSimilarityAtThresholds("emb", ths), {"emb": "emb"},
            lambda d, ths=ths: [Gen(d).null(emb)] + [Gen(d).th("cosine", t, emb, ev=False) for t in (ths or [0.9, 0.8, 0.7])] + [Gen.ELSE])
    # DateOfBirthComparison: input_is_string x invalid_dates_as_null x datetime_format (documented: the format is the one
    # "used to cast strings to dates", so every date level parses with it)
    for key, is_str, inv, fmt, thrs, metrics in [("str", True, True, None, None, None), ("str_keepinvalid", True, False, None, None, None),
                                                  ("native", False, True, None, None, None), ("native_keepinvalid", False, False, None, None, None),
                                                  ("custom", True, False, None, [1, 6, 2], ["day", "month", "year"]),
                                                  ("str_dmy", True, True, "%d/%m/%Y", None, None), ("str_dmy_keepinvalid", True, False, "%d/%m/%Y", [1], ["month"])]:
        cname = "dob" if is_str else "ts"
        raw = C(cname)
        parsed = C(cname, ("date", fmt)) if is_str else raw
        kw = dict(input_is_string=is_str, invalid_dates_as_null=inv)
        if fmt:
            kw["datetime_format"] = fmt
        if thrs:
            kw.update(datetime_thresholds=thrs, datetime_metrics=metrics)

        def expected(d, raw=raw, parsed=parsed, is_str=is_str, inv=inv, thrs=thrs, metrics=metrics):
            g = Gen(d)
            dlc = raw if is_str else C(raw.name, ("cast_str",))
            return [g.null(parsed if (is_str and inv) else raw), g.exact(raw), g.th("damerau_levenshtein", 1, dlc, ev=is_str)] + \
                   [g.td(parsed, t, m) for t, m in zip(thrs or [1, 1, 10], metrics or ["month", "year", "year"])] + [Gen.ELSE]
        add("DateOfBirthComparison", key, lambda cname=cname, kw=kw: cl.DateOfBirthComparison(cname, **kw),
            {cname: ("date_dmy" if fmt else "date") if is_str else "ts"}, expected, ocols=[parsed] if is_str else [],
            tags={"custom_datetime_format": bool(fmt), "invalid_as_null": inv})
    # PostcodeComparison: invalid_postcodes_as_null x (lat/long supplied or not)
    sector, district, area = C("pc", ("regex", PC_SECTOR, 0)), C("pc", ("regex", PC_DISTRICT, 0)), C("pc", ("regex", PC_AREA, 0))
    valid = C("pc", ("regex", PC_VALID, 0))
    for inv in (False, True):
        for with_km, kms in [(False, None), (True, None), (True, [2, 50])]:
            def expected(d, inv=inv, with_km=with_km, kms=kms):
                g = Gen(d)
                first = g.null(valid if inv else pc)
                if with_km:
                    return [first, g.exact(pc), g.exact(sector)] + [g.km(t) for t in (kms or [1, 10, 100])] + [Gen.ELSE]
                return [first, g.exact(pc), g.exact(sector), g.exact(district), g.exact(area), Gen.ELSE]
            kw = dict(invalid_postcodes_as_null=inv)
            if with_km:
                kw.update(lat_col="lat", long_col="lng")
            if kms:
                kw["km_thresholds"] = kms
            add("PostcodeComparison", f"invalid_as_null={inv},km={with_km},{kms}", lambda kw=kw: cl.PostcodeComparison("pc", **kw),
                dict({"pc": "postcode"}, **({"lat": "lat", "lng": "lng"} if with_km else {})), expected, ocols=[sector, district, area, valid],
                tags={"invalid_as_null": inv, "lat_long_supplied": with_km})
    user = C("email", ("regex", EMAIL_USER, 0))
    add("EmailComparison", "email", lambda: cl.EmailComparison("email"), {"email": "email"},
        lambda d: [Gen(d).null(email), Gen(d).exact(email), Gen(d).exact(user), Gen(d).th("jaro_winkler", 0.88, email), Gen(d).th("jaro_winkler", 0.88, user), Gen.ELSE],
        ocols=[user])
    for key, ths, dm in [("default", None, False), ("dmeta", None, True), ("[0.95, 0.9, 0.8, 0.6]", [0.95, 0.9, 0.8, 0.6], False), ("0.9", 0.9, True)]:
        def expected(d, ths=ths, dm=dm):
            g = Gen(d)
            tl = _lst(ths if ths is not None else [0.92, 0.88, 0.7])
            return [g.null(name), g.exact(name)] + [g.th("jaro_winkler", t, name) for t in tl if t >= 0.88] + ([g.arrint(1, arr)] if dm else []) + \
                   [g.th("jaro_winkler", t, name) for t in tl if t < 0.88] + [Gen.ELSE]
        kw = {}
        if ths is not None:
            kw["jaro_winkler_thresholds"] = ths
        if dm:
            kw["dmeta_col_name"] = "arr"
        add("NameComparison", key, lambda kw=kw: cl.NameComparison("name", **kw), dict({"name": "str"}, **({"arr": "arr"} if dm else {})), expected)
    for key, ths, concat in [("default", None, False), ("concat", None, True), ("[0.95, 0.9, 0.8]", [0.95, 0.9, 0.8], False)]:
        def expected(d, ths=ths, concat=concat):
            g = Gen(d)
            first = g.merge("and", [g.null(fnc), g.null(snc)], null=True)
            second = g.exact(name) if concat else g.merge("and", [g.exact(fnc), g.exact(snc)])
            return [first, second, g.rev(fnc, snc, True)] + \
                   [g.merge("and", [g.th("jaro_winkler", t, fnc), g.th("jaro_winkler", t, snc)]) for t in (ths or [0.92, 0.88])] + \
                   [g.exact(snc), g.exact(fnc), Gen.ELSE]
        kw = {}
        if ths:
            kw["jaro_winkler_thresholds"] = ths
        if concat:
            kw["forename_surname_concat_col_name"] = "name"
        add("ForenameSurnameComparison", key, lambda kw=kw: cl.ForenameSurnameComparison("fn", "sn", **kw),
            dict({"fn": "str", "sn": "str"}, **({"name": "str"} if concat else {})), expected)
    # ---- comparison creators built from a ColumnExpression (not a plain column name): every level of the comparison must carry
    # the SAME transformed expression (documented level list built from the same ColSpec)
    tvars = [C("name", ("lower",)), C("name", ("lower",), ("substr", 1, 4))]
    for cs in tvars:
        lab = "CE:" + cs.label()
        add("ExactMatch", lab, lambda cs=cs: cl.ExactMatch(cs.splink()), {"name": "str"},
            lambda d, cs=cs: [Gen(d).null(cs), Gen(d).exact(cs), Gen.ELSE])
        for cls, role, ths in [("LevenshteinAtThresholds", "levenshtein", [1, 2]), ("DamerauLevenshteinAtThresholds", "damerau_levenshtein", [1]),
                               ("JaccardAtThresholds", "jaccard", [0.9, 0.7]), ("JaroAtThresholds", "jaro", [0.9, 0.7]),
                               ("JaroWinklerAtThresholds", "jaro_winkler", [0.9, 0.7])]:
            add(cls, lab, lambda cls=cls, cs=cs, ths=ths: getattr(cl, cls)(cs.splink(), ths), {"name": "str"},
                lambda d, role=role, ths=ths, cs=cs: [Gen(d).null(cs), Gen(d).exact(cs)] + [Gen(d).th(role, t, cs) for t in ths] + [Gen.ELSE])
        add("DistanceFunctionAtThresholds", lab, lambda cs=cs: cl.DistanceFunctionAtThresholds(cs.splink(), "levenshtein", [1, 3], False), {"name": "str"},
            lambda d, cs=cs: [Gen(d).null(cs), Gen(d).exact(cs), Gen(d).fnth("levenshtein", 1, False, cs), Gen(d).fnth("levenshtein", 3, False, cs), Gen.ELSE])
        for ths, dm in [(None, False), ([0.95, 0.8], True)]:
            def expected(d, ths=ths, dm=dm, cs=cs):
                g = Gen(d)
                tl = _lst(ths if ths is not None else [0.92, 0.88, 0.7])
                return [g.null(cs), g.exact(cs)] + [g.th("jaro_winkler", t, cs) for t in tl if t >= 0.88] + ([g.arrint(1, arr)] if dm else []) + \
                       [g.th("jaro_winkler", t, cs) for t in tl if t < 0.88] + [Gen.ELSE]
            kw = {}
            if ths is not None:
                kw["jaro_winkler_thresholds"] = ths
            if dm:
                kw["dmeta_col_name"] = "arr"
            add("NameComparison", f"{lab}:{ths}:{dm}", lambda kw=kw, cs=cs: cl.NameComparison(cs.splink(), **kw),
                dict({"name": "str"}, **({"arr": "arr"} if dm else {})), expected)
    fl, sl = C("fn", ("lower",)), C("sn", ("lower",), ("substr", 1, 4))

    def expected_fs(d):
        g = Gen(d)
        return [g.merge("and", [g.null(fl), g.null(sl)], null=True), g.merge("and", [g.exact(fl), g.exact(sl)]), g.rev(fl, sl, True)] + \
               [g.merge("and", [g.th("jaro_winkler", t, fl), g.th("jaro_winkler", t, sl)]) for t in [0.92, 0.88]] + [g.exact(sl), g.exact(fl), Gen.ELSE]
    add("ForenameSurnameComparison", "CE:lower,substr", lambda: cl.ForenameSurnameComparison(fl.splink(), sl.splink()), {"fn": "str", "sn": "str"}, expected_fs)
    el = C("email", ("lower",))
    eu = C("email", ("lower",), ("regex", EMAIL_USER, 0))
    add("EmailComparison", "CE:lower", lambda: cl.EmailComparison(el.splink()), {"email": "email"},
        lambda d: [Gen(d).null(el), Gen(d).exact(el), Gen(d).exact(eu), Gen(d).th("jaro_winkler", 0.88, el), Gen(d).th("jaro_winkler", 0.88, eu), Gen.ELSE],
        ocols=[eu])
    pl = C("pc", ("lower",))
    add("PostcodeComparison", "CE:lower", lambda: cl.PostcodeComparison(pl.splink(), invalid_postcodes_as_null=True), {"pc": "postcode"},
        lambda d: [Gen(d).null(C("pc", ("lower",), ("regex", PC_VALID, 0))), Gen(d).exact(pl), Gen(d).exact(C("pc", ("lower",), ("regex", PC_SECTOR, 0))),
                   Gen(d).exact(C("pc", ("lower",), ("regex", PC_DISTRICT, 0))), Gen(d).exact(C("pc", ("lower",), ("regex", PC_AREA, 0))), Gen.ELSE],
        ocols=[C("pc", ("lower",), ("regex", p_, 0)) for p_ in (PC_VALID, PC_SECTOR, PC_DISTRICT, PC_AREA)],
        tags={"invalid_as_null": True, "lat_long_supplied": False})
    dsub = C("dob", ("substr", 1, 10))
    add("DateOfBirthComparison", "CE:substr", lambda: cl.DateOfBirthComparison(dsub.splink(), input_is_string=True), {"dob": "date"},
        lambda d: [Gen(d).null(C("dob", ("substr", 1, 10), ("date", None))), Gen(d).exact(dsub), Gen(d).th("damerau_levenshtein", 1, dsub)] +
                  [Gen(d).td(C("dob", ("substr", 1, 10), ("date", None)), t, m) for t, m in zip([1, 1, 10], ["month", "year", "year"])] + [Gen.ELSE],
        ocols=[C("dob", ("substr", 1, 10), ("date", None))], tags={"custom_datetime_format": False, "invalid_as_null": True})
    add("CustomComparison", "levels", lambda: cl.CustomComparison(
        output_column_name="name",
        comparison_levels=[cll.NullLevel("name"), cll.ExactMatchLevel("name"), cll.LevenshteinLevel("name", 1),
                           {"sql_condition": "levenshtein(name_l, name_r) <= 3"}, cll.ElseLevel()]), {"name": "str"},
        lambda d: [Gen(d).null(name), Gen(d).exact(name), Gen(d).th("levenshtein", 1, name), Gen(d).fnth("levenshtein", 3, False, name), Gen.ELSE])
    return out


def coq_expected(entries) -> str:
    return coq_list([f"({'true' if n else 'false'}, {'None' if t is None else '(Some (' + t + '))'})" for n, t, _ev in entries], "(bool * option expr)%type")


def comparison_structure(inst: CompInst, d: str):
    """Real Settings -> Comparison for dialect d: per level (is_null flag, sql, parsed tree or None
    for ELSE), the gamma values and the CASE expression tree (lenient parse)."""
    from splink import SettingsCreator
    st = SettingsCreator(link_type="dedupe_only", comparisons=[inst.make()]).get_settings(d)
    comp = st.comparisons[0]
    levels = []
    for l in comp.comparison_levels:
        sql = l.sql_condition
        is_else = sql.strip().upper() == "ELSE"
        levels.append({"null": bool(l.is_null_level), "sql": sql, "else": is_else,
                       "tree": None if is_else else parse_sql(sql, d, lenient=True),
                       "gamma": l.comparison_vector_value})
    case_sql = comp._case_statement
    m = re.match(r"(?is)^\s*(CASE\b.*\bEND)\s+as\s+\S+\s*$", case_sql)
    if not m:
        raise Untranslatable("case statement shape: " + case_sql[:80])
    return {"levels": levels, "case_sql": m.group(1), "case_tree": parse_sql(m.group(1), d, lenient=True),
            "gamma_col": comp._gamma_column_name}


def coq_lvl(l) -> str:
    cond = "None" if l["else"] else f"(Some {coq_expr(l['tree'])})"
    return f"{{| l_null := {'true' if l['null'] else 'false'}; l_cond := {cond} |}}"


def coq_levels(struct) -> str:
    return coq_list([coq_lvl(l) for l in struct["levels"]], "lvl")
