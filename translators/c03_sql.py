"""Fail-closed skeleton extraction for the M-step SQL of expectation_maximisation.py.

The SQL text emitted by compute_new_parameters_sql / compute_proportions_for_new_parameters_sql
is parsed with sqlglot and reduced to the few facts the Gallina model (Model/EM.v: counts_tbl,
props_tbl, lambda_new) encodes; each fact is one obligation.  Unknown shapes make the
obligation fail (they never pass silently)."""
from __future__ import annotations

from types import SimpleNamespace

import sqlglot
import sqlglot.expressions as E


def norm(e) -> str:
    return e.sql(dialect="duckdb", normalize=True).replace('"', "").lower()


def selects_of(tree):
    if isinstance(tree, E.Union):
        if tree.args.get("distinct"):
            raise ValueError("UNION without ALL")
        return selects_of(tree.this) + selects_of(tree.expression)
    if isinstance(tree, E.Select):
        return [tree]
    raise ValueError(f"unexpected node {type(tree).__name__}")


def cols(sel):
    out = {}
    for x in sel.expressions:
        out[x.alias_or_name.lower()] = norm(x.this if isinstance(x, E.Alias) else x)
    return out


def obligations():
    from splink.internals.expectation_maximisation import (
        compute_new_parameters_sql,
        compute_proportions_for_new_parameters_sql,
        count_agreement_patterns_sql,
    )
    res = []
    comps = [SimpleNamespace(_gamma_column_name="gamma_a", output_column_name="a"),
             SimpleNamespace(_gamma_column_name="gamma_b", output_column_name="b")]
    for ewtf, w in ((False, "1"), (True, "agreement_pattern_count")):
        try:
            sels = selects_of(sqlglot.parse_one(compute_new_parameters_sql(ewtf, comps), read="duckdb"))
            ok = len(sels) == 3
            detail = ""
            for sel, cc in zip(sels[:2], comps):
                c = cols(sel)
                grp = [norm(g) for g in sel.args["group"].expressions] if sel.args.get("group") else []
                want = {"comparison_vector_value": cc._gamma_column_name, "m_count": f"sum(match_probability * {w})",
                        "u_count": f"sum((1 - match_probability) * {w})", "output_column_name": f"'{cc.output_column_name}'"}
                if c != want or grp != [cc._gamma_column_name] or sel.args.get("where") is not None or norm((sel.args.get("from") or sel.args.get("from_")).this) != "__splink__df_predict":
                    ok, detail = False, f"{c} group {grp}"
            c = cols(sels[2]) if len(sels) == 3 else {}
            want = {"comparison_vector_value": "0", "m_count": f"sum(match_probability * {w}) / sum({w})",
                    "u_count": f"sum((1 - match_probability) * {w}) / sum({w})", "output_column_name": "'_probability_two_random_records_match'"}
            if c != want or (len(sels) == 3 and (sels[2].args.get("group") or sels[2].args.get("where"))):
                ok, detail = False, f"lambda branch {c}"
        except Exception as e:  # unknown shape
            ok, detail = False, repr(e)[:300]
        res.append((f"compute_new_parameters_sql(estimate_without_term_frequencies={ewtf}): per comparison GROUP BY gamma with "
                    f"sum(p*w), sum((1-p)*w); lambda = sum(p*w)/sum(w); w = {w}", ok, detail))
    try:
        sels = selects_of(sqlglot.parse_one(compute_proportions_for_new_parameters_sql("t"), read="duckdb"))
        ok, detail = len(sels) == 2, ""
        c = cols(sels[0])
        want = {"comparison_vector_value": "comparison_vector_value", "output_column_name": "output_column_name",
                "m_probability": "m_count / sum(m_count) over (partition by output_column_name)",
                "u_probability": "u_count / sum(u_count) over (partition by output_column_name)"}
        where = sels[0].args.get("where")
        conj = sorted(norm(x) for x in (where.this.flatten() if isinstance(where.this, E.And) else [where.this])) if where else []
        want_where = sorted(["comparison_vector_value <> -1", "output_column_name <> '_probability_two_random_records_match'"])
        if c != want or conj != want_where:
            ok, detail = False, f"{c} where {conj}"
        c2 = cols(sels[1])
        w2 = sels[1].args.get("where")
        if c2 != {"comparison_vector_value": "comparison_vector_value", "output_column_name": "output_column_name",
                  "m_probability": "m_count", "u_probability": "u_count"} or not w2 or \
                norm(w2.this) != "output_column_name = '_probability_two_random_records_match'":
            ok, detail = False, f"lambda branch {c2}"
    except Exception as e:
        ok, detail = False, repr(e)[:300]
    res.append(("compute_proportions_for_new_parameters_sql: WHERE value <> -1, count / sum(count) OVER (PARTITION BY comparison); lambda row passed through", ok, detail))
    try:
        sel = sqlglot.parse_one(count_agreement_patterns_sql(comps), read="duckdb")
        c = cols(sel)
        grp = [norm(g) for g in sel.args["group"].expressions]
        ok = c == {"gamma_a": "gamma_a", "gamma_b": "gamma_b", "agreement_pattern_count": "count(*)"} and grp == ["gamma_a", "gamma_b"] and sel.args.get("where") is None
        detail = "" if ok else f"{c} group {grp}"
    except Exception as e:
        ok, detail = False, repr(e)[:300]
    res.append(("count_agreement_patterns_sql: GROUP BY all gamma columns, count(*)", ok, detail))
    return res


# ------------------------------------------------------------------------------------------------
# Coq-decided part: the aggregated expressions and the null literal, as Gallina terms
# ------------------------------------------------------------------------------------------------
def rexp(e):
    """sqlglot scalar expression over (match_probability, agreement_pattern_count) -> Gallina `rexp`"""
    if isinstance(e, E.Paren):
        return rexp(e.this)
    if isinstance(e, E.Column):
        n = e.name.lower()
        if n == "match_probability":
            return "RP"
        if n == "agreement_pattern_count":
            return "RW"
        raise ValueError("column " + n)
    if isinstance(e, E.Literal) and not e.is_string:
        from fractions import Fraction
        f = Fraction(e.this)
        return f"(RC (Qmake ({f.numerator})%Z {f.denominator}%positive))"
    if isinstance(e, E.Mul):
        return f"(RMul {rexp(e.this)} {rexp(e.expression)})"
    if isinstance(e, E.Sub):
        return f"(RSub {rexp(e.this)} {rexp(e.expression)})"
    raise ValueError("scalar expression " + type(e).__name__)


def sum_arg(e):
    if isinstance(e, E.Alias):
        e = e.this
    if not isinstance(e, E.Sum):
        raise ValueError("not a sum(): " + e.sql())
    return e.this


COQ_HEADER = """From Coq Require Import String Ascii.
From Coq Require Import List ZArith QArith Qreduction Bool Arith Lqa.
From Splinkv Require Import Model.EM.
Import ListNotations.
Open Scope Q_scope.
(* scalar expressions of the M-step SQL over one __splink__df_predict row *)
Inductive rexp := RP | RW | RC (q : Q) | RMul (a b : rexp) | RSub (a b : rexp).
Fixpoint reval (e : rexp) (r : srow) : Q :=
  match e with RP => sp r | RW => sw r | RC q => q | RMul a b => reval a r * reval b r | RSub a b => reval a r - reval b r end.
"""


def coq_obligations(ctx):
    """Each aggregated expression extracted from the emitted SQL is turned into a Gallina term and
    Coq decides, for ALL rows, that it is the summand the model uses (mterm, uterm, sw);
    on the row-wise path (weight literal 1) for all rows of weight 1."""
    from splink.internals.expectation_maximisation import (
        compute_new_parameters_sql,
        compute_proportions_for_new_parameters_sql,
    )
    comps = [SimpleNamespace(_gamma_column_name="gamma_a", output_column_name="a")]
    res = []
    for ewtf in (False, True):
        hyp = "" if ewtf else "sw r == 1 -> "
        pre = "intros r." if ewtf else "intros r H."
        rw = "" if ewtf else " rewrite H."
        try:
            sels = selects_of(sqlglot.parse_one(compute_new_parameters_sql(ewtf, comps), read="duckdb"))
            by = {x.alias_or_name.lower(): x for x in sels[0].expressions}
            em, eu = rexp(sum_arg(by["m_count"])), rexp(sum_arg(by["u_count"]))
            lam = {x.alias_or_name.lower(): x for x in sels[-1].expressions}["m_count"].this
            if not isinstance(lam, E.Div):
                raise ValueError("lambda is not a quotient of sums")
            ln, ld = rexp(sum_arg(lam.this)), rexp(sum_arg(lam.expression))
            text = COQ_HEADER + f"""
Lemma m_count_summand : forall r, {hyp}reval {em} r == mterm r.
Proof. {pre} unfold mterm. cbn [reval].{rw} ring. Qed.
Lemma u_count_summand : forall r, {hyp}reval {eu} r == uterm r.
Proof. {pre} unfold uterm. cbn [reval].{rw} ring. Qed.
Lemma lambda_numerator : forall r, {hyp}reval {ln} r == mterm r.
Proof. {pre} unfold mterm. cbn [reval].{rw} ring. Qed.
Lemma lambda_denominator : forall r, {hyp}reval {ld} r == sw r.
Proof. {pre} cbn [reval].{rw} ring. Qed.
"""
            ok, out = ctx.coqc_text(f"C03_sql_ob_{int(ewtf)}", text)
            detail = "" if ok else out[-500:]
        except Exception as e:
            ok, detail = False, repr(e)[:300]
        res.append((f"[decided in Coq] summands of compute_new_parameters_sql(estimate_without_term_frequencies={ewtf}) = mterm / uterm / sw of Model/EM.v for all rows", ok, detail))
    try:
        sels = selects_of(sqlglot.parse_one(compute_proportions_for_new_parameters_sql("t"), read="duckdb"))
        where = sels[0].args["where"].this
        lits = [x for x in where.find_all(E.NEQ) if norm(x.this) == "comparison_vector_value"]
        if len(lits) != 1:
            raise ValueError("null-level filter not found")
        val = int(lits[0].expression.sql())
        text = COQ_HEADER + f"""
(* WHERE comparison_vector_value <> {val}: the same literal props_tbl / nonnull filter on *)
Lemma null_literal : forall i sc, filter (fun x => negb (Z.eqb (cr_v x) ({val}))) (counts_tbl i sc)
                                 = filter (fun x => negb (Z.eqb (cr_v x) (-1))) (counts_tbl i sc).
Proof. intros. reflexivity. Qed.
"""
        ok, out = ctx.coqc_text("C03_sql_ob_null", text)
        detail = "" if ok else out[-500:]
    except Exception as e:
        ok, detail = False, repr(e)[:300]
    res.append(("[decided in Coq] null-level literal of compute_proportions_for_new_parameters_sql = the literal of props_tbl", ok, detail))
    return res
