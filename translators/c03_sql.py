"""Fail-closed skeleton extraction for the M-step SQL of expectation_maximisation.py.

The SQL text emitted by compute_new_parameters_sql / compute_proportions_for_new_parameters_sql
is parsed with sqlglot and reduced to the few facts the Gallina model (Model/EM.v: counts_tbl,
props_tbl, lambda_new) encodes; each fact is one obligation.  Unknown shapes make the
obligation fail (they never pass silently)."""
from __future__ import annotations

from types import SimpleNamespace

import sqlglot
import sqlglot.expressions as E


def norm(e) -> str:
    return e.sql(dialect="duckdb", normalize=True).replace('"', "").lower()


def selects_of(tree):
    if isinstance(tree, E.Union):
        if tree.args.get("distinct"):
            raise ValueError("UNION without ALL")
        return selects_of(tree.this) + selects_of(tree.expression)
    if isinstance(tree, E.Select):
        return [tree]
    raise ValueError(f"unexpected node {type(tree).__name__}")


def cols(sel):
    out = {}
    for x in sel.expressions:
        out[x.alias_or_name.lower()] = norm(x.this if isinstance(x, E.Alias) else x)
    return out


def obligations():
    from splink.internals.expectation_maximisation import (
        compute_new_parameters_sql,
        compute_proportions_for_new_parameters_sql,
        count_agreement_patterns_sql,
    )
    res = []
    comps = [SimpleNamespace(_gamma_column_name="gamma_a", output_column_name="a"),
             SimpleNamespace(_gamma_column_name="gamma_b", output_column_name="b")]
    for ewtf, w in ((False, "1"), (True, "agreement_pattern_count")):
        try:
            sels = selects_of(sqlglot.parse_one(compute_new_parameters_sql(ewtf, comps), read="duckdb"))
            ok = len(sels) == 3
            detail = ""
            for sel, cc in zip(sels[:2], comps):
                c = cols(sel)
                grp = [norm(g) for g in sel.args["group"].expressions] if sel.args.get("group") else []
                want = {"comparison_vector_value": cc._gamma_column_name, "m_count": f"sum(match_probability * {w})",
                        "u_count": f"sum((1 - match_probability) * {w})", "output_column_name": f"'{cc.output_column_name}'"}
                if c != want or grp != [cc._gamma_column_name] or sel.args.get("where") is not None or norm((sel.args.get("from") or sel.args.get("from_")).this) != "__splink__df_predict":
                    ok, detail = False, f"{c} group {grp}"
            c = cols(sels[2]) if len(sels) == 3 else {}
            want = {"comparison_vector_value": "0", "m_count": f"sum(match_probability * {w}) / sum({w})",
                    "u_count": f"sum((1 - match_probability) * {w}) / sum({w})", "output_column_name": "'_probability_two_random_records_match'"}
            if c != want or (len(sels) == 3 and (sels[2].args.get("group") or sels[2].args.get("where"))):
                ok, detail = False, f"lambda branch {c}"
        except Exception as e:  # unknown shape
            ok, detail = False, repr(e)[:300]
        res.append((f"compute_new_parameters_sql(estimate_without_term_frequencies={ewtf}): per comparison GROUP BY gamma with "
                    f"sum(p*w), sum((1-p)*w); lambda = sum(p*w)/sum(w); w = {w}", ok, detail))
    try:
        sels = selects_of(sqlglot.parse_one(compute_proportions_for_new_parameters_sql("t"), read="duckdb"))
        ok, detail = len(sels) == 2, ""
        c = cols(sels[0])
        want = {"comparison_vector_value": "comparison_vector_value", "output_column_name": "output_column_name",
                "m_probability": "m_count / sum(m_count) over (partition by output_column_name)",
                "u_probability": "u_count / sum(u_count) over (partition by output_column_name)"}
        where = sels[0].args.get("where")
        conj = sorted(norm(x) for x in (where.this.flatten() if isinstance(where.this, E.And) else [where.this])) if where else []
        want_where = sorted(["comparison_vector_value <> -1", "output_column_name <> '_probability_two_random_records_match'"])
        if c != want or conj != want_where:
            ok, detail = False, f"{c} where {conj}"
        c2 = cols(sels[1])
        w2 = sels[1].args.get("where")
        if c2 != {"comparison_vector_value": "comparison_vector_value", "output_column_name": "output_column_name",
                  "m_probability": "m_count", "u_probability": "u_count"} or not w2 or \
                norm(w2.this) != "output_column_name = '_probability_two_random_records_match'":
            ok, detail = False, f"lambda branch {c2}"
    except Exception as e:
        ok, detail = False, repr(e)[:300]
    res.append(("compute_proportions_for_new_parameters_sql: WHERE value <> -1, count / sum(count) OVER (PARTITION BY comparison); lambda row passed through", ok, detail))
    try:
        sel = sqlglot.parse_one(count_agreement_patterns_sql(comps), read="duckdb")
        c = cols(sel)
        grp = [norm(g) for g in sel.args["group"].expressions]
        ok = c == {"gamma_a": "gamma_a", "gamma_b": "gamma_b", "agreement_pattern_count": "count(*)"} and grp == ["gamma_a", "gamma_b"] and sel.args.get("where") is None
        detail = "" if ok else f"{c} group {grp}"
    except Exception as e:
        ok, detail = False, repr(e)[:300]
    res.append(("count_agreement_patterns_sql: GROUP BY all gamma columns, count(*)", ok, detail))
    return res
