"""Symbolic executor for the straight-line Python that Splink's serialisers are written in.

Reads, with `ast` + `inspect`, the source of the classes in /repo (VERIF_REPO) and turns
`as_dict`-style methods into rule tables `(key, guard, value expression)` and constructors
into loaders `(key, default, post expression)` over the expression language of
coq/theories/Model/Serialise.v.

Supported statement forms: docstring, assignment to a local / `self.attr` / `d[const]`,
annotated assignment, `del d[const]`, `if`/`elif`/`else`, `return`, `raise`, the unrolled
`for attr in <names of configure()'s parameters>` loop.  Supported expressions: constants,
locals, `self.attr` (constructor-backed attribute, property (inlined), sub-object), `is None`,
`==`/`!=` against literals, `not`/`and`/`or`, conditional expressions, walrus, dict literals with
`**` spreads, `[x.m() for x in xs]` (structural child), `dataclasses.asdict(self)` of a frozen
dataclass, `super().m()`, `getattr(obj, "name", default)`, calls to methods whose body is itself
translatable.  Everything else becomes an *opaque context value* (`ECtx`), which the Coq checker
treats as unknown, so an unsupported construct can only make an obligation fail (fail-closed);
constructs that would make the extraction itself meaningless raise `Untranslatable`.
"""
from __future__ import annotations

import ast
import copy
import dataclasses
import inspect
import sys
import textwrap
from fractions import Fraction


class Untranslatable(Exception):
    pass


# ------------------------------------------------------------------------- symbolic values
# expressions are tuples:
#   ("field", k) ("ctx", s) ("const", v) ("not", e) ("isnone", e) ("eq", e, v)
#   ("and", a, b) ("or", a, b) ("if", c, a, b) ("raise",)
TRUE = ("const", True)
FALSE = ("const", False)
NONE = ("const", None)
RAISE = ("raise",)


class Obj:
    """Symbolic object: a Python class and a map attribute -> symbolic value."""

    def __init__(self, cls, attrs=None):
        self.cls = cls
        self.attrs = dict(attrs or {})

    def __repr__(self):
        return f"<Obj {self.cls.__name__} {sorted(self.attrs)}>"


class Cond:
    """Conditional non-expression value (e.g. `InputColumn(...) if val else None`)."""

    def __init__(self, c, a, b):
        self.c, self.a, self.b = c, a, b


class DictSym:
    """Ordered symbolic dict: list of [key, guard expr, value]."""

    def __init__(self, entries=None):
        self.entries = [list(e) for e in (entries or [])]

    def copy(self):
        return DictSym([list(e) for e in self.entries])

    def set(self, key, value, guard=TRUE):
        for e in self.entries:
            if e[0] == key:
                e[1], e[2] = guard, value
                return
        self.entries.append([key, guard, value])

    def delete(self, key):
        n = len(self.entries)
        self.entries = [e for e in self.entries if e[0] != key]
        if len(self.entries) == n:
            raise Untranslatable(f"del of a key that is not statically present: {key}")

    def update(self, other: "DictSym"):
        for k, g, v in other.entries:
            self.set(k, v, g)


class Child:
    """`[x.m() for x in xs]`: a structural child collection."""

    def __init__(self, iter_src, method):
        self.iter_src, self.method = iter_src, method

    def __eq__(self, o):
        return isinstance(o, Child) and (o.iter_src, o.method) == (self.iter_src, self.method)


class ClassRef:
    def __init__(self, cls):
        self.cls = cls


class BoundMethod:
    def __init__(self, obj, fdef, defcls):
        self.obj, self.fdef, self.defcls = obj, fdef, defcls


class SuperRef:
    def __init__(self, obj, after_cls):
        self.obj, self.after_cls = obj, after_cls


class PyList:
    def __init__(self, items):
        self.items = items


JSON_TYPES = (str, int, float, bool, list, dict, tuple, type(None))


def is_expr(v):
    return isinstance(v, tuple) and v and isinstance(v[0], str) and v[0] in (
        "field", "ctx", "const", "not", "isnone", "eq", "and", "or", "if", "raise")


def is_json_expr(e):
    """built from record fields and literals only (so its value is a JSON value)"""
    t = e[0]
    if t in ("field", "const"):
        return True
    if t in ("ctx", "raise"):
        return False
    return all(is_json_expr(x) for x in e[1:] if isinstance(x, tuple) and x and isinstance(x[0], str)
               and x[0] in ("field", "ctx", "const", "not", "isnone", "eq", "and", "or", "if", "raise"))


def ascii_clip(s, n=90):
    s = " ".join(str(s).split())
    s = "".join(c if 32 <= ord(c) < 127 else "?" for c in s)
    return s[:n]


def mk_not(e):
    if e == TRUE:
        return FALSE
    if e == FALSE:
        return TRUE
    return ("not", e)


def mk_and(a, b):
    # only used for guards, where only the truthiness of the result matters
    if a == TRUE:
        return b
    if b == TRUE:
        return a
    return ("and", a, b)


def mk_if(c, a, b):
    if a == b and (is_expr(a) or isinstance(a, Child)):
        return a
    if c == TRUE:
        return a
    if c == FALSE:
        return b
    if is_expr(a) and is_expr(b):
        return ("if", c, a, b)
    if isinstance(a, DictSym) and isinstance(b, DictSym):
        return merge_dicts(c, a, b)
    # `if c: raise ...` in front of a dict result: the first rule's guard raises when c holds
    if a == RAISE and isinstance(b, DictSym) and b.entries:
        d = b.copy()
        d.entries[0][1] = ("if", c, RAISE, d.entries[0][1])
        return d
    if b == RAISE and isinstance(a, DictSym) and a.entries:
        d = a.copy()
        d.entries[0][1] = ("if", c, d.entries[0][1], RAISE)
        return d
    return Cond(c, a, b)


def merge_dicts(c, d1: DictSym, d2: DictSym) -> DictSym:
    out = DictSym()
    k2 = {e[0]: e for e in d2.entries}
    k1 = {e[0]: e for e in d1.entries}
    for k, g, v in d1.entries:
        if k in k2:
            g2, v2 = k2[k][1], k2[k][2]
            if g == g2 and values_equal(v, v2):
                out.entries.append([k, g, v])
            else:
                out.entries.append([k, mk_if(c, g, g2), mk_if(c, v, v2)])
        else:
            out.entries.append([k, mk_and(c, g), v])
    for k, g, v in d2.entries:
        if k not in k1:
            out.entries.append([k, mk_and(mk_not(c), g), v])
    return out


def values_equal(a, b):
    if isinstance(a, Child) or isinstance(b, Child):
        return a == b
    if is_expr(a) and is_expr(b):
        return a == b
    return a is b


# ------------------------------------------------------------------------- class sources
_AST_CACHE: dict = {}


def class_ast(cls) -> ast.ClassDef:
    if cls not in _AST_CACHE:
        try:
            src = textwrap.dedent(inspect.getsource(cls))
        except (OSError, TypeError) as e:
            raise Untranslatable(f"no source for {cls}") from e
        node = ast.parse(src).body[0]
        if not isinstance(node, ast.ClassDef):
            raise Untranslatable(f"{cls}: not a class definition")
        _AST_CACHE[cls] = node
    return _AST_CACHE[cls]


def own_functions(cls):
    """name -> list of (kind, FunctionDef) defined directly in cls; kind in getter/setter/method."""
    out: dict = {}
    for n in class_ast(cls).body:
        if isinstance(n, ast.FunctionDef):
            kind = "method"
            for d in n.decorator_list:
                if isinstance(d, ast.Name) and d.id == "property":
                    kind = "getter"
                elif isinstance(d, ast.Attribute) and d.attr == "setter":
                    kind = "setter"
                elif isinstance(d, ast.Name) and d.id in ("staticmethod", "classmethod"):
                    kind = d.id
            out.setdefault(n.name, []).append((kind, n))
    return out


def user_mro(cls):
    return [c for c in cls.__mro__ if c is not object and c.__module__ != "abc" and c.__module__ != "builtins"
            and c.__module__ != "typing"]


def find_member(cls, name, kinds=("getter", "method"), after=None):
    """first definition of `name` in the MRO (optionally strictly after class `after`)."""
    mro = user_mro(cls)
    if after is not None:
        mro = mro[mro.index(after) + 1:]
    for c in mro:
        try:
            fns = own_functions(c)
        except Untranslatable:
            continue
        for kind, fd in fns.get(name, []):
            if kind in kinds:
                return kind, fd, c
    return None


def module_globals(cls_or_fn):
    return sys.modules[cls_or_fn.__module__].__dict__


# ------------------------------------------------------------------------- the executor
class SymExec:
    MAX_DEPTH = 12
    # helpers modelled as the identity on their first argument (recorded as trusted)
    IDENTITY_HELPERS = {"_quote_if_sql_keyword": "InputColumn._quote_if_sql_keyword is the identity except for the bare "
                                                 "column names 'group' and 'index', which it quotes"}
    PURE_IDENTITY_CALLS = {"copy", "deepcopy"}

    def __init__(self):
        self.notes: list[str] = []
        self.opaque: list[str] = []
        self.depth = 0

    def note(self, s):
        if s not in self.notes:
            self.notes.append(s)

    def ctx(self, node_or_str):
        s = node_or_str if isinstance(node_or_str, str) else ast.unparse(node_or_str)
        s = ascii_clip(s)
        if s not in self.opaque:
            self.opaque.append(s)
        return ("ctx", s)

    # ---------------------------------------------------------------- conversion to expressions
    def to_expr(self, v):
        if is_expr(v):
            return v
        if isinstance(v, Cond):
            return ("if", self.to_expr(v.c), self.to_expr(v.a), self.to_expr(v.b))
        if isinstance(v, Obj):
            return ("const", f"<object {v.cls.__name__}>")
        if isinstance(v, (ClassRef, BoundMethod)):
            return ("const", "<callable>")
        if isinstance(v, PyList):
            if all(isinstance(i, str) for i in v.items):
                return ("const", list(v.items))
            return self.ctx("<list>")
        if isinstance(v, DictSym):
            return ("const", "<dict>") if v.entries else ("const", {})
        if isinstance(v, Child):
            return self.ctx(f"[x.{v.method}() for x in {v.iter_src}]")
        raise Untranslatable(f"cannot convert {v!r} to an expression")

    # ---------------------------------------------------------------- objects
    def getattr_value(self, v, attr, node=None):
        if isinstance(v, Obj):
            return self.obj_getattr(v, attr)
        if isinstance(v, Cond):
            return mk_if(v.c, self.getattr_value(v.a, attr, node), self.getattr_value(v.b, attr, node))
        if isinstance(v, ClassRef):
            if attr == "__name__":
                return ("const", v.cls.__name__)
            return self.ctx(f"{v.cls.__name__}.{attr}")
        if v == NONE:
            return RAISE                       # AttributeError on None
        if is_expr(v) and v[0] == "if":
            return mk_if(v[1], self.getattr_value(v[2], attr, node), self.getattr_value(v[3], attr, node))
        return self.ctx(node if node is not None else f"<expr>.{attr}")

    def obj_getattr(self, obj: Obj, attr: str):
        if attr == "__class__":
            return ClassRef(obj.cls)
        if attr in obj.attrs:
            return obj.attrs[attr]
        m = find_member(obj.cls, attr, kinds=("getter", "method", "staticmethod"))
        if m is None:
            return self.ctx(f"{obj.cls.__name__}.{attr}")
        kind, fd, defcls = m
        if kind == "getter":
            return self.call_function(fd, obj, defcls, [], {})
        return BoundMethod(obj, fd, defcls)

    def construct(self, cls, args, kwargs, node=None):
        """symbolic `cls(*args, **kwargs)`"""
        if not inspect.isclass(cls) or cls.__module__.split(".")[0] != "splink":
            return self.ctx(node if node is not None else f"{cls}(...)")
        if dataclasses.is_dataclass(cls) and "__init__" not in own_functions(cls):
            names = [f.name for f in dataclasses.fields(cls)]
            attrs = {}
            for n, a in zip(names, args):
                attrs[n] = a
            for k, v in kwargs.items():
                if k not in names:
                    raise Untranslatable(f"{cls.__name__}: unknown dataclass field {k}")
                attrs[k] = v
            for f in dataclasses.fields(cls):
                if f.name not in attrs:
                    if f.default is not dataclasses.MISSING:
                        attrs[f.name] = ("const", f.default)
                    elif f.default_factory is not dataclasses.MISSING:  # type: ignore[misc]
                        attrs[f.name] = ("const", f.default_factory())  # type: ignore[misc]
                    else:
                        raise Untranslatable(f"{cls.__name__}: missing field {f.name}")
            return Obj(cls, attrs)
        m = find_member(cls, "__init__", kinds=("method",))
        if m is None:
            return Obj(cls, {})
        _, fd, defcls = m
        obj = Obj(cls, {})
        self.run_init(fd, obj, defcls, args, kwargs)
        return obj

    def bind_args(self, fd: ast.FunctionDef, args, kwargs, skip_self=True):
        a = fd.args
        params = [p.arg for p in a.posonlyargs + a.args]
        if skip_self and params and params[0] in ("self", "cls"):
            params = params[1:]
        defaults = list(a.defaults)
        env = {}
        ndef = len(defaults)
        pos_with_default = params[len(params) - ndef:] if ndef else []
        for p, d in zip(pos_with_default, defaults):
            env[p] = ("__default__", d)
        for p, d in zip([k.arg for k in a.kwonlyargs], a.kw_defaults):
            if d is not None:
                env[p] = ("__default__", d)
        for p, v in zip(params, args):
            env[p] = v
        if len(args) > len(params):
            raise Untranslatable(f"{fd.name}: too many positional arguments")
        allnames = set(params) | {k.arg for k in a.kwonlyargs}
        for k, v in kwargs.items():
            if k not in allnames:
                if a.kwarg is None:
                    raise Untranslatable(f"{fd.name}: unexpected keyword {k}")
                continue
            env[k] = v
        return env, params + [k.arg for k in a.kwonlyargs]

    def run_init(self, fd, obj, defcls, args, kwargs):
        """tolerant execution of a constructor: records `self.a = e`."""
        env, names = self.bind_args(fd, args, kwargs)
        g = module_globals(defcls)
        for n in names:
            if n not in env:
                env[n] = self.ctx(f"missing argument {n}")
            elif isinstance(env[n], tuple) and env[n] and env[n][0] == "__default__":
                env[n] = self.eval(env[n][1], {}, obj, defcls, g)
        env["self"] = obj
        self.init_block(fd.body, env, obj, defcls, g, TRUE)

    def init_block(self, stmts, env, obj, defcls, g, guard):
        for st in stmts:
            if isinstance(st, (ast.Assign, ast.AnnAssign)):
                targets = st.targets if isinstance(st, ast.Assign) else [st.target]
                if st.value is None:
                    continue
                try:
                    val = self.eval(st.value, env, obj, defcls, g)
                except Untranslatable:
                    val = self.ctx(st.value)
                for t in targets:
                    if isinstance(t, ast.Attribute) and isinstance(t.value, ast.Name) and t.value.id == "self":
                        old = obj.attrs.get(t.attr, self.ctx(f"unset {obj.cls.__name__}.{t.attr}"))
                        obj.attrs[t.attr] = mk_if(guard, val, old)
                    elif isinstance(t, ast.Name):
                        env[t.id] = val
            elif isinstance(st, ast.If):
                try:
                    c = self.to_expr(self.eval(st.test, env, obj, defcls, g))
                except Untranslatable:
                    c = self.ctx(st.test)
                if any(isinstance(x, ast.Raise) for x in st.body):
                    # validation: `if bad: raise` - the object only exists when the test is false
                    self.init_block(st.orelse, env, obj, defcls, g, guard)
                    continue
                self.init_block(st.body, env, obj, defcls, g, mk_and(guard, c) if guard != TRUE else c)
                self.init_block(st.orelse, env, obj, defcls, g, mk_and(guard, mk_not(c)) if guard != TRUE else mk_not(c))
            elif isinstance(st, ast.Expr):
                if (isinstance(st.value, ast.Call) and isinstance(st.value.func, ast.Attribute)
                        and isinstance(st.value.func.value, ast.Call)
                        and isinstance(st.value.func.value.func, ast.Name)
                        and st.value.func.value.func.id == "super" and st.value.func.attr == "__init__"):
                    m = find_member(obj.cls, "__init__", kinds=("method",), after=defcls)
                    if m is not None:
                        a = [self.eval(x, env, obj, defcls, g) for x in st.value.args]
                        kw = {k.arg: self.eval(k.value, env, obj, defcls, g) for k in st.value.keywords if k.arg}
                        self.run_init(m[1], obj, m[2], a, kw)
                # other expression statements (validation, logging) do not define attributes
            else:
                # loops etc. in constructors only touch context attributes of children
                self.note(f"{obj.cls.__name__}.__init__: statement of kind {type(st).__name__} not interpreted "
                          f"(attributes it sets are treated as context)")
                for n in ast.walk(st):
                    if isinstance(n, ast.Attribute) and isinstance(n.ctx, ast.Store) and isinstance(n.value, ast.Name) \
                            and n.value.id == "self":
                        obj.attrs[n.attr] = self.ctx(f"{obj.cls.__name__}.{n.attr}")

    # ---------------------------------------------------------------- calls
    def call_function(self, fd, self_obj, defcls, args, kwargs):
        self.depth += 1
        try:
            if self.depth > self.MAX_DEPTH:
                raise Untranslatable(f"call depth exceeded at {fd.name}")
            env, names = self.bind_args(fd, args, kwargs, skip_self=self_obj is not None)
            g = module_globals(defcls) if defcls is not None else {}
            for n in names:
                if n not in env:
                    env[n] = self.ctx(f"missing argument {n}")
                elif isinstance(env[n], tuple) and env[n] and env[n][0] == "__default__":
                    env[n] = self.eval(env[n][1], {}, self_obj, defcls, g)
            if self_obj is not None:
                env["self"] = self_obj
            r = self.block(fd.body, env, self_obj, defcls, g)
            return NONE if r is self.FELL else r
        finally:
            self.depth -= 1

    # ---------------------------------------------------------------- statements
    FELL = object()

    @staticmethod
    def has_exit(stmts):
        for st in stmts:
            for n in ast.walk(st):
                if isinstance(n, (ast.Return, ast.Raise)):
                    return True
        return False

    def block(self, stmts, env, self_obj, defcls, g, cont=None):
        """Continuation-passing execution.  Returns the function's result value; `cont(env)` is
        what happens when control falls off the end of `stmts` (default: the function returns None,
        represented by the sentinel FELL for callers that only want the environment)."""
        if cont is None:
            cont = lambda e: self.FELL   # noqa: E731
        for i, st in enumerate(stmts):
            rest = stmts[i + 1:]
            if isinstance(st, ast.Expr):
                if isinstance(st.value, ast.Constant):
                    continue
                if isinstance(st.value, ast.Call) and isinstance(st.value.func, ast.Attribute) \
                        and isinstance(st.value.func.value, ast.Name) \
                        and isinstance(env.get(st.value.func.value.id), DictSym):
                    d = env[st.value.func.value.id]
                    if st.value.func.attr == "update" and len(st.value.args) == 1:
                        o = self.eval(st.value.args[0], env, self_obj, defcls, g)
                        if not isinstance(o, DictSym):
                            raise Untranslatable("dict.update with a non-literal dict")
                        d.update(o)
                        continue
                    raise Untranslatable(f"unsupported dict method {st.value.func.attr}")
                if self.mentions_dict(st, env):
                    raise Untranslatable(f"unsupported statement on a serialised dict: {ast.unparse(st)[:80]}")
                continue      # logging / validation call
            if isinstance(st, ast.Return):
                return NONE if st.value is None else self.eval(st.value, env, self_obj, defcls, g)
            if isinstance(st, ast.Raise):
                return RAISE
            if isinstance(st, (ast.Assign, ast.AnnAssign)):
                if st.value is None:
                    continue
                val = self.eval(st.value, env, self_obj, defcls, g)
                targets = st.targets if isinstance(st, ast.Assign) else [st.target]
                for t in targets:
                    self.assign(t, val, env, self_obj, defcls, g)
                continue
            if isinstance(st, ast.Delete):
                for t in st.targets:
                    if isinstance(t, ast.Subscript) and isinstance(t.value, ast.Name) \
                            and isinstance(env.get(t.value.id), DictSym) and isinstance(t.slice, ast.Constant):
                        env[t.value.id].delete(t.slice.value)
                    else:
                        raise Untranslatable(f"unsupported del: {ast.unparse(st)}")
                continue
            if isinstance(st, ast.If):
                c = self.to_expr(self.eval(st.test, env, self_obj, defcls, g))   # may bind walrus names
                env_a, env_b = self.fork(env), self.fork(env)
                if not self.has_exit([st]):
                    self.branch(st.body, env_a, self_obj, defcls, g)
                    self.branch(st.orelse, env_b, self_obj, defcls, g)
                    self.merge_env(env, c, env_a, env_b)
                    continue
                k = lambda e: self.block(rest, e, self_obj, defcls, g, cont)   # noqa: E731
                ra = self.block(st.body, env_a, self_obj, defcls, g, k)
                rb = self.block(st.orelse, env_b, self_obj, defcls, g, k)
                if ra is self.FELL and rb is self.FELL:
                    return self.FELL
                ra = NONE if ra is self.FELL else ra
                rb = NONE if rb is self.FELL else rb
                return mk_if(c, ra, rb)
            if isinstance(st, ast.For):
                names = self.static_iter(st.iter, env, self_obj, defcls, g)
                if names is None or not isinstance(st.target, ast.Name) or self.has_exit(st.body) or st.orelse:
                    raise Untranslatable(f"unsupported loop: {ast.unparse(st.iter)[:80]}")
                for nm in names:
                    env[st.target.id] = ("const", nm)
                    self.block(st.body, env, self_obj, defcls, g)
                continue
            if isinstance(st, ast.Pass):
                continue
            raise Untranslatable(f"unsupported statement {type(st).__name__}: {ast.unparse(st)[:80]}")
        return cont(env)

    def branch(self, stmts, env, self_obj, defcls, g):
        """a branch without return/raise; on an unsupported construct the names it assigns become
        opaque (allowed only if it does not touch a serialised dict)"""
        try:
            self.block(stmts, env, self_obj, defcls, g)
        except Untranslatable as e:
            for st in stmts:
                if self.mentions_dict(st, env):
                    raise
            for st in stmts:
                for n in ast.walk(st):
                    if isinstance(n, ast.Name) and isinstance(n.ctx, ast.Store):
                        env[n.id] = self.ctx(f"opaque {n.id} ({ascii_clip(str(e), 40)})")

    def mentions_dict(self, st, env):
        for n in ast.walk(st):
            if isinstance(n, ast.Name) and isinstance(env.get(n.id), DictSym):
                return True
        return False

    def fork(self, env):
        return {k: (v.copy() if isinstance(v, DictSym) else v) for k, v in env.items()}

    def adopt(self, env, other):
        env.clear()
        env.update(other)

    def merge_env(self, env, c, ea, eb):
        for k in set(ea) | set(eb):
            va, vb = ea.get(k), eb.get(k)
            if va is None or vb is None:
                v = va if va is not None else vb
                env[k] = mk_if(c, v, self.ctx(f"unbound {k}")) if va is not None else mk_if(c, self.ctx(f"unbound {k}"), v)
                if isinstance(v, DictSym):
                    raise Untranslatable("dict created in one branch only")
                continue
            if va is vb or (is_expr(va) and va == vb):
                env[k] = va
            else:
                env[k] = mk_if(c, va, vb)

    def assign(self, t, val, env, self_obj, defcls, g):
        if isinstance(t, ast.Name):
            env[t.id] = val
        elif isinstance(t, ast.Subscript) and isinstance(t.value, ast.Name) and isinstance(env.get(t.value.id), DictSym):
            key = self.eval(t.slice, env, self_obj, defcls, g)
            if not (is_expr(key) and key[0] == "const" and isinstance(key[1], str)):
                raise Untranslatable(f"non-constant key: {ast.unparse(t)}")
            env[t.value.id].set(key[1], val)
        elif isinstance(t, ast.Attribute):
            base = self.eval(t.value, env, self_obj, defcls, g)
            if isinstance(base, Obj) and base is self_obj:
                raise Untranslatable(f"serialiser writes to self.{t.attr}")
            # writes to attributes of other (local / opaque) objects do not affect the dict
        else:
            raise Untranslatable(f"unsupported assignment target {ast.unparse(t)}")

    def static_iter(self, node, env, self_obj, defcls, g):
        v = self.eval(node, env, self_obj, defcls, g)
        if isinstance(v, PyList) and all(isinstance(i, str) for i in v.items):
            return v.items
        return None

    # ---------------------------------------------------------------- expressions
    def eval(self, node, env, self_obj, defcls, g):
        if isinstance(node, ast.Constant):
            return ("const", node.value)
        if isinstance(node, ast.Name):
            if node.id in env:
                return env[node.id]
            if node.id in g:
                v = g[node.id]
                if isinstance(v, (str, int, float, bool)) or v is None:
                    return ("const", v)
                if inspect.isclass(v):
                    return ClassRef(v)
            return self.ctx(node.id)
        if isinstance(node, ast.NamedExpr):
            v = self.eval(node.value, env, self_obj, defcls, g)
            env[node.target.id] = v
            return v
        if isinstance(node, ast.Attribute):
            base = self.eval(node.value, env, self_obj, defcls, g)
            return self.getattr_value(base, node.attr, node)
        if isinstance(node, ast.UnaryOp) and isinstance(node.op, ast.Not):
            return mk_not(self.to_expr(self.eval(node.operand, env, self_obj, defcls, g)))
        if isinstance(node, ast.BoolOp):
            vals = [self.eval(v, env, self_obj, defcls, g) for v in node.values]
            if isinstance(node.op, ast.Or) and any(isinstance(v, Obj) for v in vals[:-1]):
                return vals[0]
            vals = [self.to_expr(v) for v in vals]
            out = vals[-1]
            for v in reversed(vals[:-1]):
                out = ("and", v, out) if isinstance(node.op, ast.And) else ("or", v, out)
            return out
        if isinstance(node, ast.IfExp):
            c = self.to_expr(self.eval(node.test, env, self_obj, defcls, g))
            return mk_if(c, self.eval(node.body, env, self_obj, defcls, g), self.eval(node.orelse, env, self_obj, defcls, g))
        if isinstance(node, ast.Compare) and len(node.ops) == 1:
            op = node.ops[0]
            l = self.eval(node.left, env, self_obj, defcls, g)
            r = self.eval(node.comparators[0], env, self_obj, defcls, g)
            if isinstance(op, (ast.Is, ast.IsNot)) and (r == NONE or l == NONE):
                other = l if r == NONE else r
                if isinstance(other, Obj):
                    e = FALSE
                else:
                    e = ("isnone", self.to_expr(other))
                return e if isinstance(op, ast.Is) else mk_not(e)
            if isinstance(op, (ast.Eq, ast.NotEq)):
                e = None
                if is_expr(r) and r[0] == "const" and not isinstance(l, (Obj, DictSym)):
                    e = ("eq", self.to_expr(l), r[1])
                elif is_expr(l) and l[0] == "const" and not isinstance(r, (Obj, DictSym)):
                    e = ("eq", self.to_expr(r), l[1])
                if e is not None:
                    return e if isinstance(op, ast.Eq) else mk_not(e)
            return self.ctx(node)
        if isinstance(node, ast.Dict):
            d = DictSym()
            for k, v in zip(node.keys, node.values):
                val = self.eval(v, env, self_obj, defcls, g)
                if k is None:
                    if not isinstance(val, DictSym):
                        raise Untranslatable(f"** spread of a non-literal dict: {ast.unparse(v)[:60]}")
                    d.update(val)
                else:
                    kk = self.eval(k, env, self_obj, defcls, g)
                    if not (is_expr(kk) and kk[0] == "const" and isinstance(kk[1], str)):
                        raise Untranslatable("non-constant dict key")
                    d.set(kk[1], val)
            return d
        if isinstance(node, ast.List):
            items = [self.eval(e, env, self_obj, defcls, g) for e in node.elts]
            if all(is_expr(i) and i[0] == "const" for i in items):
                return ("const", [i[1] for i in items])
            return self.ctx(node)
        if isinstance(node, ast.ListComp):
            return self.listcomp(node, env, self_obj, defcls, g)
        if isinstance(node, ast.Call):
            return self.call(node, env, self_obj, defcls, g)
        return self.ctx(node)

    def listcomp(self, node, env, self_obj, defcls, g):
        if len(node.generators) == 1:
            gen = node.generators[0]
            if (not gen.ifs and isinstance(gen.target, ast.Name) and isinstance(node.elt, ast.Call)
                    and isinstance(node.elt.func, ast.Attribute) and isinstance(node.elt.func.value, ast.Name)
                    and node.elt.func.value.id == gen.target.id and not node.elt.args and not node.elt.keywords):
                it = gen.iter
                src = ast.unparse(it)
                if isinstance(it, ast.Name) and is_expr(env.get(it.id)) and env[it.id][0] == "ctx":
                    src = env[it.id][1]
                return Child(src, node.elt.func.attr)
            # [s for s in signature(self.X).parameters if s != "self"]
            it = gen.iter
            if (isinstance(it, ast.Attribute) and it.attr == "parameters" and isinstance(it.value, ast.Call)
                    and isinstance(it.value.func, ast.Name) and it.value.func.id == "signature"
                    and len(it.value.args) == 1 and isinstance(it.value.args[0], ast.Attribute)
                    and isinstance(it.value.args[0].value, ast.Name) and it.value.args[0].value.id == "self"
                    and isinstance(self_obj, Obj) and isinstance(node.elt, ast.Name)):
                meth = getattr(self_obj.cls, it.value.args[0].attr)
                names = [p for p in inspect.signature(meth).parameters if p != "self"]
                ok_filter = all(ast.unparse(i).replace('"', "'") == f"{gen.target.id} != 'self'" for i in gen.ifs)
                if ok_filter:
                    return PyList(names)
        return self.ctx(node)

    def call(self, node, env, self_obj, defcls, g):
        f = node.func
        ev = lambda n: self.eval(n, env, self_obj, defcls, g)   # noqa: E731
        # ---- builtins / well-known functions by name
        if isinstance(f, ast.Name):
            name = f.id
            if name == "super" and not node.args:
                return SuperRef(self_obj, defcls)
            if name == "asdict" and len(node.args) == 1:
                o = ev(node.args[0])
                if isinstance(o, Obj) and dataclasses.is_dataclass(o.cls):
                    if not o.cls.__dataclass_params__.frozen:
                        raise Untranslatable(f"asdict of a mutable dataclass {o.cls.__name__}")
                    d = DictSym()
                    for fld in dataclasses.fields(o.cls):
                        d.set(fld.name, o.attrs.get(fld.name, self.ctx(f"{o.cls.__name__}.{fld.name}")))
                    return d
                return self.ctx(node)
            if name == "getattr" and len(node.args) in (2, 3):
                o, k = ev(node.args[0]), ev(node.args[1])
                dflt = ev(node.args[2]) if len(node.args) == 3 else RAISE
                if isinstance(o, Obj) and is_expr(k) and k[0] == "const" and isinstance(k[1], str):
                    if k[1] in o.attrs or find_member(o.cls, k[1], kinds=("getter", "method")):
                        v = self.obj_getattr(o, k[1])
                        if is_expr(v) and v[0] == "field" and o.attrs.get("__unset_is_none__"):
                            # attribute possibly never set: the record holds None for "unset"
                            return v if dflt == NONE else mk_if(("isnone", v), self.to_expr(dflt), v)
                        return v
                    return dflt
                return self.ctx(node)
            if name == "isinstance" and len(node.args) == 2:
                o, c = ev(node.args[0]), ev(node.args[1])
                if isinstance(c, ClassRef) and c.cls not in JSON_TYPES:
                    if is_expr(o) and is_json_expr(o):
                        self.note(f"isinstance(<record field>, {c.cls.__name__}) is False: record fields hold JSON values")
                        return FALSE
                    if isinstance(o, Obj):
                        return ("const", issubclass(o.cls, c.cls))
                return self.ctx(node)
            if name in self.PURE_IDENTITY_CALLS and len(node.args) == 1:
                return ev(node.args[0])
            if name == "cast" and len(node.args) == 2:      # typing.cast
                return ev(node.args[1])
            if name in g and inspect.isclass(g[name]):
                args = [ev(a) for a in node.args]
                kw = {}
                for k in node.keywords:
                    if k.arg is None:
                        return self.ctx(node)
                    kw[k.arg] = ev(k.value)
                return self.construct(g[name], args, kw, node)
            return self.ctx(node)
        # ---- method calls
        if isinstance(f, ast.Attribute):
            base = ev(f.value)
            if isinstance(base, SuperRef):
                m = find_member(base.obj.cls, f.attr, kinds=("method", "getter"), after=base.after_cls)
                if m is None:
                    raise Untranslatable(f"super().{f.attr} not found")
                return self.call_function(m[1], base.obj, m[2], [ev(a) for a in node.args],
                                          {k.arg: ev(k.value) for k in node.keywords if k.arg})
            if isinstance(base, Cond):
                # distribute the call over the branches
                def on(b):
                    if isinstance(b, Obj):
                        bm = self.obj_getattr(b, f.attr)
                        if isinstance(bm, BoundMethod):
                            return self.call_function(bm.fdef, bm.obj, bm.defcls, [ev(a) for a in node.args],
                                                      {k.arg: ev(k.value) for k in node.keywords if k.arg})
                        return self.ctx(node)
                    if b == NONE:
                        return RAISE
                    return self.ctx(node)
                return mk_if(base.c, on(base.a), on(base.b))
            if isinstance(base, Obj):
                if f.attr in self.IDENTITY_HELPERS and node.args:
                    self.note("modelled as identity: " + self.IDENTITY_HELPERS[f.attr])
                    return ev(node.args[0])
                bm = self.obj_getattr(base, f.attr)
                if isinstance(bm, BoundMethod):
                    args = [ev(a) for a in node.args]
                    kw = {k.arg: ev(k.value) for k in node.keywords if k.arg}
                    try:
                        return self.call_function(bm.fdef, bm.obj, bm.defcls, args, kw)
                    except Untranslatable as e:
                        return self.ctx(f"{ast.unparse(node)[:60]} (opaque: {ascii_clip(str(e), 40)})")
                return self.ctx(node)
            if isinstance(base, DictSym):
                if f.attr == "copy" and not node.args:
                    return base.copy()
                raise Untranslatable(f"unsupported dict method {f.attr}")
            return self.ctx(node)
        return self.ctx(node)


# ------------------------------------------------------------------------- Coq emission
def py_to_val(v) -> str:
    if v is None:
        return "VNone"
    if isinstance(v, bool):
        return f"(VBool {'true' if v else 'false'})"
    if isinstance(v, (int, float)):
        if isinstance(v, float) and (v != v or v in (float("inf"), float("-inf"))):
            raise Untranslatable("non-finite number")
        fr = Fraction(v)
        return f"(VNum ({fr.numerator})%Z {fr.denominator}%positive)"
    if isinstance(v, str):
        return f"(VStr {coq_str(v)})"
    if isinstance(v, (list, tuple)) and all(isinstance(i, str) for i in v):
        return "(VList [" + "; ".join(coq_str(i) for i in v) + "])"
    if isinstance(v, dict) and not v:
        return '(VStr "<empty dict>")'
    raise Untranslatable(f"value not representable: {v!r}")


def coq_str(s: str) -> str:
    s = "".join(c if 32 <= ord(c) < 127 else "?" for c in s)
    return '"' + s.replace('"', '""') + '"'


def expr_to_coq(e) -> str:
    t = e[0]
    if t == "field":
        return f"(EField {coq_str(e[1])})"
    if t == "ctx":
        return f"(ECtx {coq_str(e[1])})"
    if t == "const":
        return f"(EConst {py_to_val(e[1])})"
    if t == "not":
        return f"(ENot {expr_to_coq(e[1])})"
    if t == "isnone":
        return f"(EIsNone {expr_to_coq(e[1])})"
    if t == "eq":
        return f"(EEq {expr_to_coq(e[1])} {py_to_val(e[2])})"
    if t in ("and", "or"):
        return f"({'EAnd' if t == 'and' else 'EOr'} {expr_to_coq(e[1])} {expr_to_coq(e[2])})"
    if t == "if":
        return f"(EIf {expr_to_coq(e[1])} {expr_to_coq(e[2])} {expr_to_coq(e[3])})"
    if t == "raise":
        return "ERaise"
    raise Untranslatable(f"bad expression {e!r}")


def expr_consts(e, acc):
    t = e[0]
    if t == "const":
        acc.append(e[1])
    elif t == "eq":
        acc.append(e[2])
        expr_consts(e[1], acc)
    elif t in ("not", "isnone"):
        expr_consts(e[1], acc)
    elif t in ("and", "or"):
        expr_consts(e[1], acc)
        expr_consts(e[2], acc)
    elif t == "if":
        for x in e[1:]:
            expr_consts(x, acc)
    return acc


def expr_fields(e, acc):
    t = e[0]
    if t == "field":
        if e[1] not in acc:
            acc.append(e[1])
    elif t in ("not", "isnone", "eq"):
        expr_fields(e[1], acc)
    elif t in ("and", "or"):
        expr_fields(e[1], acc)
        expr_fields(e[2], acc)
    elif t == "if":
        for x in e[1:]:
            expr_fields(x, acc)
    return acc


# python-side reference evaluator of the expression language (used to replay counterexamples
# and to cross-check the Coq evaluation; mirrors Model/Serialise.v `eval`)
class Raised(Exception):
    pass


def py_truthy(v):
    return bool(v)


def py_eval(e, rec, env):
    t = e[0]
    if t == "field":
        return rec.get(e[1])
    if t == "ctx":
        if e[1] not in env:
            raise Raised(e[1])
        return env[e[1]]
    if t == "const":
        return e[1]
    if t == "not":
        return not py_truthy(py_eval(e[1], rec, env))
    if t == "isnone":
        return py_eval(e[1], rec, env) is None
    if t == "eq":
        return py_eval(e[1], rec, env) == e[2]
    if t == "and":
        a = py_eval(e[1], rec, env)
        return py_eval(e[2], rec, env) if py_truthy(a) else a
    if t == "or":
        a = py_eval(e[1], rec, env)
        return a if py_truthy(a) else py_eval(e[2], rec, env)
    if t == "if":
        return py_eval(e[2], rec, env) if py_truthy(py_eval(e[1], rec, env)) else py_eval(e[3], rec, env)
    if t == "raise":
        raise Raised("raise")
    raise ValueError(e)
