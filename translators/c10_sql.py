"""Translator for C10: takes the SQL text that each inference entry point really sent to the
database (captured by wrapping DatabaseAPI._execute_sql_against_backend inside the harness),
finds the scoring stages inside the CTE pipeline and emits them as Model.Scoring nx/bx
skeletons (via translators/c02_sql.py), plus
  * the outer filter of find_matches_to_new_records (SELECT * FROM __splink__df_predict WHERE
    match_weight <op> <literal>) and
  * the anti-join of _score_missing_cluster_edges (LEFT JOIN ... ON <on> WHERE <wh>) as a
    Model.EntryPoints.jbx pair.
Fail-closed: anything outside the expected shapes raises Untranslatable."""
from __future__ import annotations

import sqlglot
import sqlglot.expressions as E

from translators.c02_sql import OPS, Untranslatable, _num_literal, q, select_items_of, translate_selects


def capture(api, log: list, phase_box: dict):
    """instrument one DatabaseAPI instance: every statement is appended to log with the current phase"""
    inner = api._execute_sql_against_backend

    def wrapped(final_sql, _inner=inner):
        log.append((phase_box.get("phase"), final_sql))
        return _inner(final_sql)
    api._execute_sql_against_backend = wrapped


def stages(sql: str, dialect: str) -> dict:
    """CTE name -> SELECT, plus '__final__' for the statement's own SELECT"""
    try:
        t = sqlglot.parse_one(sql, read=dialect)
    except Exception as ex:
        raise Untranslatable(f"statement does not parse: {sql[:80]}") from ex
    if isinstance(t, E.Create):
        t = t.expression
    if not isinstance(t, E.Select):
        raise Untranslatable(f"not a SELECT statement: {type(t).__name__}")
    out = {}
    w = t.args.get("with_") or t.args.get("with")
    if w is not None:
        for cte in w.expressions:
            out[cte.alias] = cte.this
    out["__final__"] = t
    return out


def from_name(sel) -> str | None:
    f = sel.args.get("from_") or sel.args.get("from")
    if f is None or not isinstance(f.this, E.Table):
        return None
    return f.this.name


ROW_CLAUSES = ["where", "limit", "offset", "distinct", "joins", "group", "having", "qualify", "order", "windows", "sample",
               "cluster", "distribute", "sort", "laterals", "pivots", "match", "connect", "prewhere", "locks", "into", "kind"]


def require_plain(sel, name: str, allow=()):
    """a stage may only contain the clauses the model knows about: anything that can drop, duplicate or
    reorder-and-cut rows (WHERE / LIMIT / DISTINCT / JOIN / GROUP BY / HAVING / QUALIFY / ORDER BY ...) is refused"""
    if not isinstance(sel, E.Select):
        raise Untranslatable(f"{name}: not a plain SELECT ({type(sel).__name__})")
    for k in ROW_CLAUSES:
        if k in allow:
            continue
        if sel.args.get(k):
            raise Untranslatable(f"{name}: unexpected {k.upper()} clause")
    w = sel.args.get("with_") or sel.args.get("with")
    if w is not None and "with" not in allow:
        raise Untranslatable(f"{name}: nested WITH")


def _cols_of(expr):
    return list(expr.find_all(E.Column))


def bindings_of(src, name: str):
    """the stage that feeds the comparison vectors: which side and source column every <col>_l / <col>_r
    (incl. tf_<col>_l/_r) input is bound to, the two source tables and the join shape"""
    require_plain(src, name, allow=("joins",))
    f = src.args.get("from_") or src.args.get("from")
    if f is None or not isinstance(f.this, E.Table) or f.this.alias != "l":
        raise Untranslatable(f"{name}: FROM is not <table> AS l")
    tables = {"l": f.this.name}
    joins = src.args.get("joins") or []
    kinds = []
    pair_alias = None
    for j in joins:
        if not isinstance(j.this, E.Table):
            raise Untranslatable(f"{name}: join source {j.this.sql()[:60]}")
        kind = " ".join(x for x in [(j.side or "").upper(), (j.kind or "").upper()] if x) or "INNER"
        kinds.append((kind, j.this.alias, j))
    if len(kinds) == 1 and kinds[0][0] == "CROSS" and kinds[0][1] == "r" and kinds[0][2].args.get("on") is None:
        tables["r"] = kinds[0][2].this.name
        shape = "cross"
    elif len(kinds) == 2 and all(k[0] == "INNER" for k in kinds) and kinds[1][1] == "r":
        pair_alias = kinds[0][1]
        tables["r"] = kinds[1][2].this.name
        if kinds[0][2].this.name != "__splink__blocked_id_pairs":
            raise Untranslatable(f"{name}: pairs joined from {kinds[0][2].this.name}")
        keys = []
        for (kind, alias, j), side in zip(kinds, "lr"):
            on = j.args.get("on")
            if not (isinstance(on, E.EQ) and isinstance(on.expression, E.Column) and on.expression.table == pair_alias
                    and on.expression.name == f"join_key_{side}"):
                raise Untranslatable(f"{name}: join condition {on.sql()[:80] if on is not None else None}")
            cols = _cols_of(on.this)
            if not cols or any(c.table != side for c in cols):
                raise Untranslatable(f"{name}: key of side {side} mentions another table: {on.this.sql()[:80]}")
            keys.append(on.this.sql(dialect="duckdb"))
        import re as _re
        if _re.sub(r"\bl\.", "r.", keys[0]) != keys[1]:
            raise Untranslatable(f"{name}: the two join keys differ: {keys}")
        shape = "id_pairs"
    else:
        raise Untranslatable(f"{name}: join shape {[k[:2] for k in kinds]}")
    binds = []
    for it in src.expressions:
        if isinstance(it, E.Alias) and isinstance(it.this, E.Column) and it.this.table in ("l", "r"):
            binds.append((it.alias, it.this.table, it.this.name))
        elif isinstance(it, E.Alias) and it.alias == "match_key" and isinstance(it.this, E.Literal):
            continue
        elif isinstance(it, E.Column) and it.name == "match_key" and it.table == pair_alias:
            continue
        else:
            raise Untranslatable(f"{name}: select item {it.sql()[:60]}")
    return binds, tables, shape


def trace_source(st: dict, start: str, settings_obj, dialect: str, depth=0):
    """follow a side's source table back to a physical table, accepting only the stage shapes the model knows:
    pass-through SELECT *, uid/source_dataset fix-up (SELECT * , literal AS col), the TF join of ad-hoc records,
    and the cluster-id join of missing-edge scoring"""
    name = start
    for _ in range(8):
        sel = st.get(name)
        if sel is None:
            return
        items = list(sel.expressions)
        star_first = bool(items) and isinstance(items[0], E.Star)
        if star_first and all(isinstance(i, E.Alias) and isinstance(i.this, E.Literal) for i in items[1:]):
            require_plain(sel, name)
            nxt = from_name(sel)
            if nxt is None:
                raise Untranslatable(f"{name}: FROM is not a table")
            name = nxt
            continue
        if items and isinstance(items[0], E.Column) and isinstance(items[0].this, E.Star) and items[0].table == from_name(sel) \
                and name != "__splink__df_clusters_renamed":
            require_plain(sel, name, allow=("joins",))
            routes_of_select(sel, from_name(sel), settings_obj)          # validates join keys / sources, fail-closed
            name = from_name(sel)
            continue
        if name == "__splink__df_clusters_renamed":
            require_plain(sel, name, allow=("joins",))
            joins = sel.args.get("joins") or []
            f = sel.args.get("from_") or sel.args.get("from")
            if len(joins) != 1 or (joins[0].side or "").upper() != "LEFT" or joins[0].this.name != "__splink__df_concat_with_tf":
                raise Untranslatable(f"{name}: join shape")
            ca, ta = f.this.alias_or_name, joins[0].this.alias_or_name
            conj = list(joins[0].args["on"].flatten()) if isinstance(joins[0].args.get("on"), E.And) else [joins[0].args.get("on")]
            keys = set()
            for c in conj:
                if not (isinstance(c, E.EQ) and isinstance(c.this, E.Column) and isinstance(c.expression, E.Column)
                        and {c.this.table, c.expression.table} == {ca, ta} and c.this.name == c.expression.name):
                    raise Untranslatable(f"{name}: join condition {c.sql()[:80] if c is not None else None}")
                keys.add(c.this.name)
            want = {c.unquote().name for c in settings_obj.column_info_settings.unique_id_input_columns}
            if keys != want:
                raise Untranslatable(f"{name}: clusters joined to the records on {sorted(keys)}, identity is {sorted(want)}")
            if not (len(items) == 2 and isinstance(items[0], E.Alias) and items[0].alias == "_cluster_id"
                    and isinstance(items[1], E.Column) and isinstance(items[1].this, E.Star) and items[1].table == ta):
                raise Untranslatable(f"{name}: select list")
            return
        raise Untranslatable(f"{name}: unknown stage shape {sel.sql()[:80]}")
    raise Untranslatable(f"{start}: source chain too long")


def scoring_of(sql: str, settings_obj, tf_cols, dialect: str) -> dict | None:
    """the scoring skeletons found in one executed statement (None if it contains no scoring stage)"""
    if "__splink__df_match_weight_parts" not in sql:
        return None
    st = stages(sql, dialect)
    cv = st.get("__splink__df_comparison_vectors")
    parts = st.get("__splink__df_match_weight_parts")
    if cv is None or parts is None:
        raise Untranslatable("scoring pipeline without comparison-vector / match-weight-parts stage")
    if from_name(parts) != "__splink__df_comparison_vectors":
        raise Untranslatable(f"match-weight parts read from {from_name(parts)}")
    require_plain(cv, "comparison-vector stage")
    require_plain(parts, "match-weight-parts stage")
    src_name = from_name(cv)
    if src_name is None or src_name not in st:
        raise Untranslatable(f"comparison vectors read from {src_name}")
    binds, tables, shape = bindings_of(st[src_name], src_name)
    for side in "lr":
        trace_source(st, tables[side], settings_obj, dialect)
    preds = [(n, s) for n, s in st.items() if isinstance(s, E.Select) and "match_weight" in select_items_of(s)
             and from_name(s) == "__splink__df_match_weight_parts"]
    if len(preds) != 1:
        raise Untranslatable(f"{len(preds)} stages compute match_weight from the parts")
    pname, ptree = preds[0]
    require_plain(ptree, "predict stage", allow=("where", "with") if pname == "__final__" else ("where",))
    out = translate_selects(settings_obj, tf_cols, dialect, select_items_of(cv), select_items_of(parts), ptree)
    out["predict_stage"] = pname
    out["bindings"] = sorted(binds)
    out["join_shape"] = shape
    # an outer filter over the predict stage (find_matches)
    out["outer_where"] = "None"
    fin = st["__final__"]
    if pname != "__final__":
        require_plain(fin, "final select", allow=("where", "with"))
        if from_name(fin) != pname:
            # e.g. include_found_by_blocking_rules adds a projection stage; anything else is unknown
            raise Untranslatable(f"final select reads {from_name(fin)}, not the predict stage {pname}")
        items = fin.expressions
        if not (len(items) == 1 and isinstance(items[0], E.Star)):
            raise Untranslatable("final select over the predict stage is not SELECT *")
        w = fin.args.get("where")
        if w is not None:
            c = w.this
            if type(c) not in OPS or not (isinstance(c.this, E.Column) and c.this.name == "match_weight" and not c.this.table):
                raise Untranslatable(f"outer WHERE shape {c.sql()[:80]}")
            lit = _num_literal(c.expression)
            if lit is None:
                raise Untranslatable(f"outer WHERE literal {c.expression.sql()}")
            out["outer_where"] = f"(Some ({OPS[type(c)]}, {q(lit)}))"
    # the anti-join of missing-edge scoring
    out["anti_join"] = None
    bl = st.get("__splink__blocked_id_pairs")
    if bl is not None and from_name(bl) == "__splink__raw_blocked_id_pairs":
        out["anti_join"] = anti_join_of(bl)
    return out


JK = {("ne", "join_key_l"): "KNeL", ("ne", "join_key_r"): "KNeR", ("oe", "join_key_l"): "KOeL", ("oe", "join_key_r"): "KOeR"}


def _jk(t) -> str:
    if isinstance(t, E.Column) and (t.table, t.name) in JK:
        return JK[(t.table, t.name)]
    raise Untranslatable(f"join key {t.sql()}")


def _jb(t) -> str:
    if isinstance(t, E.Paren):
        return _jb(t.this)
    if isinstance(t, E.And):
        return f"(JAnd {_jb(t.this)} {_jb(t.expression)})"
    if isinstance(t, E.EQ):
        return f"(JEq {_jk(t.this)} {_jk(t.expression)})"
    if isinstance(t, E.Is) and isinstance(t.expression, E.Null):
        return f"(JIsNull {_jk(t.this)})"
    raise Untranslatable(f"anti-join condition {type(t).__name__}: {t.sql()[:80]}")


def anti_join_of(sel) -> str:
    """'None' (no join at all) or '(Some (on, wh))'"""
    f = sel.args.get("from_") or sel.args.get("from")
    if f.this.alias != "ne":
        raise Untranslatable("raw pairs not aliased ne")
    items = sel.expressions
    if not (len(items) == 1 and isinstance(items[0], E.Column) and isinstance(items[0].this, E.Star) and items[0].table == "ne"):
        raise Untranslatable(f"blocked pairs select list {[i.sql() for i in items]}")
    joins = sel.args.get("joins") or []
    if not joins:
        if sel.args.get("where") is not None:
            raise Untranslatable("WHERE without join in blocked-pairs stage")
        return "None"
    if len(joins) != 1:
        raise Untranslatable("more than one join in blocked-pairs stage")
    j = joins[0]
    if (j.side or "").upper() != "LEFT" or not isinstance(j.this, E.Table) or j.this.alias != "oe" \
            or j.this.name != "__splink__df_predict_with_join_keys":
        raise Untranslatable(f"join shape {j.sql()[:80]}")
    on, wh = j.args.get("on"), sel.args.get("where")
    if on is None or wh is None:
        raise Untranslatable("LEFT JOIN without ON / WHERE")
    return f"(Some ({_jb(on)}, {_jb(wh.this)}))"


# ---------------------------------------------------------------------------------------------
# the branches of term_frequencies._join_new_table_to_df_concat_with_tf_sql
# ---------------------------------------------------------------------------------------------
class _StubTable:
    def __init__(self, columns):
        self.columns = columns


class _StubLinker:
    def __init__(self, settings_obj, cached_names):
        self._settings_obj = settings_obj
        self._intermediate_table_cache = set(cached_names)      # only `name in cache` is used by the function


def tf_join_routes(settings_obj, dialect: str, cached_names, supplied_tf_cols, with_input_table=True) -> dict:
    """Calls the real generator for one cache state and reads, for every TF column of the model, which
    source its tf_ column comes from: 'RSupplied' | 'RRegistered' | 'RDistinct' | 'RNone'."""
    from splink.internals.input_column import InputColumn
    from splink.internals.term_frequencies import _join_new_table_to_df_concat_with_tf_sql, colname_to_tf_tablename

    tname = "__splink__adhoc_records"
    cols = [InputColumn(f"tf_{c}", sqlglot_dialect_str=dialect) for c in supplied_tf_cols]
    sql = _join_new_table_to_df_concat_with_tf_sql(_StubLinker(settings_obj, cached_names), tname,
                                                   _StubTable(cols) if with_input_table else None)
    try:
        t = sqlglot.parse_one(sql, read=dialect)
    except Exception as ex:
        raise Untranslatable(f"tf join does not parse: {sql[:80]}") from ex
    return routes_of_select(t, tname, settings_obj)


def routes_of_select(t, tname: str, settings_obj) -> dict:
    from splink.internals.term_frequencies import colname_to_tf_tablename
    if not isinstance(t, E.Select) or from_name(t) != tname:
        raise Untranslatable("tf join is not a SELECT from the ad-hoc table")
    require_plain(t, "tf join", allow=("joins",))
    items = list(t.expressions)
    if not (items and isinstance(items[0], E.Column) and isinstance(items[0].this, E.Star) and items[0].table == tname):
        raise Untranslatable("tf join does not start with <table>.*")
    joins = {}
    for j in t.args.get("joins") or []:
        if (j.side or "").upper() != "LEFT":
            raise Untranslatable(f"non-left join {j.sql()[:60]}")
        on = j.args.get("on")
        alias = j.this.alias_or_name
        if not (isinstance(on, E.EQ) and isinstance(on.this, E.Column) and isinstance(on.expression, E.Column)
                and on.this.table == tname and on.expression.table == alias and on.this.name == on.expression.name):
            raise Untranslatable(f"join condition {j.sql()[:80]}")
        if isinstance(j.this, E.Table):
            kind = ("table", j.this.name)
        elif isinstance(j.this, E.Subquery) and isinstance(j.this.this, E.Select):
            sub = j.this.this
            if not sub.args.get("distinct") or from_name(sub) != "__splink__df_concat_with_tf" or sub.args.get("where") is not None \
                    or sub.args.get("joins"):
                raise Untranslatable(f"subquery shape {sub.sql()[:80]}")
            kind = ("distinct", sorted(e.name for e in sub.expressions if isinstance(e, E.Column)))
        else:
            raise Untranslatable(f"join source {j.this.sql()[:60]}")
        if alias in joins:
            raise Untranslatable("duplicate join alias")
        joins[alias] = (kind, on.this.name)
    used = set()
    routes = {}
    produced = {}
    for it in items[1:]:
        if isinstance(it, E.Alias) and isinstance(it.this, E.Null):
            produced[it.alias] = ("null", None)
        elif isinstance(it, E.Column) and it.table in joins:
            produced[it.name] = ("col", it.table)
        else:
            raise Untranslatable(f"select item {it.sql()[:60]}")
    for col in settings_obj._term_frequency_columns:
        c = col.unquote().name
        tf = col.unquote().tf_name
        if tf not in produced:
            routes[c] = "RSupplied"
            continue
        how, alias = produced.pop(tf)
        if how == "null":
            routes[c] = "RNone"
            continue
        (kind, key) = joins[alias]
        used.add(alias)
        if key != c:
            raise Untranslatable(f"tf of {c} joined on {key}")
        if kind[0] == "table":
            if kind[1] != colname_to_tf_tablename(col):
                raise Untranslatable(f"tf of {c} read from table {kind[1]}")
            routes[c] = "RRegistered"
        else:
            if kind[1] != sorted([c, tf]):
                raise Untranslatable(f"distinct subquery for {c} selects {kind[1]}")
            routes[c] = "RDistinct"
    if produced or set(joins) - used:
        raise Untranslatable(f"unexplained select items / joins: {sorted(produced)} {sorted(set(joins) - used)}")
    return routes
