"""C06 translator: the dialect table  dialect -> function role -> (sql name, ge?, registered?, kind).

 * role -> sql name: the property of the real SplinkDialect object (dialects.py), cross-checked with the name
   that the real level creator of that role actually emits (parsed with the C16 translator);
 * ge?: the comparison operator of the emitted level SQL (`>=` means the level needs a similarity);
 * registered? / kind on SQLite: read *statically* from the AST of sqlite/database_api.py::_register_udfs
   (`from rapidfuzz.distance.X import distance|similarity as alias`, the `funcs_to_register` dict);
   on DuckDB (built-ins) and Spark (UDF jar) from the engine's own catalogue and a two-point probe
   (f('abc','abc'), f('abc','xyz')), which is also run on SQLite and must agree with the static reading.
Fail-closed: any unexpected AST shape raises Untranslatable.
"""
from __future__ import annotations

import ast
from pathlib import Path

from harness.common import REPO, coq_list, coq_string
from translators import c16_levels as L


class Untranslatable(Exception):
    pass


ROLES = {  # role -> (dialect property, level creator class name, constructor threshold)
    "levenshtein": ("levenshtein_function_name", "LevenshteinLevel", 1),
    "damerau_levenshtein": ("damerau_levenshtein_function_name", "DamerauLevenshteinLevel", 1),
    "jaro": ("jaro_function_name", "JaroLevel", 0.9),
    "jaro_winkler": ("jaro_winkler_function_name", "JaroWinklerLevel", 0.9),
    "jaccard": ("jaccard_function_name", "JaccardLevel", 0.9),
}


RAPIDFUZZ_MODULE = {"levenshtein": "Levenshtein", "damerau_levenshtein": "DamerauLevenshtein", "jaro": "Jaro", "jaro_winkler": "JaroWinkler"}
# pairs on which the documented metrics differ from their look-alikes (OSA vs unrestricted Damerau, Levenshtein vs Damerau,
# Jaro vs Jaro-Winkler): every backend must return the same value for the function a role emits
PROBE_PAIRS = [("ca", "abc"), ("brain", "briean"), ("martha", "marhata"), ("badc", "acbd"), ("ab", "ba"), ("martha", "marhta"),
               ("dixon", "dicksonx"), ("kitten", "sitting"), ("smith", "smtih"), ("abcd", "abcd"),
               # an EMPTY string is a value, not NULL (two empty strings are left out: Jaro convention differs by engine)
               ("", "x"), ("", "ng"), ("ab", "")]


def probe_values(ex, name):
    out = []
    for a, b in PROBE_PAIRS:
        v = ex(f"SELECT {name}('{a}', '{b}')")
        out.append(None if v is None else float(v))
    return out


def sqlite_registered_udfs():
    """static reading of SQLiteAPI._register_udfs: sql name -> ('similarity'|'distance'|'other', rapidfuzz module)"""
    src = (REPO / "splink/internals/sqlite/database_api.py").read_text()
    tree = ast.parse(src)
    fn = None
    for node in ast.walk(tree):
        if isinstance(node, ast.FunctionDef) and node.name == "_register_udfs":
            fn = node
    if fn is None:
        raise Untranslatable("_register_udfs not found")
    alias = {}
    direct = {}
    table = None
    for node in ast.walk(fn):
        if isinstance(node, ast.ImportFrom) and (node.module or "").startswith("rapidfuzz"):
            for a in node.names:
                kind = {"distance": "distance", "similarity": "similarity", "normalized_distance": "distance",
                        "normalized_similarity": "similarity"}.get(a.name)
                if kind is None:
                    raise Untranslatable(f"rapidfuzz import {a.name}")
                alias[a.asname or a.name] = (kind, node.module)
        if isinstance(node, ast.Assign) and len(node.targets) == 1 and isinstance(node.targets[0], ast.Name) \
                and node.targets[0].id == "funcs_to_register":
            if not isinstance(node.value, ast.Dict):
                raise Untranslatable("funcs_to_register is not a dict literal")
            table = node.value
        if isinstance(node, ast.Call) and isinstance(node.func, ast.Attribute) and node.func.attr == "create_function" \
                and node.args and isinstance(node.args[0], ast.Constant):
            direct[node.args[0].value] = ("other", "direct")
    if table is None:
        raise Untranslatable("funcs_to_register not found")
    # the loop `for sql_name, func in funcs_to_register.items(): create_function(sql_name, 2, wrap(func))` must exist
    loops = [n for n in ast.walk(fn) if isinstance(n, ast.For) and isinstance(n.iter, ast.Call)
             and isinstance(n.iter.func, ast.Attribute) and isinstance(n.iter.func.value, ast.Name)
             and n.iter.func.value.id == "funcs_to_register"]
    if len(loops) != 1:
        raise Untranslatable("registration loop over funcs_to_register not found")
    out = dict(direct)
    for k, v in zip(table.keys, table.values):
        if not (isinstance(k, ast.Constant) and isinstance(k.value, str) and isinstance(v, ast.Name) and v.id in alias):
            raise Untranslatable("funcs_to_register entry shape")
        out[k.value] = alias[v.id]
    return out


def probe(con_exec, name):
    """two-point probe of a 2-argument string function: 'similarity' / 'distance' / 'other' / None (absent)"""
    try:
        same = con_exec(f"SELECT {name}('abcd', 'abcd')")
        diff = con_exec(f"SELECT {name}('abcd', 'wxyz')")
    except Exception:
        return None
    try:
        same, diff = float(same), float(diff)
    except (TypeError, ValueError):
        return "other"
    if same == 0 and diff > 0:
        return "distance"
    if same > diff and same > 0:
        return "similarity"
    return "other"


def engine_exec(d):
    if d == "duckdb":
        import duckdb
        con = duckdb.connect()
        return lambda q: con.execute(q).fetchall()[0][0]
    if d == "sqlite":
        from harness import splink_util as su
        con = su.sqlite_api().con
        return lambda q: list(con.execute(q).fetchall()[0].values())[0]
    raise KeyError(d)


def emitted(role, d):
    """(sql function name, ge?) of the level the library emits for this role in dialect d; None if unsupported"""
    import splink.comparison_level_library as cll
    prop, cls, thr = ROLES[role]
    try:
        sql = getattr(cll, cls)("name", thr).get_comparison_level(d).sql_condition
    except (NotImplementedError, ValueError):
        return None
    t = L.parse_sql(sql, d)
    if t[0] != "cmp" or t[1] not in ("CGe", "CLe") or t[2][0] != "fn" or len(t[2][2]) != 2:
        raise Untranslatable(f"level shape for {role} on {d}: {sql}")
    return t[2][1], t[1] == "CGe", sql


def extract(dialects, spark_exec=None):
    from splink.internals.dialects import SplinkDialect
    table = {}
    notes = {}
    for d in dialects:
        dia = SplinkDialect.from_string(d)
        ex = spark_exec if d == "spark" else engine_exec(d)
        static = sqlite_registered_udfs() if d == "sqlite" else None
        rows = []
        for role, (prop, cls, thr) in ROLES.items():
            try:
                name = getattr(dia, prop)
            except NotImplementedError:
                name = None
            em = emitted(role, d)
            if name is None and em is None:
                continue
            if name is None or em is None:
                raise Untranslatable(f"{d}/{role}: dialect property {name!r} but level {'raises' if em is None else 'emits'}")
            if em[0] != name.lower():
                raise Untranslatable(f"{d}/{role}: level emits {em[0]} but dialect property is {name}")
            pk = probe(ex, name)
            if d == "spark" and pk is None:
                # Scala UDF jar absent on the installed Spark 4: the role cannot be executed in this sandbox
                notes[f"{d}:{role}"] = {"probe": None, "skipped": "function unavailable on the installed Spark (no UDF jar)"}
                continue
            if static is not None:
                st = static.get(name)
                registered = st is not None
                kind = st[0] if st else "other"
                notes[f"{d}:{role}"] = {"static": st, "probe": pk}
                if registered and pk is not None and pk != kind:
                    raise Untranslatable(f"{d}/{role}: static reading says {kind}, probe says {pk}")
                if st and st[1] != "direct" and st[1].rsplit(".", 1)[-1] != RAPIDFUZZ_MODULE[role]:
                    # a distance / similarity, but of another metric than the role documents (e.g. OSA for Damerau-Levenshtein)
                    notes[f"{d}:{role}:module"] = {"bound_to": st[1], "documented": "rapidfuzz.distance." + RAPIDFUZZ_MODULE[role]}
                    kind = "other"
                if registered != (pk is not None):
                    raise Untranslatable(f"{d}/{role}: static reading registered={registered}, probe {pk}")
            else:
                registered = pk is not None
                kind = pk or "other"
                notes[f"{d}:{role}"] = {"probe": pk}
            rows.append({"role": role, "sqlname": name, "ge": em[1], "registered": registered, "kind": kind, "sql": em[2]})
        table[d] = rows
    return table, notes


def coq_table(table) -> str:
    K = {"similarity": "Similarity", "distance": "Distance", "other": "OtherKind"}
    ds = []
    for d, rows in table.items():
        es = [f"{{| f_role := {coq_string(r['role'])}; f_sqlname := {coq_string(r['sqlname'])}; f_ge := {'true' if r['ge'] else 'false'}; "
              f"f_registered := {'true' if r['registered'] else 'false'}; f_kind := {K[r['kind']]} |}}" for r in rows]
        ds.append(f"({coq_string(d)}, {coq_list(es, 'fentry')})")
    return coq_list(ds, "(string * list fentry)%type")
