"""C20 translator (syntactic tie): the five SQL snippets modelled in Model/Descriptive.v are
regenerated from /repo on every run, parsed with sqlglot and reduced to a normal form (generic
dialect, whitespace/case-normalised, physical table names templated); each must equal the
form the model was written against.  A difference does not mean the property fails - it means
the model must be re-audited; the correspondence X then searches for a failing input.
Fail-closed: anything that cannot be produced or parsed raises Untranslatable."""
from __future__ import annotations

import re

import sqlglot


class Untranslatable(Exception):
    pass


def norm(sql: str) -> str:
    try:
        tree = sqlglot.parse_one(sql)
    except Exception as e:  # noqa: BLE001
        raise Untranslatable(f"cannot parse: {e}")
    s = tree.sql(normalize=True, pretty=False)
    s = re.sub(r"\s+", " ", s).strip().lower()
    return s


class _Lk:
    """the minimal linker surface the SQL generators read"""

    class _S:
        def __init__(self, gammas):
            self.comparisons = [type("C", (), {"_gamma_column_name": g})() for g in gammas]

    def __init__(self, gammas):
        self._settings_obj = _Lk._S(gammas)


def snippets() -> dict[str, str]:
    from splink.internals.comparison_vector_distribution import comparison_vector_distribution_sql
    from splink.internals.input_column import InputColumn
    from splink.internals.match_weights_histogram import _hist_sql
    from splink.internals.term_frequencies import term_frequencies_for_single_column_sql
    out = {}
    out["tf"] = norm(term_frequencies_for_single_column_sql(InputColumn("a", sqlglot_dialect_str="duckdb")))
    out["cvd"] = norm(comparison_vector_distribution_sql(_Lk(["gamma_a", "gamma_b"])))
    h = _hist_sql(0.5)
    out["hist_raw"] = norm(h[0]["sql"])
    out["hist"] = norm(h[1]["sql"])
    # completeness and unlinkables build their SQL inline: read the f-string templates from the source
    import inspect

    import splink.internals.completeness as comp
    import splink.internals.unlinkables as unl
    src = inspect.getsource(comp.completeness_data)
    # one UNION ALL member per column: select * from (select ... group by ... order by ...) as completeness_of_<i>
    m = re.search(r'sql = f"""\s*(select \* from \(select.*?\) as completeness_of_\{len\(sqls\)\})\s*"""', src, flags=re.S)
    if not m:
        raise Untranslatable("completeness per-column template not found")
    t = m.group(1)
    t = t.replace("{internal_source_colname}", "src").replace("{quoted_col}", "col").replace("{unquoted_col}", "col")
    t = t.replace("completeness_of_{len(sqls)}", "completeness_of_i")
    out["completeness"] = norm(t)
    src = inspect.getsource(unl.unlinkables_data)
    parts = re.findall(r'sql = f?"""(.*?)"""', src, flags=re.S)
    if len(parts) != 3:
        raise Untranslatable(f"unlinkables: expected 3 SQL templates, found {len(parts)}")
    # the stacking of several input tables (bag semantics: UNION ALL)
    from splink.internals.vertically_concatenate import vertically_concatenate_sql

    class _DF:
        def __init__(self, name):
            self.physical_name = name + "_phys"
            self.templated_name = name
            self.columns_escaped = ['"a"', '"b"']
            self.columns = []
    out["vertical_concat"] = norm(vertically_concatenate_sql({"t1": _DF("t1"), "t2": _DF("t2"), "t3": _DF("t3")},
                                                             salting_required=False, source_dataset_input_column=None))
    out["unlinkables_round"] = norm(parts[0].replace("{self_link_df.physical_name}", "self_link"))
    out["unlinkables_prop"] = norm(parts[1])
    out["unlinkables_cum"] = norm(parts[2])
    return out


# the forms Model/Descriptive.v was written against
EXPECTED = {'completeness': "select * from (select src as source_dataset, 'col' as column_name, count(*) - count(col) "
                 'as total_null_rows, count(*) as total_rows_inc_nulls, cast(count(col) * 1.0 / count(*) as '
                 'float) as completeness from __splink__df_concat_with_source_dataset group by src order by '
                 'count(*) desc) as completeness_of_i',
 'cvd': "select gamma_a || ',' || gamma_b as gam_concat, (case when gamma_a = -1 then 0 when gamma_a = 0 "
        'then -1 else gamma_a end) + (case when gamma_b = -1 then 0 when gamma_b = 0 then -1 else gamma_b '
        'end) as sum_gam, count(*) as count_rows_in_comparison_vector_group, cast(count(*) as float) / '
        '(select count(*) from __splink__df_predict) as proportion_of_comparisons, gamma_a, gamma_b from '
        '__splink__df_predict group by gamma_a, gamma_b order by (case when gamma_a = -1 then 0 when gamma_a '
        '= 0 then -1 else gamma_a end) + (case when gamma_b = -1 then 0 when gamma_b = 0 then -1 else '
        'gamma_b end)',
 'hist': 'select *, splink_score_bin_low + cast(0.5 as float) as splink_score_bin_high from '
         '__splink__df_hist_raw',
 'hist_raw': 'select 0.5 * floor(match_weight / 0.5) as splink_score_bin_low, 0.5 as binwidth, count(*) as '
             'count_rows from __splink__df_predict group by 0.5 * floor(match_weight / 0.5) order by 0.5 * '
             'floor(match_weight / 0.5) asc',
 'tf': 'select "a", cast(count(*) as double) / (select count("a") as total from __splink__df_concat) as '
       '"tf_a" from __splink__df_concat where not "a" is null group by "a"',
 'unlinkables_cum': 'select *, sum(prop) over (order by match_probability) as cum_prop from '
                    '__splink__df_unlinkables_proportions where match_probability < 1',
 'unlinkables_prop': 'select max(match_weight) as match_weight, match_probability, count(*) / '
                     'cast(sum(count(*)) over () as float) as prop from __splink__df_round_self_link group '
                     'by match_probability order by match_probability',
 'unlinkables_round': 'select round(match_weight, 2) as match_weight, round(match_probability, 5) as '
                      'match_probability from self_link',
 'vertical_concat': 'select \'t1\' as source_dataset, "a", "b" from t1_phys union all select \'t2\' as '
                    'source_dataset, "a", "b" from t2_phys union all select \'t3\' as source_dataset, "a", '
                    '"b" from t3_phys'}
