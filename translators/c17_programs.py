"""C17: programs (effect traces) of every creator class x entry method, and the purity of
ColumnExpression's builder methods and operations, as Coq text for coq/gen/C17_gen.v."""
from __future__ import annotations

import collections
import inspect

from translators import c17_effects as E


def dialect_classes():
    from splink.internals.dialects import SplinkDialect

    def sub(c):
        out = set()
        for s in c.__subclasses__():
            out.add(s)
            out |= sub(s)
        return out
    return sub(SplinkDialect)


def creator_programs(grid, entries):
    """one program per (class, entry method)"""
    dcls = dialect_classes()
    bycls = collections.OrderedDict()
    for it in grid:
        bycls.setdefault((it["kind"], it["cls"]), []).append(it)
    from splink.internals.column_expression import ColumnExpression
    hints = {"ColumnExpression": {ColumnExpression},
             "ComparisonLevelCreator": {it["cls"] for it in grid if it["kind"] == "level"},
             "BlockingRuleCreator": {it["cls"] for it in grid if it["kind"] == "blocking"},
             "ComparisonCreator": {it["cls"] for it in grid if it["kind"] == "comparison"}}
    out = []
    for (kind, cls), items in bycls.items():
        samples = []
        for it in items:
            try:
                samples.append(it["make"]())
            except Exception:      # reported by the correspondence stage with the grid item as input
                pass
        extra = ["__init__", "__init__(arguments)"] + (["from_path_or_dict(arguments)"] if kind == "settings" else [])
        for entry in list(entries[kind]) + extra:
            name = f"{cls.__module__.split('.')[-1]}.{cls.__name__}.{entry}"
            try:
                if entry.endswith("(arguments)"):
                    r = E.analyse_arguments(cls, entry.split("(")[0], samples, dcls, hints)
                elif entry == "__init__":
                    r = E.analyse_constructor(cls, samples, dcls)
                else:
                    r = E.analyse(cls, entry, samples, dcls)
            except Exception as e:       # analyser failure = unknown effects (fail-closed)
                r = {"program": [("mut", f"<unknown analyser failure {type(e).__name__}>", [], False)], "out_reads": [],
                     "out_arg": True, "unknown": [repr(e)[:200]], "inlined": [], "assumed_pure": []}
            W = E.written_paths(r["program"])
            prog = E.closed_program(r["program"], W)
            out.append({"name": name, "kind": kind, "cls": cls, "entry": entry, "program": prog, "written": sorted(W),
                        "out_reads": [E.OUT], "out_arg": r["out_arg"],
                        "unknown": r["unknown"], "inlined": r["inlined"], "assumed_pure": r["assumed_pure"],
                        "skipped": r.get("skipped", {})})
    return out


def static_only(prog):
    """keep only what touches module / class / default state (a callee's locals are its own business)"""
    out = []
    for st in prog:
        if st[0] in ("set", "mut"):
            if E.is_static(st[1]) or st[1].startswith(("<unknown", "<escape")):       # not "<unordered": a callee's own business
                out.append(("mut", st[1], [], False))
        elif st[0] == "if":
            b, o = static_only(st[3]), static_only(st[4])
            if b or o:
                out.append(("if", [], False, b, o))
    return out


def callee_programs(progs):
    """every package callee that some creator program did not inline, transitively: one program each,
    reduced to its writes of shared state"""
    dcls = dialect_classes()
    work = {}
    for p in progs:
        work.update(p.get("skipped", {}))
    done, out = {}, []
    while work:
        q, (fn, owner) = work.popitem()
        if q in done:
            continue
        done[q] = True
        try:
            prog, more = E.analyse_callee(fn, owner, dcls)
        except Exception as e:
            prog, more = [("mut", f"<unknown analyser failure {type(e).__name__} in {q}>", [], False)], {}
        for k, v in more.items():
            if k not in done:
                work[k] = v
        red = static_only(prog)
        if q in E.ALLOWED_STATE:
            red = []
        out.append({"name": f"callee.{q}", "kind": "callee", "entry": "callee", "program": [("set", E.OUT, [], False)] + red,
                    "written": sorted(E.written_paths(red)), "out_reads": [E.OUT], "out_arg": True, "unknown": [],
                    "inlined": [], "assumed_pure": []})
    return sorted(out, key=lambda p: p["name"])


def column_expression_programs():
    """builder methods must return clones and leave the receiver untouched; operations
    (_*_dialected) and the name properties must not write anything"""
    from splink.internals.column_expression import ColumnExpression as CE
    dcls = dialect_classes()
    sample = [CE("name"), CE("name").lower().substr(1, 2), CE("a || b")]
    for s in sample:
        s.sql_dialect = next(iter(sorted(dcls, key=lambda c: c.__name__)))()
    out = []
    for name, raw in sorted(vars(CE).items()):
        fn = raw.fget if isinstance(raw, property) else (raw.__func__ if isinstance(raw, (staticmethod, classmethod)) else raw)
        if not inspect.isfunction(fn) or name in ("__init__",):
            continue
        rawtypes: dict = {}
        for s in sample:
            E.collect_types(s, rawtypes)
        types = {p: {c for c in cs if c.__module__.split(".")[0] == E.PKG} for p, cs in rawtypes.items()}
        an = E.Analyser({p: cs for p, cs in types.items() if cs}, dcls, rawtypes)
        selfv = E.V(aliases={""}, classes={CE})
        params = list(inspect.signature(fn).parameters)
        args = [selfv] + [E.V(arg=True) for _ in params[1:]] if not isinstance(raw, staticmethod) else [E.V(arg=True) for _ in params]
        E._AN[0] = an
        try:
            ret = an.inline(fn, args, {})
            ret_aliases = set(ret.aliases)
            ret = E.merge(ret, E.pure_of(ret))
            prog = an.blocks[0]
        except Exception as e:
            prog = [("mut", f"<unknown analyser failure {type(e).__name__}>", [], False)]
            ret = E.V()
            ret_aliases = set()
        finally:
            E._AN[0] = None
        W = E.written_paths(prog)
        is_builder = not name.startswith("_") and not isinstance(raw, (property, staticmethod)) and name not in ("apply_operations",)
        returns_self = "" in ret_aliases
        out.append({"name": f"column_expression.ColumnExpression.{name}", "program": E.closed_program(prog, W),
                    "written": sorted(W), "out_reads": [E.OUT], "out_arg": True,
                    "builder": is_builder, "returns_receiver": bool(is_builder and returns_self),
                    "unknown": an.unknown})
    return out


HEADER = """(* GENERATED by translators/c17_programs.py from the working tree of Splink - do not edit *)
From Coq Require Import List Bool String.
From Splinkv Require Import Model.Creators.
Import ListNotations.
Open Scope string_scope.
Open Scope list_scope.
"""


def gen_text(progs):
    parts = [HEADER]
    for i, p in enumerate(progs):
        parts.append(f"Definition prog_{i} : list stmt := {E.prog_to_coq(p['program'])}.")
        parts.append(f"Definition out_{i} : aexpr := {E.aexpr('out', p['out_reads'], p['out_arg'])}.")
    parts.append("Definition all_progs : list (string * (list stmt * aexpr)) := [%s]." % "; ".join(
        f"({E.cstr(p['name'])}, (prog_{i}, out_{i}))" for i, p in enumerate(progs)))
    parts.append("Eval vm_compute in (map (fun x => (fst x, pure (fst (snd x)) (snd (snd x)))) all_progs).")
    parts.append("Eval vm_compute in (map (fun x => (fst x, filter (fun c => negb (wclass_eqb (snd c) SetFromArg)) "
                 "(summary (fst (snd x))))) all_progs).")
    parts.append("Eval vm_compute in (map (fun x => (fst x, filter (fun a => negb (is_dialect_slot a)) "
                 "(writes (fst (snd x))))) all_progs).")
    return "\n".join(parts) + "\n"
