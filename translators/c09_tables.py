"""C09 translator: regenerates, from the working tree of Splink, the rule tables of every
serialiser and the loaders of every constructor on the save / reload / construction paths and
assembles them into *pipelines* (lists of save+load stages) for the Coq checker
`pipeline_ok` of Model/Serialise.v.

Extracted from the code (every run): the rule tables (`as_dict`, `create_level_dict`,
`create_comparison_dict`, `create_blocking_rule_dict`), the loaders (signatures, defaults and
`self.attr = ...` bodies of the constructors), the set of configurable parameters, the class
dispatch of `blocking_rule_to_obj`.
Written by hand here (the *specification* side): which field must come back as what
(`spec`), which classes of values a field may hold (`allowed`), which fields are only meaningful
together (`cons`).
"""
from __future__ import annotations

import ast
import dataclasses
import inspect
import textwrap

from translators.c09_symexec import (FALSE, NONE, TRUE, Child, Cond, DictSym, Obj, SymExec, Untranslatable,
                                      class_ast, coq_str, expr_consts, expr_fields, expr_to_coq, find_member,
                                      is_expr, mk_if, own_functions, py_to_val)

BASE_K = [None, False, True, 0, "", []]


# ------------------------------------------------------------------------- helpers
def ann_kind(ann: str, default):
    a = str(ann)
    if "bool" in a:
        return "bool"
    if "float" in a or "int" in a:
        return "num"
    if "List" in a or "list" in a:
        return "list"
    if "str" in a or "Literal" in a:
        return "str"
    if isinstance(default, bool):
        return "bool"
    if isinstance(default, (int, float)):
        return "num"
    if isinstance(default, str):
        return "str"
    if isinstance(default, list):
        return "list"
    return "any"


def same_const(a, b):
    if isinstance(a, bool) or isinstance(b, bool):
        return isinstance(a, bool) and isinstance(b, bool) and a == b
    if a is None or b is None:
        return a is None and b is None
    if isinstance(a, (int, float)) and isinstance(b, (int, float)):
        return a == b
    return type(a) is type(b) and a == b


def dedup_consts(cs):
    out = []
    for c in cs:
        if isinstance(c, (dict, tuple)):
            continue
        if not any(same_const(c, o) for o in out):
            out.append(c)
    return out


def classes_for(kind, optional, K, nonempty=False, extra=()):
    """list of python-side classes: ("C", const) or ("G",)"""
    out = []
    if optional:
        out.append(("C", None))
    if kind == "none":
        return [("C", None)]
    if kind == "bool":
        out += [("C", False), ("C", True)]
    elif kind == "num":
        out += [("C", k) for k in K if isinstance(k, (int, float)) and not isinstance(k, bool)
                and not (nonempty and k == 0)] + [("G",)]
    elif kind == "str":
        out += [("C", k) for k in K if isinstance(k, str) and not (nonempty and k == "")] + [("G",)]
    elif kind == "list":
        out += ([] if nonempty else [("C", [])]) + [("G",)]
    else:
        out += [("C", k) for k in K if k is not None] + [("G",)]
    for e in extra:
        if e not in out:
            out.append(e)
    return out


def cls_to_coq(c):
    return "CG" if c[0] == "G" else f"(CC {py_to_val(c[1])})"


class Stage:
    def __init__(self, name, rules, loader, children=None):
        self.name = name
        self.rules = rules            # list of (key, guard expr, value expr)
        self.loader = loader          # list of (key, default, post expr, required)
        self.children = children or []

    def to_coq(self):
        rs = "; ".join("{| r_key := %s; r_guard := %s; r_val := %s |}" % (coq_str(k), expr_to_coq(g), expr_to_coq(v))
                       for k, g, v in self.rules)
        ls = "; ".join("{| l_key := %s; l_default := %s; l_post := %s |}" % (coq_str(k), py_to_val(d), expr_to_coq(p))
                       for k, d, p, _ in self.loader)
        return "{| s_rules := [%s]; s_loader := [%s] |}" % (rs, ls)

    def consts(self):
        acc = []
        for _, g, v in self.rules:
            expr_consts(g, acc)
            expr_consts(v, acc)
        for _, d, p, _ in self.loader:
            acc.append(d)
            expr_consts(p, acc)
        return acc


class Pipeline:
    def __init__(self, name, stages, fields, spec, cons=None, doc="", findings_hint=None):
        self.name = name
        self.stages = stages
        self.fields = fields          # input record: list of (field, kind, optional, nonempty)
        self.spec = spec              # target key -> spec expr   (only listed keys are targets)
        self.cons = cons or []        # (f1, class, f2, [classes])
        self.doc = doc
        self.findings_hint = findings_hint or {}
        self.untranslatable = None
        self.paths = {}               # field -> attribute path on the real object (first stage's input)

    # ------------------------------------------------------------- derived
    def K(self):
        acc = list(BASE_K)
        for st in self.stages:
            acc += st.consts()
        for e in self.spec.values():
            expr_consts(e, acc)
        return dedup_consts(acc)

    def allowed(self):
        K = self.K()
        out = []
        for f, kind, optional, nonempty in self.fields:
            out.append((f, classes_for(kind, optional, K, nonempty)))
        return out

    def hints(self):
        """for every target: the input fields its value can depend on (over-approximate by a
        fixed point through the stages; an incomplete hint can only make the check fail)"""
        dep_tables = []
        for st in self.stages:
            dep = {}
            rules = {k: (g, v) for k, g, v in st.rules}
            for k, d, p, _ in st.loader:
                kw = {}
                # fields of the kwargs the post expression reads
                for kk in expr_fields(p, []):
                    acc = []
                    if kk in rules:
                        expr_fields(rules[kk][0], acc)
                        expr_fields(rules[kk][1], acc)
                    kw[kk] = acc
                dep[k] = sorted({x for v in kw.values() for x in v})
            dep_tables.append(dep)
        out = {}
        for tgt, spec in self.spec.items():
            need = {tgt}
            for dep in reversed(dep_tables):
                nxt = set()
                for k in need:
                    nxt |= set(dep.get(k, []))
                need = nxt
            need |= set(expr_fields(spec, []))
            declared = [f for f, *_ in self.fields]
            out[tgt] = [f for f in declared if f in need]
        return out

    def to_coq(self, prefix):
        K = self.K()
        safe = "".join(c for c in self.doc if c.isalnum() or c in " _.,:;->/=")
        lines = [f"(* pipeline {self.name}: {safe} *)"]
        lines.append(f"Definition {prefix}_K : list val := [{'; '.join(py_to_val(k) for k in K)}].")
        al = "; ".join("(%s, [%s])" % (coq_str(f), "; ".join(cls_to_coq(c) for c in cs)) for f, cs in self.allowed())
        lines.append(f"Definition {prefix}_allowed : list (string * list cls) := [{al}].")
        cs = "; ".join("(%s, %s, %s, [%s])" % (coq_str(f1), cls_to_coq(c1), coq_str(f2), "; ".join(cls_to_coq(c) for c in c2))
                       for f1, c1, f2, c2 in self.cons)
        lines.append(f"Definition {prefix}_cons : list constr := [{cs}].")
        lines.append(f"Definition {prefix}_stages : list stage := [{'; '.join(st.to_coq() for st in self.stages)}].")
        hints = self.hints()
        tg = "; ".join("{| t_key := %s; t_spec := %s; t_hint := [%s] |}" % (
            coq_str(k), expr_to_coq(e), "; ".join(coq_str(h) for h in hints[k])) for k, e in self.spec.items())
        lines.append(f"Definition {prefix}_targets : list target := [{tg}].")
        lines.append(f"Definition {prefix}_ok : bool := pipeline_ok {prefix}_K {prefix}_allowed {prefix}_cons {prefix}_stages {prefix}_targets.")
        lines.append(f"Definition {prefix}_cex := pipeline_cex {prefix}_K {prefix}_allowed {prefix}_cons {prefix}_stages {prefix}_targets.")
        return "\n".join(lines)


# ------------------------------------------------------------------------- class -> record view
def ctor_params(cls):
    sig = inspect.signature(cls.__init__)
    out = []
    for name, p in sig.parameters.items():
        if name == "self" or p.kind in (p.VAR_POSITIONAL, p.VAR_KEYWORD):
            continue
        out.append((name, p.default, str(p.annotation)))
    return out


def record_view(sx: SymExec, cls, param_to_field: dict, external: dict | None = None):
    """Construct `cls` symbolically with parameter p bound to record field param_to_field[p]
    (parameters not listed are bound to opaque context).  Returns (stored object, post dict):
    the stored object's attributes read as record fields; post[field] is the constructor's
    expression for the attribute over the keyword arguments."""
    external = external or {}
    kwargs = {}
    for name, _, _ in ctor_params(cls):
        if name in param_to_field:
            kwargs[name] = ("field", param_to_field[name])
        else:
            kwargs[name] = external.get(name, sx.ctx(f"{cls.__name__}({name}=...)"))
    init = sx.construct(cls, [], kwargs)
    if not isinstance(init, Obj):
        raise Untranslatable(f"cannot construct {cls.__name__}")
    post: dict = {}
    claimed: dict = {}
    paths: dict = {}

    def view(obj: Obj, top: bool, prefix=""):
        stored = Obj(obj.cls, {})
        for attr, v in obj.attrs.items():
            if is_expr(v) and v[0] == "field":
                paths.setdefault(v[1], prefix + attr)
            if is_expr(v):
                flds = expr_fields(v, [])
                if v[0] == "field":
                    stored.attrs[attr] = v
                    post.setdefault(v[1], v)
                    claimed.setdefault(v[1], []).append(attr)
                elif attr.lstrip("_") in flds and top:
                    # `self.x = x or <default computed from other arguments>`
                    p = attr.lstrip("_")
                    stored.attrs[attr] = ("field", p)
                    claimed.setdefault(p, []).append(attr)
                    paths.setdefault(p, prefix + attr)
                    post[p] = v
                elif len(flds) == 1 and top:
                    stored.attrs[attr] = ("field", flds[0])
                    claimed.setdefault(flds[0], []).append(attr)
                    paths.setdefault(flds[0], prefix + attr)
                    post[flds[0]] = v
                elif not flds:
                    stored.attrs[attr] = sx.ctx(f"{obj.cls.__name__}.{attr}")
                else:
                    stored.attrs[attr] = sx.ctx(f"{obj.cls.__name__}.{attr} (derived)")
            elif isinstance(v, Obj):
                stored.attrs[attr] = view(v, False, prefix + attr + ".")
            elif isinstance(v, Cond):
                e = sx.to_expr(v)
                flds = expr_fields(e, [])
                if len(flds) == 1 and top and isinstance(v.a, tuple) and v.a == ("field", flds[0]):
                    # `if p: self.a = p` : attribute possibly unset
                    stored.attrs[attr] = ("field", flds[0])
                    post.setdefault(flds[0], ("field", flds[0]))
                    claimed.setdefault(flds[0], []).append(attr)
                    paths.setdefault(flds[0], prefix + attr)
                else:
                    stored.attrs[attr] = sx.ctx(f"{obj.cls.__name__}.{attr}")
            else:
                stored.attrs[attr] = sx.ctx(f"{obj.cls.__name__}.{attr}")
        return stored

    stored = view(init, True)
    for f, attrs in claimed.items():
        if len(attrs) > 1:
            # the same parameter stored twice: reading any copy gives the field
            sx.note(f"{cls.__name__}: parameter {f} is stored in several attributes {attrs}")
    stored.paths = paths
    return stored, post


def loader_entries(cls, fields: dict, post: dict, defaults_override=None):
    """fields: param -> record field name.  Loader entries in constructor order."""
    out = []
    for name, default, _ in ctor_params(cls):
        if name not in fields:
            continue
        f = fields[name]
        required = default is inspect.Parameter.empty
        d = None if required else default
        if defaults_override and f in defaults_override:
            d = defaults_override[f]
        out.append((f, d, post.get(f, ("field", f)), required))
    return out


def dict_to_rules(sx, d, drop=(), child_keys=()):
    if not isinstance(d, DictSym):
        raise Untranslatable(f"serialiser does not return a dict literal/dict built by assignments: {d!r}")
    rules, children = [], []
    for k, g, v in d.entries:
        if k in drop:
            continue
        if k in child_keys and not isinstance(v, Child):
            v = Child("<list built by the creator>", "<dict>")
        if isinstance(v, Child):
            if g != TRUE:
                raise Untranslatable(f"structural child {k} emitted conditionally")
            children.append((k, v.iter_src, v.method))
            continue
        rules.append((k, sx.to_expr(g), sx.to_expr(v)))
    return rules, children


def method_table(sx, cls, method, stored, args=None, drop=(), child_keys=()):
    m = find_member(cls, method, kinds=("method",))
    if m is None:
        raise Untranslatable(f"{cls.__name__}.{method} not found")
    _, fd, defcls = m
    a = fd.args
    names = [p.arg for p in a.args][1:]
    argv = [(args or {}).get(n, sx.ctx(f"argument {n}")) for n in names]
    d = sx.call_function(fd, stored, defcls, argv, {})
    return dict_to_rules(sx, d, drop, child_keys)


def fields_from_params(cls, names, overrides=None):
    """(field, kind, optional, nonempty) for the listed constructor parameters"""
    overrides = overrides or {}
    out = []
    params = {n: (d, a) for n, d, a in ctor_params(cls)}
    for n in names:
        d, a = params[n]
        required = d is inspect.Parameter.empty
        kind = ann_kind(a, None if required else d)
        optional = (not required and d is None) or "None" in a or "Optional" in a
        nonempty = False
        if n in overrides:
            kind, optional, nonempty = overrides[n]
        out.append((n, kind, optional, nonempty))
    return out


def normalised_body(fd: ast.FunctionDef):
    body = [s for s in fd.body if not (isinstance(s, ast.Expr) and isinstance(s.value, ast.Constant))]
    return "\n".join(ast.dump(s) for s in body)


def expect_body(cls, method, expected_src, what):
    m = find_member(cls, method, kinds=("method", "staticmethod", "classmethod"))
    if m is None:
        raise Untranslatable(f"{cls.__name__}.{method} not found")
    exp = ast.parse(textwrap.dedent(expected_src)).body[0]
    if normalised_body(m[1]) != normalised_body(exp):
        raise Untranslatable(f"{cls.__name__}.{method} no longer has the shape this translator models ({what})")


# ------------------------------------------------------------------------- the pipelines
CONFIGURE_SHAPE = '''
def configure(self):
    args = locals()
    del args["self"]
    for k, v in args.items():
        if v is not unsupplied_option:
            setattr(self, k, v)
    return self
'''


def level_classes():
    from splink.internals.comparison import Comparison
    from splink.internals.comparison_level import ComparisonLevel
    from splink.internals.comparison_level_creator import ComparisonLevelCreator
    from splink.internals.comparison_level_library import CustomLevel
    return Comparison, ComparisonLevel, ComparisonLevelCreator, CustomLevel


def parent_supplied_keywords(owner_cls, method, callee_name):
    """keywords passed explicitly next to a ** spread in the call `callee_name(**d, kw=...)`
    inside owner_cls.method  (the parameters the parent supplies itself)"""
    m = find_member(owner_cls, method, kinds=("method",))
    if m is None:
        raise Untranslatable(f"{owner_cls.__name__}.{method} not found")
    found = None
    for n in ast.walk(m[1]):
        if isinstance(n, ast.Call) and isinstance(n.func, ast.Name) and n.func.id == callee_name:
            if any(k.arg is None for k in n.keywords):
                found = sorted(k.arg for k in n.keywords if k.arg is not None)
    if found is None:
        raise Untranslatable(f"{owner_cls.__name__}.{method}: no call {callee_name}(**dict, ...) found")
    return found


def build_level(sx: SymExec):
    """ComparisonLevel.as_dict x ComparisonLevel.__init__, the creator stage and the reload path."""
    Comparison, ComparisonLevel, ComparisonLevelCreator, CustomLevel = level_classes()
    supplied = parent_supplied_keywords(Comparison, "__init__", "ComparisonLevel")
    lvl_params = [n for n, _, _ in ctor_params(ComparisonLevel) if n not in supplied]
    ident = {p: p for p in lvl_params}
    stored, post = record_view(sx, ComparisonLevel, ident)
    rules, children = method_table(sx, ComparisonLevel, "as_dict", stored)
    if children:
        raise Untranslatable("ComparisonLevel.as_dict has structural children")
    loader = loader_entries(ComparisonLevel, ident, post)
    st_level = Stage("ComparisonLevel.as_dict -> ComparisonLevel(**dict)", rules, loader)

    lvl_fields = fields_from_params(ComparisonLevel, lvl_params, overrides={
        # spec side: a level inside a Settings object always has a SQL condition and a label
        # (as_dict raises for a label-less level outside a Comparison)
        "sql_condition": ("str", False, True),
        "label_for_charts": ("str", False, True),
        "tf_adjustment_column": ("str", True, True),
    })
    dflt = {k: d for k, d, _, _ in loader}
    cons = [("tf_adjustment_column", ("C", None), "tf_adjustment_weight", [("C", dflt["tf_adjustment_weight"])]),
            ("tf_adjustment_column", ("C", None), "tf_minimum_u_value", [("C", dflt["tf_minimum_u_value"])]),
            # a null level carries no m / u: as_dict raises for one that does, and the checker refuses
            # class assignments for which the pipeline can only raise (validated on real levels by wfb in X)
            ("is_null_level", ("C", True), "m_probability", [("C", None)]),
            ("is_null_level", ("C", True), "u_probability", [("C", None)])]
    p1 = Pipeline("level_roundtrip", [st_level], lvl_fields, {p: ("field", p) for p in lvl_params}, cons,
                  doc="table_ok t_current d_current: ComparisonLevel.as_dict then ComparisonLevel(**dict)")
    p1.paths = dict(stored.paths)

    # ---- creator stage: create_level_dict (shared by all level creators) for CustomLevel
    expect_body(ComparisonLevelCreator, "configure", CONFIGURE_SHAPE, "setattr of every supplied option")
    conf = [p for p in inspect.signature(ComparisonLevelCreator.configure).parameters if p != "self"]
    cp = configurable_parameters(CustomLevel)
    if not set(cp) <= set(conf):
        raise Untranslatable(f"_convert_to_creator passes {set(cp) - set(conf)} to configure(), which does not accept them")
    cl_ctor = [n for n, _, _ in ctor_params(CustomLevel)]
    cl_fields = cl_ctor + [c for c in cp if c not in cl_ctor]
    cl_stored, cl_post = record_view(sx, CustomLevel, {p: p for p in cl_ctor})
    for k in cp:
        setter = find_member(CustomLevel, k, kinds=("setter",))
        if setter is not None:
            tgt = [n for n in ast.walk(setter[1]) if isinstance(n, ast.Attribute) and isinstance(n.ctx, ast.Store)
                   and isinstance(n.value, ast.Name) and n.value.id == "self"]
            if len(tgt) != 1:
                raise Untranslatable(f"setter of {k} is not a single attribute store")
            cl_stored.attrs[tgt[0].attr] = ("field", k)
        else:
            cl_stored.attrs[k] = ("field", k)
    cl_stored.attrs["__unset_is_none__"] = True
    cl_loader = []
    ctor_defaults = {n: d for n, d, _ in ctor_params(CustomLevel)}
    for f in cl_fields:
        d = ctor_defaults.get(f, None)
        required = d is inspect.Parameter.empty
        cl_loader.append((f, None if required else d, cl_post.get(f, ("field", f)), required))
    crules, cchildren = method_table(sx, CustomLevel, "create_level_dict", cl_stored)
    st_create = Stage("CustomLevel.create_level_dict -> ComparisonLevel(**dict)", crules, loader)
    st_to_creator = Stage("ComparisonLevel.as_dict -> CustomLevel._convert_to_creator(dict)", rules, cl_loader)

    p2 = Pipeline("level_reload", [st_to_creator, st_create, st_level], lvl_fields,
                  {p: ("field", p) for p in lvl_params}, cons,
                  doc="saved level -> CustomLevel -> create_level_dict -> ComparisonLevel -> as_dict -> ComparisonLevel")

    # ---- construction from a creator / level dict: supplied values survive
    kinds = {f: (k, o, ne) for f, k, o, ne in lvl_fields}
    cl_in = []
    for f in cl_fields:
        if f == "sql_condition":
            cl_in.append((f, "str", False, True))
        elif f in kinds:
            cl_in.append((f, kinds[f][0], True, kinds[f][2]))     # None = not supplied
        else:
            cl_in.append((f, "str", True, True))
    # base_dialect_str None: the condition is used as written
    cl_in = [(f, k, o, ne) if f != "base_dialect_str" else (f, "none", True, True) for f, k, o, ne in cl_in]
    spec3 = {}
    for p in lvl_params:
        if p == "label_for_charts":
            spec3[p] = ("if", ("isnone", ("field", p)), ("field", "sql_condition"), ("field", p))
        elif p == "sql_condition":
            spec3[p] = ("field", p)
        else:
            spec3[p] = ("if", ("isnone", ("field", p)), ("const", dflt[p]), ("field", p))
    cons3 = [("tf_adjustment_column", ("C", None), "tf_adjustment_weight", [("C", None), ("C", dflt["tf_adjustment_weight"])]),
             ("tf_adjustment_column", ("C", None), "tf_minimum_u_value", [("C", None), ("C", dflt["tf_minimum_u_value"])]),
             ("is_null_level", ("C", True), "m_probability", [("C", None)]),
             ("is_null_level", ("C", True), "u_probability", [("C", None)])]
    p3 = Pipeline("level_construction", [st_create, st_level], cl_in, spec3, cons3,
                  doc="level dict / CustomLevel(...).configure(...) -> create_level_dict -> ComparisonLevel -> "
                      "as_dict -> ComparisonLevel (what Comparison holds): every supplied option survives")
    return [p1, p2, p3]


def configurable_parameters(CustomLevel):
    m = find_member(CustomLevel, "_convert_to_creator", kinds=("staticmethod", "method"))
    if m is None:
        raise Untranslatable("CustomLevel._convert_to_creator not found")
    for n in ast.walk(m[1]):
        if isinstance(n, ast.Assign) and len(n.targets) == 1 and isinstance(n.targets[0], ast.Name) \
                and n.targets[0].id == "configurable_parameters" and isinstance(n.value, ast.Tuple):
            vals = [e.value for e in n.value.elts if isinstance(e, ast.Constant)]
            if len(vals) == len(n.value.elts):
                return vals
    raise Untranslatable("configurable_parameters literal not found in CustomLevel._convert_to_creator")


def build_comparison(sx: SymExec):
    from splink.internals.comparison import Comparison
    from splink.internals.comparison_creator import ComparisonCreator
    from splink.internals.comparison_library import CustomComparison
    supplied = parent_supplied_keywords(ComparisonCreator, "get_comparison", "Comparison")
    child_params = ["comparison_levels"]
    ctx_params = ["column_info_settings"]
    cparams = [n for n, _, _ in ctor_params(Comparison) if n not in supplied + child_params + ctx_params]
    ident = {p: p for p in cparams}
    stored, post = record_view(sx, Comparison, ident)
    rules, children = method_table(sx, Comparison, "as_dict", stored)
    if [c[0] for c in children] != ["comparison_levels"]:
        raise Untranslatable(f"Comparison.as_dict children: {children}")
    loader = loader_entries(Comparison, ident, post)
    check_children("Comparison", children, {"comparison_levels": {"self.comparison_levels"}}, SHAPE_PROBLEMS)
    st_cmp = Stage("Comparison.as_dict -> Comparison(**dict)", rules, loader, children)
    fields = [(p, "str", False, True) for p in cparams]      # stored name/description are never empty
    p4 = Pipeline("comparison_roundtrip", [st_cmp], fields, {p: ("field", p) for p in cparams},
                  doc="Comparison.as_dict then Comparison(**dict)")
    p4.paths = dict(stored.paths)

    # reload: saved dict -> CustomComparison(**dict) -> create_comparison_dict -> Comparison
    cc_params = [n for n, _, _ in ctor_params(CustomComparison) if n not in child_params]
    if sorted(cc_params) != sorted(cparams):
        raise Untranslatable(f"CustomComparison parameters {cc_params} differ from Comparison's {cparams}")
    cc_stored, cc_post = record_view(sx, CustomComparison, {p: p for p in cc_params})
    cc_loader = loader_entries(CustomComparison, {p: p for p in cc_params}, cc_post)
    crules, cchildren = method_table(sx, CustomComparison, "create_comparison_dict", cc_stored,
                                     child_keys=("comparison_levels",))
    st_to_creator = Stage("Comparison.as_dict -> CustomComparison(**dict)", rules, cc_loader, children)
    st_create = Stage("CustomComparison.create_comparison_dict -> Comparison(**dict)", crules, loader, cchildren)
    p5 = Pipeline("comparison_reload", [st_to_creator, st_create], fields, {p: ("field", p) for p in cparams},
                  doc="saved comparison -> CustomComparison(**dict) -> create_comparison_dict -> Comparison",
                  findings_hint={"creator": "CustomComparison"})
    p6 = Pipeline("comparison_construction", [st_create], fields, {p: ("field", p) for p in cparams},
                  doc="comparison dict / CustomComparison(...) with a supplied name and description -> Comparison",
                  findings_hint={"creator": "CustomComparison"})
    return [p4, p5, p6]


def build_settings(sx: SymExec):
    from splink.internals.settings import Settings
    from splink.internals.settings_creator import SettingsCreator
    # the reload path: SettingsCreator(**dict minus sql_dialect) -> Settings(**asdict, sql_dialect=db dialect)
    m = find_member(SettingsCreator, "from_path_or_dict", kinds=("classmethod", "method"))
    if m is None or not any(isinstance(n, ast.Call) and isinstance(n.func, ast.Attribute) and n.func.attr == "pop"
                            and n.args and isinstance(n.args[0], ast.Constant) and n.args[0].value == "sql_dialect"
                            for n in ast.walk(m[1])):
        raise Untranslatable("SettingsCreator.from_path_or_dict no longer pops sql_dialect")
    supplied = parent_supplied_keywords(SettingsCreator, "get_settings", "Settings")
    if supplied != ["sql_dialect"]:
        raise Untranslatable(f"get_settings supplies {supplied}")
    children = ["comparisons", "blocking_rules_to_generate_predictions"]
    sc_fields = [f for f in dataclasses.fields(SettingsCreator)]
    flat = [f.name for f in sc_fields if f.name not in children]
    s_params = {n: d for n, d, _ in ctor_params(Settings)}
    for f in sc_fields:
        if f.name not in s_params:
            raise Untranslatable(f"SettingsCreator field {f.name} is not a Settings parameter")
    ident = {p: p for p in flat}
    stored, post = record_view(sx, Settings, ident)
    rules, ch = method_table(sx, Settings, "as_dict", stored, drop=("sql_dialect",))
    if sorted(c[0] for c in ch) != sorted(children):
        raise Untranslatable(f"Settings.as_dict children: {ch}")
    loader = []
    for f in sc_fields:
        if f.name in children:
            continue
        if f.default is not dataclasses.MISSING:
            d, required = f.default, False
        elif f.default_factory is not dataclasses.MISSING:  # type: ignore[misc]
            d, required = f.default_factory(), False        # type: ignore[misc]
        else:
            d, required = None, True
        loader.append((f.name, d, post.get(f.name, ("field", f.name)), required))
    check_children("Settings", ch, {"comparisons": {"self.comparisons", "self.core_model_settings.comparisons"},
                                    "blocking_rules_to_generate_predictions":
                                        {"Settings._blocking_rules_to_generate_predictions",
                                         "self._blocking_rules_to_generate_predictions"}}, SHAPE_PROBLEMS)
    st = Stage("Settings.as_dict -> SettingsCreator(**dict) -> Settings(**asdict)", rules, loader, ch)
    fields = []
    ann = {f.name: str(f.type) for f in sc_fields}
    for k, d, _, required in loader:
        kind = ann_kind(ann[k], d)
        optional = (d is None and not required) or "None" in ann[k]
        nonempty = kind == "str" and k not in ("bayes_factor_column_prefix",)
        fields.append((k, kind, optional, nonempty if kind == "str" else False))
    p = Pipeline("settings_roundtrip", [st], fields, {k: ("field", k) for k, *_ in loader},
                 doc="Settings.as_dict then SettingsCreator.from_path_or_dict(...).get_settings(dialect); sql_dialect is "
                     "re-supplied by the database API of the loading linker")
    p.paths = dict(stored.paths)
    return [p]


def build_blocking(sx: SymExec):
    from splink.internals import blocking as B
    from splink.internals.blocking_rule_creator import BlockingRuleCreator
    from splink.internals.blocking_rule_library import CustomRule
    from splink.internals.settings_creator import SettingsCreator
    # dispatch of blocking_rule_to_obj: key -> local name, class -> positional argument names
    fn = ast.parse(textwrap.dedent(inspect.getsource(B.blocking_rule_to_obj))).body[0]
    local_key = {}
    for n in ast.walk(fn):
        if isinstance(n, ast.Assign) and isinstance(n.value, ast.Call) and isinstance(n.value.func, ast.Attribute) \
                and n.value.func.attr == "get" and isinstance(n.value.func.value, ast.Name) and n.value.func.value.id == "br" \
                and n.value.args and isinstance(n.value.args[0], ast.Constant) and isinstance(n.targets[0], ast.Name):
            local_key[n.targets[0].id] = n.value.args[0].value
    ctor_calls = {}
    for n in ast.walk(fn):
        if isinstance(n, ast.Return) and isinstance(n.value, ast.Call) and isinstance(n.value.func, ast.Name) \
                and n.value.func.id in ("BlockingRule", "SaltedBlockingRule", "ExplodingBlockingRule") \
                and all(isinstance(a, ast.Name) and a.id in local_key for a in n.value.args) and not n.value.keywords:
            ctor_calls[n.value.func.id] = [local_key[a.id] for a in n.value.args]
    if set(ctor_calls) != {"BlockingRule", "SaltedBlockingRule", "ExplodingBlockingRule"}:
        raise Untranslatable(f"blocking_rule_to_obj: constructor calls found {sorted(ctor_calls)}")
    # the path loader deletes br["sql_dialect"]
    m = find_member(SettingsCreator, "from_path_or_dict", kinds=("classmethod", "method"))
    if not any(isinstance(n, ast.Delete) and isinstance(n.targets[0], ast.Subscript)
               and isinstance(n.targets[0].slice, ast.Constant) and n.targets[0].slice.value == "sql_dialect"
               for n in ast.walk(m[1])):
        raise Untranslatable("from_path_or_dict no longer deletes the blocking rules' sql_dialect")
    # CustomRule(**dict)
    cr_params = [n for n, _, _ in ctor_params(CustomRule)]
    cr_stored, cr_post = record_view(sx, CustomRule, {p: p for p in cr_params})
    cr_loader = loader_entries(CustomRule, {p: p for p in cr_params}, cr_post)
    crules, _ = method_table(sx, CustomRule, "create_blocking_rule_dict", cr_stored)
    crules = [r for r in crules if r[0] != "sql_dialect"]      # re-supplied by the loading linker
    out = []
    specials = {"BlockingRule": [], "SaltedBlockingRule": ["salting_partitions"],
                "ExplodingBlockingRule": ["arrays_to_explode"]}
    for cname, keys in ctor_calls.items():
        cls = getattr(B, cname)
        pnames = [n for n, _, _ in ctor_params(cls)]
        p2f = {p: k for p, k in zip(pnames, keys)}
        stored, post = record_view(sx, cls, p2f)
        rules, ch = method_table(sx, cls, "as_dict", stored)
        fields_here = [k for k in keys if k != "sql_dialect"]
        rules_nodialect = [r for r in rules if r[0] != "sql_dialect"]
        loader = [(f, d, p, r) for f, d, p, r in loader_entries(cls, p2f, post) if f != "sql_dialect"]
        st_save = Stage(f"{cname}.as_dict (sql_dialect deleted by the path loader) -> CustomRule(**dict)",
                        rules_nodialect, cr_loader)
        st_create = Stage(f"CustomRule.create_blocking_rule_dict -> blocking_rule_to_obj -> {cname}",
                          crules,
                          loader + [(k, None, ("field", k), False) for k in ("salting_partitions", "arrays_to_explode")
                                    if k not in fields_here])
        fields = []
        for k in fields_here:
            if k == "blocking_rule":
                fields.append((k, "str", False, True))
            elif k == "salting_partitions":
                fields.append((k, "num", False, True))
            elif k == "arrays_to_explode":
                fields.append((k, "list", False, True))
        spec = {k: ("field", k) for k in fields_here}
        # class dispatch: the keys of the other subclasses must stay absent (None)
        for other in ("salting_partitions", "arrays_to_explode"):
            if other not in fields_here:
                spec[other] = ("const", None)
        pl = Pipeline(f"blocking_reload_{cname}", [st_save, st_create], fields, spec,
                      doc=f"{cname}.as_dict -> CustomRule(**dict) -> create_blocking_rule_dict -> blocking_rule_to_obj")
        pl.paths = dict(stored.paths)
        out.append(pl)
        for k in specials[cname]:
            if k not in [r[0] for r in rules]:
                SHAPE_PROBLEMS.append({"group": "blocking_keys", "shape": True,
                                       "why": f"{cname}.as_dict does not emit its own key {k}"})
    return out


def check_children(owner, children, expected, problems):
    """structural children must be serialised by iterating the stored list itself (same order, no filter)"""
    for key, src_, method in children:
        if key in expected and (src_ not in expected[key] or method != "as_dict"):
            problems.append({"group": "children_order", "shape": True,
                             "why": f"{owner}.as_dict builds '{key}' from `{src_}` with .{method}() instead of iterating "
                                    f"{' / '.join(sorted(expected[key]))} in stored order"})


def check_save_route(problems):
    """LinkerMisc.save_model_to_json: whenever it does not raise and a path is given, the file is (re)written
    with the returned dictionary"""
    from splink.internals.linker_components.misc import LinkerMisc
    m = find_member(LinkerMisc, "save_model_to_json", kinds=("method",))

    def bad(why):
        problems.append({"group": "save_route", "shape": True, "why": "save_model_to_json: " + why})
    if m is None:
        return bad("not found")
    fd = m[1]
    body = [st for st in fd.body if not (isinstance(st, ast.Expr) and isinstance(st.value, ast.Constant))]
    if not (len(body) == 3 and isinstance(body[0], ast.Assign) and ast.unparse(body[0].targets[0]) == "model_dict"
            and ast.unparse(body[0].value) == "self._linker._settings_obj.as_dict()"
            and isinstance(body[1], ast.If) and ast.unparse(body[1].test) == "out_path" and not body[1].orelse
            and isinstance(body[2], ast.Return) and ast.unparse(body[2].value) == "model_dict"):
        return bad("no longer `model_dict = settings.as_dict(); if out_path: ...; return model_dict`")
    inner = body[1].body
    guards = [st for st in inner if isinstance(st, ast.If)]
    writes = [st for st in inner if isinstance(st, ast.With)]
    if len(inner) != len(guards) + len(writes) or len(writes) != 1 or inner[-1] is not writes[0]:
        return bad("the write is not the unconditional last statement under `if out_path:`")
    for gd in guards:
        if gd.orelse or not all(isinstance(x, ast.Raise) for x in gd.body):
            return bad("a guard before the write does something other than raise")
        t = ast.unparse(gd.test)
        if "overwrite" not in t or "isfile" not in t:
            return bad(f"unexpected guard `{t}`")
    w = writes[0]
    src_w = ast.unparse(w)
    if not ("open(out_path, 'w'" in src_w.replace('"', "'") and "json.dump(model_dict, f" in src_w):
        return bad("the write is not json.dump(model_dict, <file opened for writing at out_path>)")


BUILDERS = [("level", build_level), ("comparison", build_comparison), ("settings", build_settings),
            ("blocking", build_blocking)]


SHAPE_PROBLEMS: list = []

# Functions on the reload / construction path whose behaviour the pipelines ASSUME (key routing in
# _convert_to_creator, the SettingsCreator dict plumbing, the class dispatch of blocking_rule_to_obj, the
# constructor-side validation hooks): pinned by a digest of their statement structure (docstrings and
# comments ignored).  Any edit fails the obligation (fail-closed); the models' behaviour under the edit
# is then exercised by X only.
PINNED = {
    "comparison_level_library.CustomLevel._convert_to_creator": "b4e204e000df8bc1",
    "settings_creator.SettingsCreator._as_naive_dict": "8dcfa31d90cc5395",
    "settings_creator.SettingsCreator._as_creator_dict": "b4151355df18edae",
    "settings_creator.SettingsCreator.get_settings": "dc1cd400fa662b10",
    "settings_creator.SettingsCreator.create_settings_dict": "9e8628ff09358b54",
    "blocking.blocking_rule_to_obj": "d7b7fa14c76c3717",
    "blocking_rule_creator_utils.to_blocking_rule_creator": "ba67bcfd8d1850db",
    "comparison_level.ComparisonLevel._validate": "59645d299644b2df",
    "comparison_level.ComparisonLevel._validate_sql": "8273552f276dc5eb",
    "comparison_creator.ComparisonCreator.get_comparison": "cc78d2f0da50a0a0",
    "comparison_level_creator.ComparisonLevelCreator.get_comparison_level": "30bd17f48cbe3890",
    "blocking_rule_creator.BlockingRuleCreator.get_blocking_rule": "8045a638bcebe4b1",
}


def structure_digest(name):
    import hashlib
    import importlib
    modname, *path = name.split(".")
    obj = importlib.import_module("splink.internals." + modname)
    for part in path:
        obj = inspect.getattr_static(obj, part) if inspect.isclass(obj) else getattr(obj, part)
    fn = obj.__func__ if isinstance(obj, (staticmethod, classmethod)) else obj
    fd = ast.parse(textwrap.dedent(inspect.getsource(fn))).body[0]
    return hashlib.sha1(normalised_body(fd).encode()).hexdigest()[:16]


def check_pinned(problems):
    for name, want in PINNED.items():
        try:
            got = structure_digest(name)
        except Exception as e:
            got = f"unreadable: {e!r}"[:60]
        if got != want:
            problems.append({"group": "pinned_shape", "shape": True,
                             "why": f"{name} is assumed by the pipelines and no longer has the pinned statement structure "
                                    f"({got} != {want})"})


def build_all():
    """returns (pipelines, failures, notes, opaque)"""
    pipelines, failures, notes, opaque = [], [], [], []
    SHAPE_PROBLEMS.clear()
    for name, fn in BUILDERS:
        sx = SymExec()
        try:
            ps = fn(sx)
            for p in ps:
                p.to_coq("chk")      # emission must work
            pipelines += ps
        except Untranslatable as e:
            failures.append({"group": name, "why": str(e)})
        notes += [n for n in sx.notes if n not in notes]
        opaque += [o for o in sx.opaque if o not in opaque]
    check_pinned(SHAPE_PROBLEMS)
    try:
        check_save_route(SHAPE_PROBLEMS)
    except Exception as e:      # fail closed
        SHAPE_PROBLEMS.append({"group": "save_route", "shape": True, "why": f"save_model_to_json could not be read: {e!r}"})
    seen = set()
    for pr in SHAPE_PROBLEMS:
        if pr["why"] not in seen:
            seen.add(pr["why"])
            failures.append(pr)
    return pipelines, failures, notes, opaque


GEN_HEADER = """(* GENERATED by translators/c09_tables.py from the working tree of Splink - do not edit *)
From Coq Require Import List Bool ZArith String.
From Splinkv Require Import Model.Serialise.
Import ListNotations.
Open Scope string_scope.
"""


def gen_text(pipelines):
    parts = [GEN_HEADER]
    for i, p in enumerate(pipelines):
        parts.append(p.to_coq(f"p{i}_{p.name}"))
    parts.append("Definition all_ok : list (string * bool) := [%s]." % "; ".join(
        "(%s, p%d_%s_ok)" % (coq_str(p.name), i, p.name) for i, p in enumerate(pipelines)))
    parts.append("Definition all_cex := [%s]." % "; ".join(
        "(%s, p%d_%s_cex)" % (coq_str(p.name), i, p.name) for i, p in enumerate(pipelines)))
    parts.append("Eval vm_compute in all_ok.")
    parts.append("Eval vm_compute in all_cex.")
    return "\n\n".join(parts) + "\n"


if __name__ == "__main__":
    ps, fails, notes, opaque = build_all()
    print(gen_text(ps))
    print("(* failures:", fails, "*)")
    print("(* notes:", notes, "*)")
