"""Fail-closed translator: the sample-proportion arithmetic of splink/internals/estimate_u.py
(_rows_needed_for_n_pairs, _proportion_sample_size_link_only, and the way estimate_u_values
combines them and clamps at 1.0)  ->  Gallina over R.

The generated definitions must be convertible with Model/Estimators.v rows_needed,
proportion_link_only, raw_proportion and sample_proportion (tie lemmas by reflexivity), on which
C04_full_sample_when_enough_pairs is stated."""
from __future__ import annotations

import ast
from fractions import Fraction
from pathlib import Path

from harness.common import REPO


class Untranslatable(Exception):
    pass


def rexpr(n, env, lists):
    if isinstance(n, ast.Constant) and isinstance(n.value, (int, float)) and not isinstance(n.value, bool):
        f = Fraction(str(n.value))
        return str(f.numerator) if f.denominator == 1 else f"({f.numerator} / {f.denominator})"
    if isinstance(n, ast.Name) and n.id in env:
        return n.id
    if isinstance(n, ast.BinOp):
        if isinstance(n.op, ast.Pow):
            if isinstance(n.right, ast.Constant) and n.right.value == 0.5:
                return f"(sqrt {rexpr(n.left, env, lists)})"
            if isinstance(n.right, ast.Constant) and n.right.value == 2 and isinstance(n.right.value, int):
                return f"({rexpr(n.left, env, lists)} ^ 2)"
            raise Untranslatable("power " + ast.unparse(n))
        op = {ast.Add: "+", ast.Sub: "-", ast.Mult: "*", ast.Div: "/"}.get(type(n.op))
        if op:
            return f"({rexpr(n.left, env, lists)} {op} {rexpr(n.right, env, lists)})"
    if isinstance(n, ast.Call) and isinstance(n.func, ast.Name) and n.func.id == "sum" and len(n.args) == 1 and not n.keywords:
        a = n.args[0]
        if isinstance(a, ast.Name) and a.id in lists:
            return f"(sumr {a.id})"
        if isinstance(a, (ast.ListComp, ast.GeneratorExp)) and len(a.generators) == 1 and not a.generators[0].ifs \
                and isinstance(a.generators[0].target, ast.Name) and isinstance(a.generators[0].iter, ast.Name) and a.generators[0].iter.id in lists:
            v = a.generators[0].target.id
            return f"(sumr (map (fun {v} => {rexpr(a.elt, set(env) | {v}, lists)}%R) {a.generators[0].iter.id}))"
    raise Untranslatable("expression " + ast.unparse(n)[:120])


def body_lets(fn, env, lists, want_first_of_tuple=False):
    out = ""
    env = set(env)
    for st in fn.body:
        if isinstance(st, ast.Expr) and isinstance(st.value, ast.Constant):
            continue
        if isinstance(st, ast.Assign) and len(st.targets) == 1 and isinstance(st.targets[0], ast.Name):
            out += f"let {st.targets[0].id} := {rexpr(st.value, env, lists)} in "
            env.add(st.targets[0].id)
            continue
        if isinstance(st, ast.Return):
            v = st.value
            if want_first_of_tuple:
                if not (isinstance(v, ast.Tuple) and len(v.elts) == 2):
                    raise Untranslatable("return is not (proportion, sample_size)")
                v = v.elts[0]
            return out + rexpr(v, env, lists)
        raise Untranslatable("statement " + ast.unparse(st)[:120])
    raise Untranslatable("no return")


def translate():
    tree = ast.parse((Path(REPO) / "splink/internals/estimate_u.py").read_text())
    fns = {n.name: n for n in tree.body if isinstance(n, ast.FunctionDef)}
    for need in ("_rows_needed_for_n_pairs", "_proportion_sample_size_link_only", "estimate_u_values"):
        if need not in fns:
            raise Untranslatable(need + " not found")
    f1 = fns["_rows_needed_for_n_pairs"]
    if [a.arg for a in f1.args.args] != ["n_pairs"]:
        raise Untranslatable("_rows_needed_for_n_pairs signature")
    rows_needed = body_lets(f1, {"n_pairs"}, set())
    f2 = fns["_proportion_sample_size_link_only"]
    if [a.arg for a in f2.args.args] != ["row_counts_individual_dfs", "max_pairs"]:
        raise Untranslatable("_proportion_sample_size_link_only signature")
    link_only = body_lets(f2, {"max_pairs"}, {"row_counts_individual_dfs"}, want_first_of_tuple=True)
    # how estimate_u_values uses them
    f3 = fns["estimate_u_values"]
    src = {k: None for k in ("dedupe", "link", "clamp")}
    for st in f3.body:
        if not isinstance(st, ast.If):
            continue
        t = ast.unparse(st.test).replace(" ", "")
        body = [ast.unparse(s).replace(" ", "").replace("\n", "") for s in st.body]
        if t == "settings_obj._link_typein['dedupe_only','link_and_dedupe']":
            ok = ("total_nodes=result[0]['count']" in body and "sample_size=_rows_needed_for_n_pairs(max_pairs)" in body
                  and "proportion=sample_size/total_nodes" in body and any(b.startswith("sql=") and "count(*)ascount" in b and "__splink__df_concat" in b for b in body))
            src["dedupe"] = ok
        elif t == "settings_obj._link_type=='link_only'":
            ok = ("proportion,sample_size=_proportion_sample_size_link_only(frame_counts,max_pairs)" in body
                  and "frame_counts=[res['count']forresinresult]" in body
                  and any(b.startswith("sql=") and "groupbysource_dataset" in b for b in body))
            src["link"] = ok
        elif t == "proportion>=1.0":
            src["clamp"] = body == ["proportion=1.0"] and not st.orelse
    if not all(src.values()):
        raise Untranslatable(f"estimate_u_values: use of the proportion formulae not recognised {src}")
    # fail closed on ANY other statement that writes the quantities the model speaks about
    watched = {"proportion", "sample_size", "total_nodes", "max_pairs", "frame_counts"}
    allowed = {"sample_size=_rows_needed_for_n_pairs(max_pairs)", "proportion=sample_size/total_nodes",
               "proportion,sample_size=_proportion_sample_size_link_only(frame_counts,max_pairs)", "proportion=1.0",
               "sample_size=total_nodes", "total_nodes=result[0]['count']", "total_nodes=sum(frame_counts)",
               "frame_counts=[res['count']forresinresult]"}
    for node in ast.walk(f3):
        targets = []
        if isinstance(node, ast.Assign):
            targets = node.targets
        elif isinstance(node, (ast.AugAssign, ast.AnnAssign)):
            targets = [node.target]
        elif isinstance(node, ast.NamedExpr):
            targets = [node.target]
        elif isinstance(node, (ast.For, ast.comprehension)) and not isinstance(node, ast.comprehension):
            targets = [node.target]
        names = {n.id for t in targets for n in ast.walk(t) if isinstance(n, ast.Name)}
        if names & watched:
            txt = ast.unparse(node).replace(" ", "").replace("\n", "")
            if txt not in allowed:
                raise Untranslatable("estimate_u_values writes " + ", ".join(sorted(names & watched)) + " in an unmodelled statement: " + ast.unparse(node)[:120])
    clamp2 = [st for st in f3.body if isinstance(st, ast.If) and ast.unparse(st.test).replace(" ", "") == "sample_size>total_nodes"]
    if len(clamp2) != 1 or [ast.unparse(x).replace(" ", "") for x in clamp2[0].body] != ["sample_size=total_nodes"]:
        raise Untranslatable("estimate_u_values: `if sample_size > total_nodes: sample_size = total_nodes` not found")
    # the sample is taken with that proportion
    if "_random_sample_sql(proportion,sample_size,seed)" not in ast.unparse(f3).replace(" ", ""):
        raise Untranslatable("estimate_u_values: sample not drawn with (proportion, sample_size, seed)")
    return {"rows_needed": rows_needed, "link_only": link_only}


def coq_text(tr):
    return f"""(* GENERATED by translators/c04_sample.py from splink/internals/estimate_u.py *)
From Coq Require Import String Ascii.
From Coq Require Import List ZArith QArith Bool Arith Reals.
From Splinkv Require Import Model.EM Model.Estimators.
Import ListNotations.
Definition rows_needed_gen (n_pairs : R) : R := ({tr['rows_needed']})%R.
Definition proportion_link_only_gen (row_counts_individual_dfs : list R) (max_pairs : R) : R := ({tr['link_only']})%R.
Definition raw_proportion_gen (lt : link_t) (frame_counts : list R) (max_pairs : R) : R :=
  match lt with
  | LinkOnly => proportion_link_only_gen frame_counts max_pairs
  | _ => (rows_needed_gen max_pairs / sumr frame_counts)%R
  end.
Definition sample_proportion_gen (lt : link_t) (frame_counts : list R) (max_pairs : R) : R :=
  let proportion := raw_proportion_gen lt frame_counts max_pairs in if Rle_dec 1 proportion then 1%R else proportion.
Lemma rows_needed_gen_is_model : forall p, rows_needed_gen p = rows_needed p.
Proof. intros; reflexivity. Qed.
Lemma proportion_link_only_gen_is_model : forall c p, proportion_link_only_gen c p = proportion_link_only c p.
Proof. intros; reflexivity. Qed.
Lemma sample_proportion_gen_is_model : forall lt c p, sample_proportion_gen lt c p = sample_proportion lt c p.
Proof. intros [] c p; reflexivity. Qed.
"""
