"""Fail-closed `ast` translator for the Python-side bookkeeping of EM training.

Sources (under VERIF_REPO/splink/internals):
  expectation_maximisation.py   populate_m_u_from_lookup, maximisation_step, the iteration loop and
                                its stop test, _max_change_in_parameters_comparison_levels,
                                compute_proportions_for_new_parameters (SQL path)
  m_u_records_to_parameters.py  m_u_records_to_lookup_dict, append_{m,u}_probability_... (shape;
                                their behaviour is compared on an exhaustive grid by harness/c03_py.py)
  comparison_level.py           m_probability / u_probability readers (not-observed constant),
                                _trained_m_median / _trained_u_median
  linker.py                     _populate_m_u_from_trained_values

Every fragment is matched against a whitelist of AST shapes; anything else raises Untranslatable
with the fragment's name.  `generate()` returns the text of coq/gen/C03_py_gen.v (definitions
only) and the list of named obligations (Coq lemma texts, each compiled on its own)."""
from __future__ import annotations

import ast
from fractions import Fraction
from pathlib import Path

from harness.common import REPO


class Untranslatable(Exception):
    def __init__(self, fragment, why):
        super().__init__(f"{fragment}: {why}")
        self.fragment = fragment


def src(rel):
    return ast.parse((Path(REPO) / "splink/internals" / rel).read_text())


def func(tree, name, cls=None):
    body = tree.body
    if cls:
        c = next((n for n in body if isinstance(n, ast.ClassDef) and n.name == cls), None)
        if c is None:
            raise Untranslatable(name, f"class {cls} not found")
        body = c.body
    cands = [n for n in body if isinstance(n, ast.FunctionDef) and n.name == name]
    if not cands:
        raise Untranslatable(name, "function not found")
    return cands[0]       # for properties the getter comes first


def qlit(x) -> str:
    f = Fraction(str(x))
    return f"(Qmake ({f.numerator})%Z {f.denominator}%positive)"


FIXED_KEYS = {"m": "fix_m", "u": "fix_u", "lambda": "fix_lam"}


class Ex:
    """expression translator; `env` maps Python names to Gallina variables; `attrs` maps
    (base name, attribute) to Gallina variables"""

    def __init__(self, frag, env, attrs=None, fixed_set=None):
        self.frag, self.env, self.attrs, self.fixed_set = frag, dict(env), attrs or {}, fixed_set

    def bad(self, node):
        raise Untranslatable(self.frag, "expression " + ast.dump(node)[:160])

    def q(self, n):
        if isinstance(n, ast.Constant) and isinstance(n.value, (int, float)) and not isinstance(n.value, bool):
            return qlit(n.value)
        if isinstance(n, ast.UnaryOp) and isinstance(n.op, ast.USub):
            return f"(- {self.q(n.operand)})"
        if isinstance(n, ast.Name) and n.id in self.env:
            return self.env[n.id]
        if isinstance(n, ast.BinOp):
            op = {ast.Sub: "-", ast.Add: "+", ast.Mult: "*", ast.Div: "/"}.get(type(n.op))
            if op:
                return f"({self.q(n.left)} {op} {self.q(n.right)})"
        if isinstance(n, ast.Call) and isinstance(n.func, ast.Name) and not n.keywords:
            if n.func.id == "abs" and len(n.args) == 1:
                return f"(Qabs {self.q(n.args[0])})"
            if n.func.id == "max" and len(n.args) == 2:
                return f"(Qmax {self.q(n.args[0])} {self.q(n.args[1])})"
            if n.func.id == "cast" and len(n.args) == 2:       # typing.cast(float, x)
                return self.q(n.args[1])
        if isinstance(n, ast.Attribute) and isinstance(n.value, ast.Name) and (n.value.id, n.attr) in self.attrs:
            return self.attrs[(n.value.id, n.attr)]
        if isinstance(n, ast.IfExp):
            return f"(if {self.b(n.test)} then {self.q(n.body)} else {self.q(n.orelse)})"
        self.bad(n)

    def b(self, n):
        if isinstance(n, ast.Compare) and len(n.ops) == 1:
            op, l, r = n.ops[0], n.left, n.comparators[0]
            if isinstance(op, (ast.NotIn, ast.In)) and isinstance(l, ast.Constant) and l.value in FIXED_KEYS \
                    and isinstance(r, ast.Name) and r.id == self.fixed_set:
                v = FIXED_KEYS[l.value]
                return f"(negb {v})" if isinstance(op, ast.NotIn) else v
            a, c = self.q(l), self.q(r)
            if isinstance(op, ast.Lt):
                return f"(Qlt_bool {a} {c})"
            if isinstance(op, ast.Gt):
                return f"(Qlt_bool {c} {a})"
            if isinstance(op, ast.LtE):
                return f"(Qle_bool {a} {c})"
            if isinstance(op, ast.GtE):
                return f"(Qle_bool {c} {a})"
        if isinstance(n, ast.BoolOp):
            op = "&&" if isinstance(n.op, ast.And) else "||"
            return "(" + f" {op} ".join(self.b(v) for v in n.values) + ")"
        if isinstance(n, ast.UnaryOp) and isinstance(n.op, ast.Not):
            return f"(negb {self.b(n.operand)})"
        if isinstance(n, ast.Attribute) and isinstance(n.value, ast.Name) and (n.value.id, n.attr) in self.attrs:
            return self.attrs[(n.value.id, n.attr)]
        self.bad(n)


def is_sub(node, key):
    return isinstance(node, ast.Subscript) and isinstance(node.slice, ast.Constant) and node.slice.value == key


# --------------------------------------------------------------------------------------------
def tr_populate():
    """populate_m_u_from_lookup -> gen_new_m / gen_new_u"""
    f = func(src("expectation_maximisation.py"), "populate_m_u_from_lookup")
    args = [a.arg for a in f.args.args]
    if args != ["training_fixed_probabilities", "comparison_level", "output_column_name", "m_u_records_lookup"]:
        raise Untranslatable("populate_m_u_from_lookup", f"signature {args}")
    alias = {"comparison_level"}
    out = {}
    for st in f.body:
        if isinstance(st, ast.Assign) and isinstance(st.value, ast.Name) and st.value.id in alias and isinstance(st.targets[0], ast.Name):
            alias.add(st.targets[0].id)
            continue
        if not isinstance(st, ast.If) or st.orelse:
            raise Untranslatable("populate_m_u_from_lookup", "top-level statement " + ast.dump(st)[:120])
        attrs = {}
        for a in alias:
            attrs[(a, "_fix_m_probability")] = "lvl_fixm"
            attrs[(a, "_fix_u_probability")] = "lvl_fixu"
        test = Ex("populate_m_u_from_lookup", {}, attrs, "training_fixed_probabilities").b(st.test)
        if len(st.body) != 2 or not isinstance(st.body[0], ast.Try):
            raise Untranslatable("populate_m_u_from_lookup", "if-body is not try/except + assignment")
        tr, asg = st.body
        if len(tr.body) != 1 or not isinstance(tr.body[0], ast.Assign) or tr.orelse or tr.finalbody or len(tr.handlers) != 1:
            raise Untranslatable("populate_m_u_from_lookup", "try shape")
        var = tr.body[0].targets[0].id
        look = tr.body[0].value
        # m_u_records_lookup[output_column_name][cl.comparison_vector_value]["<key>"]
        key = look.slice.value if isinstance(look, ast.Subscript) and isinstance(look.slice, ast.Constant) else None
        inner = look.value if key else None
        ok = (key in ("m_probability", "u_probability") and isinstance(inner, ast.Subscript)
              and isinstance(inner.slice, ast.Attribute) and inner.slice.attr == "comparison_vector_value"
              and isinstance(inner.value, ast.Subscript) and isinstance(inner.value.slice, ast.Name)
              and inner.value.slice.id == "output_column_name"
              and isinstance(inner.value.value, ast.Name) and inner.value.value.id == "m_u_records_lookup")
        if not ok:
            raise Untranslatable("populate_m_u_from_lookup", "lookup expression " + ast.dump(look)[:160])
        h = tr.handlers[0]
        if not (isinstance(h.type, ast.Name) and h.type.id == "KeyError"):
            raise Untranslatable("populate_m_u_from_lookup", "handler is not KeyError")
        h0 = h.body[0]
        if not (isinstance(h0, ast.Assign) and h0.targets[0].id == var and isinstance(h0.value, ast.Name)
                and h0.value.id == "LEVEL_NOT_OBSERVED_TEXT"):
            raise Untranslatable("populate_m_u_from_lookup", "KeyError branch does not assign LEVEL_NOT_OBSERVED_TEXT")
        if not (isinstance(asg, ast.Assign) and isinstance(asg.targets[0], ast.Attribute) and asg.targets[0].attr in ("m_probability", "u_probability")
                and isinstance(asg.value, ast.Name) and asg.value.id == var):
            raise Untranslatable("populate_m_u_from_lookup", "final assignment")
        target = asg.targets[0].attr[0]
        found = "found_m" if key == "m_probability" else "found_u"
        out[target] = (f"Definition gen_new_{target} (fix_m fix_u lvl_fixm lvl_fixu : bool) (found_m found_u : option Q) (old : pval) : pval :=\n"
                       f"  if {test} then match {found} with Some q => Val q | None => NotObserved end else old.")
    if set(out) != {"m", "u"}:
        raise Untranslatable("populate_m_u_from_lookup", f"targets {sorted(out)}")
    return out["m"] + "\n" + out["u"]


def tr_lambda():
    f = func(src("expectation_maximisation.py"), "maximisation_step")
    rec_ok, text = False, None
    for st in ast.walk(f):
        if isinstance(st, ast.If) and isinstance(st.test, ast.Compare) and isinstance(st.test.left, ast.Subscript) \
                and is_sub(st.test.left, "output_column_name") and isinstance(st.test.comparators[0], ast.Constant) \
                and st.test.comparators[0].value == "_probability_two_random_records_match" and isinstance(st.test.ops[0], ast.Eq):
            b = st.body[0]
            rec_ok = isinstance(b, ast.Assign) and b.targets[0].id == "prop_record" and isinstance(b.value, ast.Name) and b.value.id == st.test.left.value.id
        if isinstance(st, ast.If) and isinstance(st.test, ast.Compare) and isinstance(st.test.left, ast.Constant) and st.test.left.value == "lambda":
            test = Ex("maximisation_step", {}, {}, "training_fixed_probabilities").b(st.test)
            b = st.body[0]
            if not (len(st.body) == 1 and not st.orelse and isinstance(b, ast.Assign) and isinstance(b.targets[0], ast.Attribute)
                    and b.targets[0].attr == "probability_two_random_records_match" and is_sub(b.value, "m_probability")
                    and isinstance(b.value.value, ast.Name) and b.value.value.id == "prop_record"):
                raise Untranslatable("maximisation_step", "lambda assignment " + ast.dump(b)[:160])
            text = f"Definition gen_new_lam (fix_lam : bool) (old new : Q) : Q := if {test} then new else old."
    calls = [n for n in ast.walk(f) if isinstance(n, ast.Call) and isinstance(n.func, ast.Name) and n.func.id == "populate_m_u_from_lookup"]
    loops = [n for n in ast.walk(f) if isinstance(n, ast.For) and isinstance(n.iter, ast.Attribute) and n.iter.attr == "_comparison_levels_excluding_null"]
    if not rec_ok or text is None or len(calls) != 1 or len(loops) != 1:
        raise Untranslatable("maximisation_step", "record selection / level loop shape")
    return text


def tr_reader():
    tree = src("comparison_level.py")
    out = []
    for k in ("m", "u"):
        f = func(tree, f"{k}_probability", "ComparisonLevel")
        val = None
        for st in f.body:
            if isinstance(st, ast.If) and isinstance(st.test, ast.Compare) and isinstance(st.test.left, ast.Attribute) \
                    and st.test.left.attr == f"_{k}_probability" and isinstance(st.test.comparators[0], ast.Name) \
                    and st.test.comparators[0].id == "LEVEL_NOT_OBSERVED_TEXT" and isinstance(st.test.ops[0], ast.Eq) \
                    and isinstance(st.body[0], ast.Return) and isinstance(st.body[0].value, ast.Constant):
                val = st.body[0].value.value
        if val is None:
            raise Untranslatable(f"{k}_probability reader", "not-observed branch not found")
        out.append(f"Definition gen_not_observed_read_{k} : Q := {qlit(val)}.")
    return "\n".join(out)


def tr_median():
    tree = src("comparison_level.py")
    imp = [n for n in tree.body if isinstance(n, ast.ImportFrom) and n.module == "statistics" and any(a.name == "median" and a.asname is None for a in n.names)]
    if not imp:
        raise Untranslatable("_trained_median", "`from statistics import median` not found")
    out = []
    for k in ("m", "u"):
        f = func(tree, f"_trained_{k}_median", "ComparisonLevel")
        b = f.body
        ok = len(b) == 4
        if ok:
            a0, a1, i2, r3 = b
            ok = (isinstance(a0, ast.Assign) and isinstance(a0.value, ast.ListComp) and is_sub(a0.value.elt, "probability")
                  and isinstance(a0.value.generators[0].iter, ast.Attribute) and a0.value.generators[0].iter.attr == f"_trained_{k}_probabilities"
                  and not a0.value.generators[0].ifs)
            ok = ok and (isinstance(a1, ast.Assign) and isinstance(a1.value, ast.ListComp) and isinstance(a1.value.elt, ast.Name)
                         and len(a1.value.generators[0].ifs) == 1
                         and ast.unparse(a1.value.generators[0].ifs[0]).replace(" ", "") == "isinstance(v,(int,float))")
            ok = ok and (isinstance(i2, ast.If) and ast.unparse(i2.test).replace(" ", "") == "len(vals)==0"
                         and isinstance(i2.body[0], ast.Return) and isinstance(i2.body[0].value, ast.Constant) and i2.body[0].value.value is None)
            ok = ok and (isinstance(r3, ast.Return) and ast.unparse(r3.value).replace(" ", "") == "median(vals)")
        if not ok:
            raise Untranslatable(f"_trained_{k}_median", "shape is not: numeric estimates, None when empty, statistics.median")
        out.append(f"Definition gen_trained_{k}_median (l : list pval) : option Q := median (numeric l).")
    return "\n".join(out)


def tr_populate_trained():
    f = func(src("linker.py"), "_populate_m_u_from_trained_values", "Linker")
    out = {}
    for st in ast.walk(f):
        if isinstance(st, ast.If) and isinstance(st.test, ast.BoolOp):
            k = None
            b = st.body[0]
            if isinstance(b, ast.Assign) and isinstance(b.targets[0], ast.Attribute) and b.targets[0].attr in ("m_probability", "u_probability") \
                    and isinstance(b.value, ast.Attribute) and b.value.attr == f"_trained_{b.targets[0].attr[0]}_median" and len(st.body) == 1 and not st.orelse:
                k = b.targets[0].attr[0]
            if k is None:
                raise Untranslatable("_populate_m_u_from_trained_values", "assignment shape")
            base = b.targets[0].value.id
            attrs = {(base, f"_has_estimated_{k}_values"): "has", (base, f"_fix_{k}_probability"): "fixed"}
            test = Ex("_populate_m_u_from_trained_values", {}, attrs).b(st.test)
            out[k] = f"Definition gen_populate_{k} (has fixed : bool) (med old : pval) : pval := if {test} then med else old."
    loops = [n for n in ast.walk(f) if isinstance(n, ast.For) and isinstance(n.iter, ast.Attribute) and n.iter.attr == "_comparison_levels_excluding_null"]
    if set(out) != {"m", "u"} or len(loops) != 1:
        raise Untranslatable("_populate_m_u_from_trained_values", f"targets {sorted(out)}")
    return out["m"] + "\n" + out["u"]


def tr_loop():
    """the iteration loop of expectation_maximisation: number of iterations and stop test"""
    f = func(src("expectation_maximisation.py"), "expectation_maximisation")
    loop = next((n for n in f.body if isinstance(n, ast.For)), None)
    if loop is None or not (isinstance(loop.iter, ast.Call) and isinstance(loop.iter.func, ast.Name) and loop.iter.func.id == "range" and len(loop.iter.args) == 2):
        raise Untranslatable("expectation_maximisation loop", "no `for i in range(a, b)`")
    e = Ex("expectation_maximisation loop", {"max_iterations": "(inject_Z (Z.of_nat max_iterations))"})
    lo, hi = e.q(loop.iter.args[0]), e.q(loop.iter.args[1])
    # history appended before the test, test on the last two entries
    names = [ast.unparse(s).split("(")[0] for s in loop.body if isinstance(s, ast.Expr) and isinstance(s.value, ast.Call)]
    idx_append = next((i for i, s in enumerate(loop.body) if isinstance(s, ast.Expr) and ast.unparse(s).startswith("core_model_settings_history.append(core_model_settings)")), None)
    idx_change = next((i for i, s in enumerate(loop.body) if isinstance(s, ast.Assign) and ast.unparse(s.value).replace(" ", "").replace("\n", "")
                       == "_max_change_in_parameters_comparison_levels(core_model_settings_history)"), None)
    last = loop.body[-1]
    if idx_append is None or idx_change is None or not idx_append < idx_change or not isinstance(last, ast.If) or last.orelse \
            or not (len(last.body) == 1 and isinstance(last.body[0], ast.Break)):
        raise Untranslatable("expectation_maximisation loop", "append / max-change / break order")
    chg = ast.unparse(loop.body[idx_change].targets[0])
    t = last.test
    if not (isinstance(t, ast.Compare) and is_sub(t.left, "max_abs_change_value") and ast.unparse(t.left.value) == chg):
        raise Untranslatable("expectation_maximisation loop", "stop test does not read max_abs_change_value")
    e2 = Ex("expectation_maximisation loop", {"em_convergence": "conv", "__chg": "change"})
    t2 = ast.Compare(left=ast.Name(id="__chg"), ops=t.ops, comparators=t.comparators)
    stop = e2.b(t2)
    return (f"Definition gen_iterations (max_iterations : nat) : Q := {hi} - {lo}.\n"
            f"Definition gen_stop (change conv : Q) : bool := {stop}.")


ALLOWED_KEYS = {"prev_comparison_level", "current_comparison_level", "max_change_type", "max_change_value",
                "output_column_name", "message", "previous_iteration", "this_iteration"}


def tr_block(frag, stmts, e: Ex, state):
    """straight-line block with assignment-only `if`s -> nested lets ending in the state tuple"""
    out = ""
    for st in stmts:
        if isinstance(st, ast.Assign) and len(st.targets) == 1:
            t = st.targets[0]
            if isinstance(t, ast.Name):
                if isinstance(st.value, (ast.IfExp, ast.BinOp, ast.Call, ast.Name, ast.Constant, ast.Attribute, ast.UnaryOp)):
                    try:
                        out += f"let {t.id} := {e.q(st.value)} in\n    "
                        e.env[t.id] = t.id
                    except Untranslatable:
                        if isinstance(st.value, ast.IfExp) and all(isinstance(x, ast.Constant) and isinstance(x.value, str) for x in (st.value.body, st.value.orelse)):
                            continue      # a label such as change_type = "m_probability" if .. else ..
                        raise
                    continue
            if isinstance(t, ast.Subscript) and isinstance(t.slice, ast.Constant) and isinstance(t.value, ast.Name) and t.value.id == "max_change_levels":
                if t.slice.value == "max_abs_change_value":
                    out += f"let mac := {e.q(st.value)} in\n    "
                    e.env["mac"] = "mac"
                    continue
                if t.slice.value in ALLOWED_KEYS:
                    continue
            raise Untranslatable(frag, "assignment " + ast.unparse(st)[:120])
        if isinstance(st, ast.If) and not st.orelse:
            test = e.b(st.test)
            inner = Ex(frag, e.env, e.attrs)
            body = tr_block(frag, st.body, inner, state)
            out += f"let '({', '.join(state)}) := if {test} then ({body}) else ({', '.join(e.env[s] for s in state)}) in\n    "
            continue
        raise Untranslatable(frag, "statement " + ast.unparse(st)[:120])
    return out + "(" + ", ".join(e.env[s] for s in state) + ")"


def tr_max_change():
    f = func(src("expectation_maximisation.py"), "_max_change_in_parameters_comparison_levels")
    frag = "_max_change_in_parameters_comparison_levels"
    init = next((s for s in f.body if isinstance(s, ast.Assign) and isinstance(s.targets[0], ast.Name) and s.targets[0].id == "max_change"), None)
    outer = next((s for s in f.body if isinstance(s, ast.For)), None)
    if init is None or outer is None:
        raise Untranslatable(frag, "init / outer loop")
    init_q = Ex(frag, {}).q(init.value)
    inner = next((s for s in outer.body if isinstance(s, ast.For)), None)
    if inner is None or not (isinstance(inner.body[0], ast.If) and ast.unparse(inner.body[0].test).endswith(".is_null_level")
                             and isinstance(inner.body[0].body[0], ast.Continue)):
        raise Untranslatable(frag, "level loop / null-level skip")
    body = inner.body[1:]
    # prev_cl = z_cl[0]; this_cl = z_cl[1]
    roles = {}
    rest = []
    for st in body:
        if isinstance(st, ast.Assign) and isinstance(st.targets[0], ast.Name) and isinstance(st.value, ast.Subscript) \
                and isinstance(st.value.slice, ast.Constant) and st.value.slice.value in (0, 1) and isinstance(st.value.value, ast.Name):
            roles[st.targets[0].id] = "prev" if st.value.slice.value == 0 else "this"
        else:
            rest.append(st)
    attrs = {}
    for nm, role in roles.items():
        attrs[(nm, "m_probability")] = f"{role}_m"
        attrs[(nm, "u_probability")] = f"{role}_u"
    e = Ex(frag, {"max_change": "max_change", "mac": "mac"}, attrs)
    lvl = tr_block(frag, rest, e, ["max_change", "mac"])
    # lambda block: statements after the outer loop up to the message
    after = f.body[f.body.index(outer) + 1:]
    lam_stmts = [s for s in after if not (isinstance(s, ast.Return) or (isinstance(s, ast.Assign) and isinstance(s.targets[0], ast.Subscript)
                                                                        and isinstance(s.targets[0].slice, ast.Constant) and s.targets[0].slice.value == "message"))]
    pi = ast.unparse(f.body[0]) + ast.unparse(f.body[1])
    if "previous_iteration = core_model_settings_history[-2]" not in pi or "this_iteration = core_model_settings_history[-1]" not in pi:
        raise Untranslatable(frag, "does not compare the last two history entries")
    attrs2 = {("this_iteration", "probability_two_random_records_match"): "this_lam",
              ("previous_iteration", "probability_two_random_records_match"): "prev_lam"}
    e2 = Ex(frag, {"max_change": "max_change", "mac": "mac"}, attrs2)
    lam = tr_block(frag, lam_stmts, e2, ["max_change", "mac"])
    ret = f.body[-1]
    if not (isinstance(ret, ast.Return) and isinstance(ret.value, ast.Name) and ret.value.id == "max_change_levels"):
        raise Untranslatable(frag, "return value")
    return (f"Definition gen_mc_init : Q * Q := ({init_q}, 0).\n"
            f"Definition gen_mc_level (st : Q * Q) (prev_m this_m prev_u this_u : Q) : Q * Q :=\n  let '(max_change, mac) := st in\n    {lvl}.\n"
            f"Definition gen_mc_lambda (st : Q * Q) (prev_lam this_lam : Q) : Q * Q :=\n  let '(max_change, mac) := st in\n    {lam}.\n"
            "Definition gen_max_change (p p' : params) : Q :=\n"
            "  let lv := flat_map (fun cc => combine (fst cc) (snd cc)) (combine (cmps p) (cmps p')) in\n"
            "  let st := fold_left (fun st ll => gen_mc_level st (rd (lv_m (fst ll))) (rd (lv_m (snd ll))) (rd (lv_u (fst ll))) (rd (lv_u (snd ll)))) lv gen_mc_init in\n"
            "  snd (gen_mc_lambda st (lam p) (lam p')).")


def tr_proportions_path():
    f = func(src("expectation_maximisation.py"), "compute_proportions_for_new_parameters")
    t = next((s for s in f.body if isinstance(s, ast.Try)), None)
    ok = t is not None
    if ok:
        txt = " ".join(ast.unparse(s) for s in t.body).replace(" ", "")
        ok = ("importduckdb" in txt and "sql=compute_proportions_for_new_parameters_sql('m_u_df')" in txt
              and "returnduckdb.query(sql).to_df().to_dict('records')" in txt)
        ok = ok and all(isinstance(h.type, ast.Tuple) or isinstance(h.type, ast.Name) for h in t.handlers) and \
            all("ImportError" in ast.unparse(h.type) or "ModuleNotFoundError" in ast.unparse(h.type) for h in t.handlers)
    if not ok:
        raise Untranslatable("compute_proportions_for_new_parameters", "does not run compute_proportions_for_new_parameters_sql through duckdb")
    return "(* compute_proportions_for_new_parameters runs the SQL of compute_proportions_for_new_parameters_sql (skeleton: translators/c03_sql.py) *)"


FRAGMENTS = [("populate_m_u_from_lookup", tr_populate), ("maximisation_step (lambda)", tr_lambda),
             ("not-observed reader", tr_reader), ("trained median", tr_median),
             ("_populate_m_u_from_trained_values", tr_populate_trained), ("iteration loop and stop test", tr_loop),
             ("_max_change_in_parameters_comparison_levels", tr_max_change),
             ("compute_proportions_for_new_parameters path", tr_proportions_path)]

GEN_HEADER = """(* GENERATED by translators/c03_py.py from the Python bookkeeping of EM training *)
From Coq Require Import String Ascii.
From Coq Require Import List ZArith QArith Qreduction Qabs Qminmax Bool Arith Lia.
From Splinkv Require Import Model.EM.
Import ListNotations.
Open Scope Q_scope.
"""

OB_HEADER = GEN_HEADER.replace("(* GENERATED by translators/c03_py.py from the Python bookkeeping of EM training *)", "") + \
    "From SplinkGen Require Import C03_py_gen.\n"

GRID = """
Definition gvals : list pval := [Val 0; Val (1 # 4); Val (1 # 2); Val (3 # 4); NotObserved].
Definition glam : list Q := [1 # 10; 3 # 10; 1 # 2].
Definition mk (lm : Q) (a b c d : pval) : params :=
  {| lam := lm; cmps := [[ {| lv_val := 1; lv_m := a; lv_u := b; lv_fixm := false; lv_fixu := false; lv_tfu := None |};
                           {| lv_val := 0; lv_m := c; lv_u := d; lv_fixm := false; lv_fixu := false; lv_tfu := None |} ]] |}.
Definition grid : list params :=
  flat_map (fun lm => flat_map (fun a => flat_map (fun b => flat_map (fun c => map (fun d => mk lm a b c d) [Val (1 # 4); NotObserved]) [Val 0; Val (3 # 4)]) gvals) gvals) glam.
"""


def obligations_text():
    """name -> Coq text proving that the regenerated definition is the modelled one"""
    obs = {}
    obs["py_populate_from_lookup"] = """
Lemma ob : forall fl t l,
  new_m fl t l = gen_new_m (fix_m fl) (fix_u fl) (lv_fixm l) (lv_fixu l)
                   (option_map (fun x => Qred (cr_m x)) (lookup (lv_val l) t)) (option_map (fun x => Qred (cr_u x)) (lookup (lv_val l) t)) (lv_m l) /\\
  new_u fl t l = gen_new_u (fix_m fl) (fix_u fl) (lv_fixm l) (lv_fixu l)
                   (option_map (fun x => Qred (cr_m x)) (lookup (lv_val l) t)) (option_map (fun x => Qred (cr_u x)) (lookup (lv_val l) t)) (lv_u l).
Proof.
  intros fl t l. unfold new_m, new_u, gen_new_m, gen_new_u.
  destruct (fix_m fl), (fix_u fl), (lv_fixm l), (lv_fixu l), (lookup (lv_val l) t); split; reflexivity.
Qed.
"""
    obs["py_lambda_update"] = """
Lemma ob : forall fl p sc, lam (mstep fl p sc) = gen_new_lam (fix_lam fl) (lam p) (Qred (lambda_new sc)).
Proof. intros fl p sc. unfold gen_new_lam. cbn. destruct (fix_lam fl); reflexivity. Qed.
"""
    obs["py_not_observed_constant"] = """
Lemma ob : Qeq_bool gen_not_observed_read_m not_observed_read = true /\\ Qeq_bool gen_not_observed_read_u not_observed_read = true.
Proof. split; vm_compute; reflexivity. Qed.
"""
    obs["py_trained_median"] = """
Lemma ob : forall l, gen_trained_m_median l = median (numeric l) /\\ gen_trained_u_median l = median (numeric l).
Proof. intros l. split; reflexivity. Qed.
"""
    obs["py_populate_from_trained"] = """
Lemma ob : forall l,
  lv_m (ml_lv (populate_level l)) =
    (match median (numeric (ml_tm l)) with
     | Some q => gen_populate_m true (lv_fixm (ml_lv l)) (Val q) (lv_m (ml_lv l))
     | None => gen_populate_m false (lv_fixm (ml_lv l)) (lv_m (ml_lv l)) (lv_m (ml_lv l)) end) /\\
  lv_u (ml_lv (populate_level l)) =
    (match median (numeric (ml_tu l)) with
     | Some q => gen_populate_u true (lv_fixu (ml_lv l)) (Val q) (lv_u (ml_lv l))
     | None => gen_populate_u false (lv_fixu (ml_lv l)) (lv_u (ml_lv l)) (lv_u (ml_lv l)) end).
Proof.
  intros l. unfold populate_level, gen_populate_m, gen_populate_u. cbn [ml_lv lv_m lv_u].
  destruct (median (numeric (ml_tm l))), (median (numeric (ml_tu l))), (lv_fixm (ml_lv l)), (lv_fixu (ml_lv l)); split; reflexivity.
Qed.
"""
    obs["py_iteration_count"] = """
Lemma ob : forall n : nat, gen_iterations n == inject_Z (Z.of_nat n).
Proof. intros n. unfold gen_iterations. ring. Qed.
"""
    obs["py_stop_test"] = """
Lemma ob : forall change conv, gen_stop change conv = Qlt_bool change conv.
Proof. intros. reflexivity. Qed.
"""
    obs["py_max_change_grid"] = GRID + """
Lemma ob : forallb (fun p => forallb (fun p' => Qeq_bool (gen_max_change p p') (max_change p p')) grid) grid = true.
Proof. vm_compute. reflexivity. Qed.
"""
    return obs


def counterexample_text(name):
    """evaluated (not proved) when an obligation fails, to put a concrete difference in the replay"""
    if name == "py_stop_test":
        return "Eval vm_compute in (filter (fun cc => negb (Bool.eqb (gen_stop (fst cc) (snd cc)) (Qlt_bool (fst cc) (snd cc)))) [(0, 1 # 100); (1 # 100, 1 # 100); (1 # 50, 1 # 100)])."
    if name == "py_max_change_grid":
        return GRID + "Eval vm_compute in (hd_error (flat_map (fun p => flat_map (fun p' => if Qeq_bool (gen_max_change p p') (max_change p p') then [] else [(p, p', gen_max_change p p', max_change p p')]) grid) grid))."
    if name == "py_not_observed_constant":
        return "Eval vm_compute in (gen_not_observed_read_m, gen_not_observed_read_u, not_observed_read)."
    return None


def generate():
    """returns (gen_text, failures) where failures = [(fragment, why)]"""
    parts, fails = [GEN_HEADER], []
    for name, fn in FRAGMENTS:
        try:
            parts.append(f"(* {name} *)\n" + fn())
        except Untranslatable as e:
            fails.append((name, str(e)))
        except Exception as e:  # unknown shape reached an unguarded access: still fail closed
            fails.append((name, f"translator error {type(e).__name__}: {e}"))
    return "\n\n".join(parts) + "\n", fails
