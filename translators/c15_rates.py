"""C15 translator: arithmetic of the derived-rate columns of the truth-space table.

Reads the text of the final SELECT (`__splink__truth_space_table`) that the real
`truth_space_table_from_labels_with_predictions_sqls` in /repo emits, parses it with sqlglot and
turns every derived column into a Gallina `aexp` (Model/Accuracy.v).  Fail-closed: any node
shape that is not understood raises Untranslatable.  Also performs a small static typing pass:
a division whose two operands are both integer-typed (counts, integer literals, sums and
products of them) is an INTEGER division on SQLite/Postgres - the shape of the P_rate defect
fixed in /repo 1581950a - and is reported as such.
"""
from __future__ import annotations

from fractions import Fraction

import sqlglot
from sqlglot import exp

VARS = {"tp": "vTP", "tn": "vTN", "fp": "vFP", "fn": "vFN", "p": "vP", "n": "vN",
        "total_clerical_labels": "vTotal"}
# columns of the final select that are not derived rates
PLAIN = {"truth_threshold", "match_probability", "total_clerical_labels", "p", "n", "tp", "tn", "fp", "fn"}


class Untranslatable(Exception):
    pass


def _q(fr: Fraction) -> str:
    return f"(AConst (Qmake ({fr.numerator})%Z {fr.denominator}%positive))"


def _is_float_type(dt: exp.DataType) -> bool:
    return dt.this in (exp.DataType.Type.FLOAT, exp.DataType.Type.DOUBLE, exp.DataType.Type.DECIMAL)


def tr(e: exp.Expression):
    """returns (coq_text, is_float, notes)"""
    if isinstance(e, exp.Paren):
        return tr(e.this)
    if isinstance(e, exp.Cast):
        t, _, notes = tr(e.this)
        if not _is_float_type(e.to):
            raise Untranslatable(f"cast to {e.to.sql()}")
        return t, True, notes
    if isinstance(e, exp.Column):
        name = e.name.lower()
        if name not in VARS:
            raise Untranslatable(f"column {name}")
        return f"(AVar {VARS[name]})", False, []
    if isinstance(e, exp.Literal):
        if e.is_string:
            raise Untranslatable("string literal")
        txt = e.this
        return _q(Fraction(txt)), ("." in txt or "e" in txt.lower()), []
    if isinstance(e, (exp.Add, exp.Sub, exp.Mul, exp.Div)):
        a, fa, na = tr(e.left)
        b, fb, nb = tr(e.right)
        notes = na + nb
        op = {exp.Add: "AAdd", exp.Sub: "ASub", exp.Mul: "AMul", exp.Div: "ADiv"}[type(e)]
        if isinstance(e, exp.Div) and not (fa or fb):
            notes = notes + [f"integer division: {e.sql()}"]
        return f"({op} {a} {b})", fa or fb, notes
    if isinstance(e, exp.Sqrt):
        a, _, notes = tr(e.this)
        return f"(ASqrt {a})", True, notes
    if isinstance(e, exp.Case):
        if e.args.get("this") is not None or len(e.args["ifs"]) != 1 or e.args.get("default") is None:
            raise Untranslatable("case shape")
        iff = e.args["ifs"][0]
        zs, notes = [], []

        def conds(c):
            if isinstance(c, exp.Paren):
                return conds(c.this)
            if isinstance(c, exp.Or):
                return conds(c.left) + conds(c.right)
            if isinstance(c, exp.EQ) and isinstance(c.right, exp.Literal) and Fraction(c.right.this) == 0:
                return [c.left]
            raise Untranslatable(f"case condition {c.sql()}")

        for z in conds(iff.this):
            t, _, nz = tr(z)
            zs.append(t)
            notes += nz
        a, fa, na = tr(iff.args["true"])
        b, fb, nb = tr(e.args["default"])
        return f"(AIfAnyZero [{'; '.join(zs)}] {a} {b})", fa or fb, notes + na + nb
    raise Untranslatable(f"{type(e).__name__}: {e.sql()[:80]}")


def extract(sql: str):
    """-> (list of (name, coq aexp text), list of notes, where-clause text)"""
    tree = sqlglot.parse_one(sql)
    if not isinstance(tree, exp.Select):
        raise Untranslatable("final statement is not a SELECT")
    out, notes = [], []
    for item in tree.expressions:
        name = item.alias_or_name
        if name.lower() in PLAIN:
            continue
        body = item.this if isinstance(item, exp.Alias) else item
        t, _, ns = tr(body)
        out.append((name, t))
        notes += [f"{name}: {n}" for n in ns]
    where = tree.args.get("where")
    return out, notes, (where.this.sql() if where is not None else None)


def final_select_sql():
    from splink.internals.accuracy import truth_space_table_from_labels_with_predictions_sqls
    sqls = truth_space_table_from_labels_with_predictions_sqls(0.5, None, None, True)
    last = sqls[-1]
    if last["output_table_name"] != "__splink__truth_space_table":
        raise Untranslatable("last CTE is " + last["output_table_name"])
    return last["sql"], [s["output_table_name"] for s in sqls]
