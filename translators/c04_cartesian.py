"""Fail-closed translator: splink/internals/misc.py:calculate_cartesian  ->  Gallina.

The Python AST of the function is walked with a whitelist of statement / expression shapes;
anything else raises Untranslatable.  The output is a Coq file defining `cartesian_gen` and
the tie lemma `cartesian_gen_is_model` (conversion with Model/Estimators.v `cartesian`) plus the
counting theorem restated for the generated definition.
"""
from __future__ import annotations

import ast
from pathlib import Path

from harness.common import REPO


class Untranslatable(Exception):
    pass


LT = {"link_only": "LinkOnly", "dedupe_only": "DedupeOnly", "link_and_dedupe": "LinkAndDedupe"}


def _is_count_of(node, var):
    """m["count"] with m == var"""
    return (isinstance(node, ast.Subscript) and isinstance(node.value, ast.Name) and node.value.id == var
            and isinstance(node.slice, ast.Constant) and node.slice.value == "count")


def expr(node, rows, env):
    if isinstance(node, ast.Constant) and isinstance(node.value, int) and not isinstance(node.value, bool):
        return str(node.value)
    if isinstance(node, ast.Name) and node.id in env:
        return node.id
    if isinstance(node, ast.BinOp):
        if isinstance(node.op, ast.Pow):
            if not (isinstance(node.right, ast.Constant) and node.right.value == 2):
                raise Untranslatable("power other than ** 2")
            return f"({expr(node.left, rows, env)} ^ 2)"
        ops = {ast.Sub: "-", ast.Mult: "*", ast.Div: "/", ast.Add: "+"}
        for k, s in ops.items():
            if isinstance(node.op, k):
                return f"({expr(node.left, rows, env)} {s} {expr(node.right, rows, env)})"
        raise Untranslatable(f"operator {ast.dump(node.op)}")
    # sum([ELT for m in n])
    if (isinstance(node, ast.Call) and isinstance(node.func, ast.Name) and node.func.id == "sum" and len(node.args) == 1
            and not node.keywords and isinstance(node.args[0], (ast.ListComp, ast.GeneratorExp))):
        comp = node.args[0]
        if len(comp.generators) != 1 or comp.generators[0].ifs or not isinstance(comp.generators[0].target, ast.Name):
            raise Untranslatable("comprehension shape")
        g = comp.generators[0]
        if not (isinstance(g.iter, ast.Name) and g.iter.id in rows):
            raise Untranslatable("comprehension iterates over something other than the row counts")
        var = g.target.id
        if _is_count_of(comp.elt, var):
            return "(sumc ns)"
        if (isinstance(comp.elt, ast.BinOp) and isinstance(comp.elt.op, ast.Pow) and _is_count_of(comp.elt.left, var)
                and isinstance(comp.elt.right, ast.Constant) and comp.elt.right.value == 2):
            return "(sumc (map (fun m => m ^ 2) ns))"
        raise Untranslatable("summand " + ast.dump(comp.elt))
    # n[0]["count"]
    if (isinstance(node, ast.Subscript) and isinstance(node.slice, ast.Constant) and node.slice.value == "count"
            and isinstance(node.value, ast.Subscript) and isinstance(node.value.value, ast.Name) and node.value.value.id in rows
            and isinstance(node.value.slice, ast.Constant) and node.value.slice.value == 0):
        return "(nth 0 ns 0)"
    raise Untranslatable("expression " + ast.dump(node)[:200])


def guard(test, rows):
    """len(n) <= 1  /  len(n) > 1  -> Coq boolean that makes the code raise"""
    if (isinstance(test, ast.Compare) and len(test.ops) == 1 and isinstance(test.left, ast.Call)
            and isinstance(test.left.func, ast.Name) and test.left.func.id == "len" and len(test.left.args) == 1
            and isinstance(test.left.args[0], ast.Name) and test.left.args[0].id in rows
            and isinstance(test.comparators[0], ast.Constant) and isinstance(test.comparators[0].value, int)):
        k = test.comparators[0].value
        if isinstance(test.ops[0], ast.LtE):
            return f"Nat.leb (length ns) {k}"
        if isinstance(test.ops[0], ast.Gt):
            return f"Nat.ltb {k} (length ns)"
        if isinstance(test.ops[0], ast.Lt):
            return f"Nat.ltb (length ns) {k}"
        if isinstance(test.ops[0], ast.GtE):
            return f"Nat.leb {k} (length ns)"
    raise Untranslatable("guard " + ast.dump(test)[:200])


def branch(stmts, rows):
    env = set()
    out = ""
    closers = ""
    for st in stmts:
        if isinstance(st, ast.Expr) and isinstance(st.value, ast.Constant):
            continue  # comment string
        if isinstance(st, ast.If):
            if st.orelse or not (len(st.body) == 1 and isinstance(st.body[0], ast.Raise)):
                raise Untranslatable("inner if that is not a raising guard")
            out += f"if {guard(st.test, rows)} then None else "
        elif isinstance(st, ast.Assign) and len(st.targets) == 1 and isinstance(st.targets[0], ast.Name):
            out += f"let {st.targets[0].id} := {expr(st.value, rows, env)} in "
            env.add(st.targets[0].id)
        elif isinstance(st, ast.Return) and st.value is not None:
            return out + f"Some {expr(st.value, rows, env)}" + closers
        else:
            raise Untranslatable("statement " + ast.dump(st)[:200])
    raise Untranslatable("branch without return")


def translate() -> dict:
    src = (Path(REPO) / "splink/internals/misc.py").read_text()
    fn = next((n for n in ast.parse(src).body if isinstance(n, ast.FunctionDef) and n.name == "calculate_cartesian"), None)
    if fn is None:
        raise Untranslatable("calculate_cartesian not found")
    args = [a.arg for a in fn.args.args]
    if args != ["df_rows", "link_type"]:
        raise Untranslatable(f"signature {args}")
    rows = {"df_rows"}
    branches = {}
    body = list(fn.body)
    for st in body:
        if isinstance(st, ast.Expr) and isinstance(st.value, ast.Constant):
            continue  # docstring
        if isinstance(st, ast.Assign) and len(st.targets) == 1 and isinstance(st.targets[0], ast.Name) \
                and isinstance(st.value, ast.Name) and st.value.id in rows:
            rows.add(st.targets[0].id)
            continue
        if isinstance(st, ast.If):
            t = st.test
            if not (isinstance(t, ast.Compare) and isinstance(t.left, ast.Name) and t.left.id == "link_type" and len(t.ops) == 1
                    and isinstance(t.ops[0], ast.Eq) and isinstance(t.comparators[0], ast.Constant)
                    and t.comparators[0].value in LT and not st.orelse):
                raise Untranslatable("top-level if " + ast.dump(t)[:200])
            key = LT[t.comparators[0].value]
            if key in branches:
                raise Untranslatable("duplicate link type branch")
            branches[key] = branch(st.body, rows)
            continue
        if isinstance(st, ast.Raise):
            continue
        raise Untranslatable("top-level statement " + ast.dump(st)[:200])
    if set(branches) != set(LT.values()):
        raise Untranslatable(f"link types covered: {sorted(branches)}")
    return branches


def coq_text(branches: dict) -> str:
    arms = "\n".join(f"  | {k} => {v}" for k, v in branches.items())
    return f"""(* GENERATED by translators/c04_cartesian.py from splink/internals/misc.py:calculate_cartesian *)
From Coq Require Import String Ascii.
From Coq Require Import List ZArith QArith Bool Arith.
From Splinkv Require Import Model.EM Model.Estimators Proofs.EstimatorsP.
Import ListNotations.
Open Scope Q_scope.
Definition cartesian_gen (lt : link_t) (ns : list Q) : option Q :=
  match lt with
{arms}
  end.
Lemma cartesian_gen_is_model : forall lt ns, cartesian_gen lt ns = cartesian lt ns.
Proof. intros [] ns; reflexivity. Qed.
Theorem cartesian_gen_counts_admissible_pairs :
  forall lt ns c,
    cartesian_gen lt (map (fun n => inject_Z (Z.of_nat n)) ns) = Some c ->
    c == inject_Z (Z.of_nat (admissible_pairs lt ns)).
Proof. intros lt ns c. rewrite cartesian_gen_is_model. apply cartesian_counts_admissible_pairs. Qed.
Print Assumptions cartesian_gen_counts_admissible_pairs.
"""


def search_text(branches: dict) -> str:
    """Used only when the tie lemma fails: find table sizes on which the generated formula is not
    the number of admissible pairs (evaluated in Coq; no proof involved)."""
    arms = "\n".join(f"  | {k} => {v}" for k, v in branches.items())
    return f"""From Coq Require Import String Ascii.
From Coq Require Import List ZArith QArith Bool Arith.
From Splinkv Require Import Model.EM Model.Estimators.
Import ListNotations.
Open Scope Q_scope.
Definition cartesian_gen (lt : link_t) (ns : list Q) : option Q :=
  match lt with
{arms}
  end.
Definition sizes : list (list nat) :=
  flat_map (fun a => [a] :: flat_map (fun b => [a; b] :: map (fun c => [a; b; c]) [1; 2; 3]%nat) [1; 2; 3; 4]%nat) [1; 2; 3; 5]%nat.
Definition okb (lt : link_t) (ns : list nat) : bool :=
  match lt, ns with
  | DedupeOnly, [_] | LinkOnly, _ :: _ :: _ | LinkAndDedupe, _ =>
      match cartesian_gen lt (map (fun n => inject_Z (Z.of_nat n)) ns) with
      | Some c => Qeq_bool c (inject_Z (Z.of_nat (admissible_pairs lt ns)))
      | None => false
      end
  | _, _ => true
  end.
Definition code (lt : link_t) : nat := match lt with DedupeOnly => 0 | LinkOnly => 1 | LinkAndDedupe => 2 end%nat.
Eval vm_compute in (flat_map (fun lt => map (fun ns => (code lt, ns)) (filter (fun ns => negb (okb lt ns)) sizes)) [DedupeOnly; LinkOnly; LinkAndDedupe]).
"""
