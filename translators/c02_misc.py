"""Translator for C02 (second tie): the pure arithmetic of splink/internals/misc.py, read with the
Python `ast` module from /repo's current source and emitted as Gallina over Q into
coq/gen/C02_misc_gen.v on every run.  The lemmas of harness/c02_misc.py are then re-proved on the
generated text.

Floats are exact rationals (Q); `inf` is Scoring.xq's Inf; float match weights are an abstract type
W with  log2x : xq -> W  (math.log2),  pow2 : W -> Q  (2 ** w)  and  wzero : W -> bool  (w == 0.0),
explicit parameters of every generated function, so the lemmas hold for every such functions.  Optional arguments are
`option`; `raise` is the constructor Raise of `res`.

Fail-closed: a function whose signature or body leaves the fragment below raises Untranslatable.
  expressions  names, numeric constants, inf, None, + - * /, 2 ** w, log2(e), a if c else b,
               == != against constants, `x is None`, `x is not None`, calls of translated functions,
               [e for i in range(0, n)]
  statements   x = e | return e | raise ... | if c: <block ending in return/raise>   (no else)
               where c is  x is not None  |  conjunction of such tests  |  x (truthiness)  |  comparison
"""
from __future__ import annotations

import ast
from fractions import Fraction
from pathlib import Path


class Untranslatable(Exception):
    pass


# name -> ([(param, type)], result type);  types: Q xq W nat oQ oW  /  results also "lQ", "res oW", "res oQ"
SIGS = {
    "prob_to_bayes_factor": ([("prob", "Q")], "xq"),
    "prob_to_match_weight": ([("prob", "Q")], "W"),
    "match_weight_to_bayes_factor": ([("weight", "W")], "Q"),
    "bayes_factor_to_prob": ([("bf", "Q")], "Q"),
    "interpolate": ([("start", "Q"), ("end", "Q"), ("num_elements", "nat")], "lQ"),
    "threshold_args_to_match_weight": ([("threshold_match_probability", "oQ"), ("threshold_match_weight", "oW")], "res oW"),
    "threshold_args_to_match_prob": ([("threshold_match_probability", "oQ"), ("threshold_match_weight", "oW")], "res oQ"),
}
ORDER = ["prob_to_bayes_factor", "prob_to_match_weight", "match_weight_to_bayes_factor", "bayes_factor_to_prob",
         "interpolate", "threshold_args_to_match_weight", "threshold_args_to_match_prob"]
COQTY = {"Q": "Q", "xq": "xq", "W": "W", "nat": "nat", "Z": "Z", "oQ": "option Q", "oW": "option W", "lQ": "list Q",
         "res oW": "res (option W)", "res oQ": "res (option Q)", "bool": "bool"}
RESERVED = {"end", "in", "match", "with", "fun", "let", "if", "then", "else", "at", "as", "return", "Type", "Set", "Prop", "fix"}


def cname(n: str) -> str:
    return n + "_" if n in RESERVED else n


def qlit(v) -> str:
    f = Fraction(v)
    return f"({f.numerator} # {f.denominator})" if f >= 0 else f"(-({-f.numerator} # {f.denominator}))"


class Fn:
    def __init__(self, name, node):
        self.name, self.node = name, node
        self.params, self.ret = SIGS[name]

    # ------------------------------------------------------------------ expressions
    def coerce(self, txt, ty, want):
        if ty == want:
            return txt
        if (ty, want) == ("Q", "xq"):
            return f"(Fin {txt})"
        if (ty, want) == ("nat", "Z"):
            return f"(Z.of_nat {txt})"
        if (ty, want) == ("Z", "Q"):
            return f"(inject_Z {txt})"
        if (ty, want) == ("nat", "Q"):
            return f"(inject_Z (Z.of_nat {txt}))"
        raise Untranslatable(f"{self.name}: cannot use a {ty} as {want}: {txt}")

    def expr(self, n, env):
        """-> (coq text, type)"""
        if isinstance(n, ast.Constant):
            if isinstance(n.value, bool) or n.value is None:
                raise Untranslatable(f"{self.name}: constant {n.value!r} in arithmetic")
            if isinstance(n.value, int):
                return f"({n.value})%Z", "Z"
            if isinstance(n.value, float):
                return qlit(repr(n.value)), "Q"
            raise Untranslatable(f"{self.name}: constant {n.value!r}")
        if isinstance(n, ast.Name):
            if n.id == "inf":
                return "Inf", "xq"
            if n.id in env:
                return env[n.id]
            raise Untranslatable(f"{self.name}: unknown name {n.id}")
        if isinstance(n, ast.BinOp):
            if isinstance(n.op, ast.Pow):
                if not (isinstance(n.left, ast.Constant) and n.left.value == 2):
                    raise Untranslatable(f"{self.name}: power with base other than 2")
                r, rt = self.expr(n.right, env)
                return f"(pow2 {self.coerce(r, rt, 'W')})", "Q"
            a, at = self.expr(n.left, env)
            b, bt = self.expr(n.right, env)
            ops = {ast.Add: "+", ast.Sub: "-", ast.Mult: "*", ast.Div: "/"}
            if type(n.op) not in ops:
                raise Untranslatable(f"{self.name}: operator {type(n.op).__name__}")
            op = ops[type(n.op)]
            if at in ("Z", "nat") and bt in ("Z", "nat") and op != "/":
                return f"({self.coerce(a, at, 'Z')} {op} {self.coerce(b, bt, 'Z')})%Z", "Z"
            return f"({self.coerce(a, at, 'Q')} {op} {self.coerce(b, bt, 'Q')})", "Q"
        if isinstance(n, ast.IfExp):
            c = self.cond(n.test, env)
            a, at = self.expr(n.body, env)
            b, bt = self.expr(n.orelse, env)
            ty = at if at == bt else ("xq" if "xq" in (at, bt) else "Q")
            return f"(if {c} then {self.coerce(a, at, ty)} else {self.coerce(b, bt, ty)})", ty
        if isinstance(n, ast.Call) and isinstance(n.func, ast.Name) and not n.keywords:
            f = n.func.id
            if f == "log2" and len(n.args) == 1:
                a, at = self.expr(n.args[0], env)
                return f"(log2x {self.coerce(a, at, 'xq')})", "W"
            if f in SIGS and SIGS[f][1] in ("Q", "xq", "W") and len(n.args) == len(SIGS[f][0]):
                args = []
                for arg, (_, pt) in zip(n.args, SIGS[f][0]):
                    a, at = self.expr(arg, env)
                    args.append(self.coerce(a, at, pt))
                return f"({f} W log2x pow2 wzero {' '.join(args)})", SIGS[f][1]
            raise Untranslatable(f"{self.name}: call of {f}")
        if isinstance(n, ast.ListComp) and len(n.generators) == 1:
            g = n.generators[0]
            it = g.iter
            if g.ifs or g.is_async or not isinstance(g.target, ast.Name):
                raise Untranslatable(f"{self.name}: comprehension shape")
            if not (isinstance(it, ast.Call) and isinstance(it.func, ast.Name) and it.func.id == "range" and len(it.args) == 2
                    and isinstance(it.args[0], ast.Constant) and it.args[0].value == 0):
                raise Untranslatable(f"{self.name}: comprehension not over range(0, n)")
            hi, ht = self.expr(it.args[1], env)
            if ht != "nat":
                raise Untranslatable(f"{self.name}: range bound is a {ht}")
            i = cname(g.target.id)
            env2 = dict(env)
            env2[g.target.id] = (i, "nat")
            e, et = self.expr(n.elt, env2)
            return f"(map (fun {i} : nat => {self.coerce(e, et, 'Q')}) (seq 0 {hi}))", "lQ"
        raise Untranslatable(f"{self.name}: expression {ast.dump(n)[:80]}")

    def cond(self, n, env) -> str:
        if isinstance(n, ast.Compare) and len(n.ops) == 1:
            op, right = n.ops[0], n.comparators[0]
            if isinstance(op, (ast.Is, ast.IsNot)) and isinstance(right, ast.Constant) and right.value is None:
                a, at = self.expr(n.left, env)
                if at not in ("oQ", "oW"):
                    raise Untranslatable(f"{self.name}: None test on a {at}")
                t = f"(is_some {a})"
                return t if isinstance(op, ast.IsNot) else f"(negb {t})"
            if isinstance(op, (ast.Eq, ast.NotEq)):
                a, at = self.expr(n.left, env)
                b, bt = self.expr(right, env)
                if at == "W" or bt == "W":
                    if not (isinstance(right, ast.Constant) and right.value == 0 and at == "W"):
                        raise Untranslatable(f"{self.name}: weight compared with non-zero")
                    t = f"(wzero {a})"
                else:
                    t = f"(Qeq_bool {self.coerce(a, at, 'Q')} {self.coerce(b, bt, 'Q')})"
                return t if isinstance(op, ast.Eq) else f"(negb {t})"
        if isinstance(n, ast.BoolOp) and isinstance(n.op, ast.And):
            return "(" + " && ".join(self.cond(v, env) for v in n.values) + ")"
        raise Untranslatable(f"{self.name}: condition {ast.dump(n)[:80]}")

    # ------------------------------------------------------------------ statements
    def ret_value(self, n, env) -> str:
        if self.ret.startswith("res "):
            inner = self.ret[4:]                 # oW / oQ
            base = inner[1:]
            if isinstance(n, ast.Constant) and n.value is None:
                return "(Ok None)"
            e, et = self.expr(n, env)
            if et == inner:
                return f"(Ok {e})"
            return f"(Ok (Some {self.coerce(e, et, base)}))"
        e, et = self.expr(n, env)
        return self.coerce(e, et, self.ret)

    def block(self, stmts, env) -> str:
        if not stmts:
            if self.ret.startswith("res "):
                return "(Ok None)"              # Python falls off the end: returns None
            raise Untranslatable(f"{self.name}: block without return")
        s, rest = stmts[0], stmts[1:]
        if isinstance(s, ast.Expr) and isinstance(s.value, ast.Constant) and isinstance(s.value.value, str):
            return self.block(rest, env)        # docstring
        if isinstance(s, ast.Return):
            if s.value is None:
                raise Untranslatable(f"{self.name}: bare return")
            return self.ret_value(s.value, env)
        if isinstance(s, ast.Raise):
            if not self.ret.startswith("res "):
                raise Untranslatable(f"{self.name}: raise in a total function")
            return "Raise"
        if isinstance(s, ast.Assign) and len(s.targets) == 1 and isinstance(s.targets[0], ast.Name):
            e, et = self.expr(s.value, env)
            v = cname(s.targets[0].id)
            env2 = dict(env)
            env2[s.targets[0].id] = (v, et)
            return f"(let {v} := {e} in {self.block(rest, env2)})"
        if isinstance(s, ast.If):
            if s.orelse:
                raise Untranslatable(f"{self.name}: if with else")
            if not self.terminates(s.body):
                raise Untranslatable(f"{self.name}: if-body may fall through")
            cont = self.block(rest, env)
            t = s.test
            # `x is not None`: bind the value
            if isinstance(t, ast.Compare) and len(t.ops) == 1 and isinstance(t.ops[0], ast.IsNot) and isinstance(t.left, ast.Name) \
                    and isinstance(t.comparators[0], ast.Constant) and t.comparators[0].value is None and t.left.id in env \
                    and env[t.left.id][1] in ("oQ", "oW"):
                x, xt = env[t.left.id]
                v = x + "_v"
                env2 = dict(env)
                env2[t.left.id] = (v, xt[1:])
                return f"(match {x} with Some {v} => {self.block(s.body, env2)} | None => {cont} end)"
            # truthiness of an optional number: None and 0 are false
            if isinstance(t, ast.Name) and t.id in env and env[t.id][1] in ("oQ", "oW"):
                x, xt = env[t.id]
                v = x + "_v"
                env2 = dict(env)
                env2[t.id] = (v, xt[1:])
                zero = f"(Qeq_bool {v} 0)" if xt == "oQ" else f"(wzero {v})"
                return f"(match {x} with Some {v} => if {zero} then {cont} else {self.block(s.body, env2)} | None => {cont} end)"
            return f"(if {self.cond(t, env)} then {self.block(s.body, env)} else {cont})"
        raise Untranslatable(f"{self.name}: statement {type(s).__name__}")

    def terminates(self, stmts) -> bool:
        if not stmts:
            return False
        last = stmts[-1]
        return isinstance(last, (ast.Return, ast.Raise))

    def definition(self) -> str:
        a = self.node.args
        if a.vararg or a.kwarg or a.kwonlyargs or a.defaults or a.posonlyargs:
            raise Untranslatable(f"{self.name}: parameter list shape")
        names = [x.arg for x in a.args]
        if names != [p for p, _ in self.params]:
            raise Untranslatable(f"{self.name}: parameters {names} (expected {[p for p, _ in self.params]})")
        env = {p: (cname(p), t) for p, t in self.params}
        body = self.block(self.node.body, env)
        ps = " ".join(f"({cname(p)} : {COQTY[t]})" for p, t in self.params)
        return f"Definition {self.name} {ENVP} {ps} : {COQTY[self.ret]} :=\n  {body}."


HEADER = """(* GENERATED on every run by translators/c02_misc.py from splink/internals/misc.py - do not edit *)
From Coq Require Import List Bool ZArith QArith.
From Splinkv Require Import Model.Scoring.
Import ListNotations.
Local Open Scope Q_scope.

Inductive res (A : Type) := Ok (a : A) | Raise.
Arguments Ok {A} a.
Arguments Raise {A}.
Definition is_some {A} (o : option A) : bool := match o with Some _ => true | None => false end.

(* every function takes the same four leading parameters:
     W : Type              a float match weight
     log2x : xq -> W       math.log2 (of a Bayes factor, possibly inf)
     pow2 : W -> Q         2 ** w
     wzero : W -> bool     w == 0.0                                   *)
"""
ENVP = "(W : Type) (log2x : xq -> W) (pow2 : W -> Q) (wzero : W -> bool)"


def translate(repo: Path) -> str:
    src = (Path(repo) / "splink/internals/misc.py").read_text()
    tree = ast.parse(src)
    found = {n.name: n for n in tree.body if isinstance(n, ast.FunctionDef)}
    out = [HEADER]
    for name in ORDER:
        if name not in found:
            raise Untranslatable(f"function {name} not found in misc.py")
        out.append(Fn(name, found[name]).definition() + "\n")
    return "\n".join(out)
