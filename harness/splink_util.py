"""Helpers to drive the real Splink (from /repo) quietly on DuckDB / SQLite."""
from __future__ import annotations

import logging
import sqlite3
import warnings

warnings.filterwarnings("ignore")
logging.getLogger("splink").setLevel(logging.ERROR)

import pandas as pd  # noqa: E402


def quiet():
    for name in list(logging.root.manager.loggerDict):
        if name.startswith("splink"):
            logging.getLogger(name).setLevel(logging.ERROR)


def duckdb_api(con=None):
    from splink import DuckDBAPI
    quiet()
    return DuckDBAPI(connection=con) if con is not None else DuckDBAPI()


def sqlite_api():
    from splink.internals.sqlite.database_api import SQLiteAPI
    quiet()
    return SQLiteAPI(":memory:")


def make_api(backend: str):
    return duckdb_api() if backend == "duckdb" else sqlite_api()


def linker(tables, settings, backend="duckdb", aliases=None, api=None):
    from splink import Linker
    api = api or make_api(backend)
    lk = Linker(tables if len(tables) > 1 else tables[0], settings, api, input_table_aliases=aliases)
    quiet()
    return lk


def records(sdf):
    return sdf.as_record_dict()


def df(rows: list[dict], columns=None) -> pd.DataFrame:
    d = pd.DataFrame(rows, columns=columns)
    return d
