"""C05  Clusters are exactly the connected components of the thresholded graph.

 T  translators/c05_sql.py records every CTE the real solve_connected_components hands to the
    database API on a probe run (with and without threshold, two passes of the loop), reduces it to
    a relational skeleton (join kinds and keys, min/aggregates, the needs_updating filter, <> / >=
    comparisons, UNION vs UNION ALL, IN / NOT IN sub-selects, data flow between passes) and Coq
    decides, one obligation per CTE and pass, that it is the skeleton Model/CCSkel.v records for
    the corresponding definition of Model/CC.v.
 P  Properties/C05.v: the list-level, statement-by-statement model of solve_connected_components
    (Model/CC.v) returns every node exactly once with cluster_id = minimum of its connected
    component, and never exhausts its |V|^2+1 fuel; corollaries (same cluster iff connected,
    singletons, smallest member, distinct records not conflated, duplicate/reversed/self edges
    irrelevant, integer match-weight threshold equivalent to its probability).
 X  the real clustering (standalone function and linker method; DuckDB and SQLite) on every
    labelled graph on <= 4 (quick: also all 1024 on 5 nodes on SQLite; thorough: 6) nodes and on
    seeded adversarial families; inside Coq the implementation's output is compared with the
    proved spec `comp_labels` and with the model `cluster_at_threshold`, and for a sample every
    intermediate table (__splink__df_neighbours, __splink__df_representatives[_k],
    __splink__representatives_stable_k, __splink__df_neighbours_filtered_k), captured by
    wrapping the DatabaseAPI, is compared with the model's table of the same name (lock-step).
"""
from __future__ import annotations

import json
import time

from harness import c05_guard as G
from harness import c05_x as X
from harness.common import Ctx, REPO, git_blob


def _sample(case):
    return {k: case[k] for k in ("entry", "backend", "idkind", "family", "thr")} | {
        "n_nodes": len(case["nodes"]), "n_edges": len(case["edges"]),
        "nodes_head": case["nodes"][:6], "edges_head": case["edges"][:6]}


class StopGeneration(Exception):
    """Enough non-terminating runs seen: every further case would cost its full time limit."""


class Runner:
    def __init__(self, ctx: Ctx):
        self.ctx = ctx
        self.terms: list[str] = []
        self.meta: list[tuple[dict, str]] = []   # (case, kind)
        self.weight: list[float] = []
        self.direct_fail: list[tuple[dict, dict]] = []
        self.nonterm: list[tuple[dict, str]] = []
        self.engine_s = 0.0

    def add(self, case, trace=False, full=None):
        ctx = self.ctx
        n = len(case["nodes"])
        t0 = time.time()
        try:
            rows, cap = X.run_impl(case, capture=("count" if (n > 60 or trace == "count") else True) if trace else False)
        except G.NonTermination as e:
            self.engine_s += time.time() - t0
            self.nonterm.append((case, str(e)))
            if len(self.nonterm) >= 3:
                raise StopGeneration() from e
            return
        except Exception as e:  # noqa: BLE001
            self.engine_s += time.time() - t0
            self.direct_fail.append((case, {"error": repr(e)[:800]}))
            return
        self.engine_s += time.time() - t0
        impl, why = X.canonical_output(case, rows)
        if impl is None:
            self.direct_fail.append((case, {"rows": rows[:50], "why": why}))
            return
        if full is None:
            full = n <= 200 or case["family"].startswith("union") and n <= 800
        spec = X.oracle(case)
        ncomp = len(set(spec.values()))
        nontrivial = n >= 3 and 1 <= ncomp < n and len(case["edges"]) >= 2
        key = (case["entry"], case["backend"], case["idkind"], tuple(X.key_of(x) for x in case["nodes"]),
               tuple((X.key_of(l), X.key_of(r), k) for l, r, k in case["edges"]), str(case["thr"]))
        ctx.count_case(key, nontrivial, _sample(case))
        ctx.hist("family", case["family"].rstrip("0123456789x"))
        ctx.hist("entry_backend", f"{case['entry']}/{case['backend']}")
        ctx.hist("idkind", case["idkind"] + ("/" + case["link_type"] if case.get("link_type") else "")
                 + ("/one table" if case.get("one_table") else ""))
        ctx.hist("threshold", "none" if case["thr"] is None else case["thr"][0] + ("" if case["thr"][0] in ("pf", "wf") else f"={case['thr'][1]}"))
        if case["thr"] is not None and case["thr"][0] in ("pf", "wf"):
            tq = X.thr_fraction(case["thr"], case["backend"])
            ctx.hist("edges exactly on a non-dyadic threshold", min(5, sum(1 for e in case["edges"] if X.pfrac(e[2]) == tq)))
        ctx.hist("nodes", "1-4" if n <= 4 else "5-8" if n <= 8 else "9-32" if n <= 32 else "33-128" if n <= 128
                 else "129-512" if n <= 512 else ">512")
        ctx.hist("components", "1" if ncomp == 1 else "2-4" if ncomp <= 4 else "5+")
        nulls = sum(1 for e in case["edges"] if e[2] is None)
        if nulls:
            ctx.hist("edge rows with NULL probability", min(nulls, 5))
        iters = X.iteration_count(cap) if trace else None
        if iters is not None:
            ctx.hist("iterations", iters if iters < 10 else f"{iters // 10 * 10}+")
        self.terms.append(X.coq_final_term(case, impl, full, iters if full else None))
        self.meta.append((case, "final"))
        self.weight.append(float(n) * n * ((iters or 3) if full else 0.02) + len(self.terms[-1]) / 50)
        if trace is True and n <= 60:
            try:
                tr = X.canonical_trace(case, cap)
            except Exception as e:  # noqa: BLE001
                self.direct_fail.append((case, {"error": "captured tables could not be read: " + repr(e)[:500],
                                                "tables": [c[0] for c in cap]}))
                return
            self.terms.append(X.coq_trace_term(case, tr))
            self.meta.append((case, "trace"))
            self.weight.append(float(n) * n * len(tr[2]) + len(self.terms[-1]) / 50)


def generate(ctx: Ctx, R: Runner):
    rng = ctx.rng
    quick = ctx.quick
    # ---- exhaustive labelled graphs -------------------------------------------------
    max_single = 5 if quick else 6
    for n in range(1, max_single + 1):
        graphs = list(X.labelled_graphs(n))
        for g in graphs:
            R.add(X.exhaustive_case(rng, n, g, "sqlite"))
    for n in range(2, 5):
        graphs = list(X.labelled_graphs(n))
        for backend in ("duckdb", "sqlite"):
            for entry in ("standalone", "linker"):
                R.add(X.union_case(rng, n, graphs, backend, entry))
    g5 = list(X.labelled_graphs(5))
    for i in range(0, len(g5), 128):
        R.add(X.union_case(rng, 5, g5[i:i + 128], "duckdb", "standalone"))
    if not quick:
        g6 = list(X.labelled_graphs(6))
        for i in range(0, len(g6), 128):
            R.add(X.union_case(rng, 6, g6[i:i + 128], "duckdb", "standalone"), full=(i % 4096 == 0))
    small = [(n, g) for n in range(1, 5) for g in X.labelled_graphs(n)]
    for n, g in rng.sample(small, 24 if quick else 75):
        R.add(X.exhaustive_case(rng, n, g, "duckdb"), trace=True)
    for n, g in rng.sample(small, 10 if quick else 40):
        R.add(X.exhaustive_case(rng, n, g, rng.choice(["duckdb", "sqlite"]), entry="linker"), trace=True)
    # ---- seeded adversarial families ------------------------------------------------
    combos = [("standalone", "duckdb", "int", None), ("standalone", "sqlite", "int", None),
              ("standalone", "duckdb", "str", None), ("standalone", "sqlite", "str", None),
              ("linker", "duckdb", "int", "dedupe_only"), ("linker", "sqlite", "str", "dedupe_only"),
              ("linker", "duckdb", "link", "link_and_dedupe"), ("linker", "sqlite", "link", "link_and_dedupe"),
              ("linker", "duckdb", "link", "link_only"), ("linker", "sqlite", "link", "link_only"),
              ("standalone", "duckdb", "link", None), ("linker", "duckdb", "str", "dedupe_only")]
    rounds = 1 if quick else 6
    for rd in range(rounds):
        for fi, fam in enumerate(X.FAMILIES):
            for j in range(3):
                entry, backend, idkind, lt = combos[(fi * 3 + j + rd * 5) % len(combos)]
                n = rng.choice([5, 8, 13, 21, 34]) if j < 2 else rng.choice([34, 55])
                case = None
                for _ in range(20):
                    c = X.build_case(rng, fam, n, entry, backend, idkind, lt)
                    if idkind == "link" and entry == "linker" and len({x[0] for x in c["nodes"]}) < 2:
                        continue
                    case = c
                    break
                if case is not None:
                    R.add(case, trace=True)
    # edge rows with a NULL match_probability; threshold 0 (a threshold like any other)
    null_combos = [("standalone", "duckdb", "int", None), ("standalone", "sqlite", "str", None),
                   ("linker", "duckdb", "int", "dedupe_only"), ("linker", "sqlite", "link", "link_and_dedupe"),
                   ("standalone", "sqlite", "int", None), ("linker", "duckdb", "link", "link_only")]
    for i in range(36 if quick else 240):
        entry, backend, idkind, lt = null_combos[i % len(null_combos)]
        fam = X.FAMILIES[(7 * i + 1) % len(X.FAMILIES)]
        for _ in range(20):
            c = X.build_null_case(rng, fam, rng.choice([3, 5, 8, 12]), entry, backend, idkind, lt)
            if not (idkind == "link" and entry == "linker" and len({x[0] for x in c["nodes"]}) < 2):
                R.add(c, trace=(i % 3 == 0))
                break
    # link jobs on ONE pre-concatenated table with its own source_dataset column, 2-3 datasets, the same
    # unique_id in several datasets (records must still be told apart by (source_dataset, unique_id))
    for i in range(24 if quick else 150):
        backend = "duckdb" if i % 2 == 0 else "sqlite"
        lt = "link_and_dedupe" if (i // 2) % 2 == 0 else "link_only"
        fam = X.FAMILIES[(5 * i + 3) % len(X.FAMILIES)]
        for _ in range(30):
            c = X.build_case(rng, fam, rng.choice([4, 6, 9, 14]), "linker", backend, "link", lt)
            dsets = {x[0] for x in c["nodes"]}
            uids = [x[1] for x in c["nodes"]]
            if len(dsets) >= 2 and len(set(uids)) < len(uids):
                c["one_table"] = True
                c["family"] = "onetable_" + fam
                R.add(c, trace=(i % 3 == 0))
                break
    # non-dyadic probabilities with the threshold exactly on bridging edges (linker method emphasised)
    nd_combos = [("linker", "duckdb", "int", "dedupe_only"), ("linker", "sqlite", "int", "dedupe_only"),
                 ("linker", "duckdb", "link", "link_and_dedupe"), ("standalone", "duckdb", "int", None),
                 ("linker", "duckdb", "str", "dedupe_only"), ("linker", "sqlite", "link", "link_only"),
                 ("standalone", "sqlite", "str", None), ("linker", "duckdb", "link", "link_only")]
    for i in range(64 if quick else 400):
        entry, backend, idkind, lt = nd_combos[i % len(nd_combos)]
        fam = X.FAMILIES[(i // len(nd_combos) + i) % len(X.FAMILIES)]
        for _ in range(20):
            c = X.build_nd_case(rng, fam, rng.choice([3, 5, 8, 12]), entry, backend, idkind, lt)
            if not (idkind == "link" and entry == "linker" and len({x[0] for x in c["nodes"]}) < 2):
                R.add(c, trace=(i % 4 == 0))
                break
    # long chains (iteration-count maximisers), thresholds that do not cut the chain
    sizes = [(89, "sqlite"), (89, "duckdb")] if quick else \
        [(89, "sqlite"), (144, "duckdb"), (233, "sqlite"), (300, "sqlite"), (300, "duckdb")]
    for fam in ("path_bitrev", "path_zigzag", "path_zigzag_min_last", "path_random", "binary_tree"):
        heavy = fam in ("path_bitrev", "path_zigzag_min_last")
        for n, backend in ([sz for sz in sizes if heavy or sz[1] == "sqlite"] if quick else sizes) + \
                ([(144, "sqlite")] if quick and heavy else []):
            idkind = rng.choice(["int", "str"])
            thr = rng.choice([None, ["p", 768], ["w", 1]])
            R.add(X.build_case(rng, fam, n, "standalone", backend, idkind, None, thr=thr, cut_rate=0.0),
                  trace=True)
    if not quick:
        for fam, n in [("path_bitrev", 1024), ("path_zigzag", 1500), ("path_random", 1000), ("cliques_bridges", 3000),
                       ("forest_small", 3000), ("random_sparse", 3000), ("star", 3000), ("binary_tree", 2047)]:
            R.add(X.build_case(rng, fam, n, "standalone", "duckdb", rng.choice(["int", "str"]), None,
                               thr=rng.choice([None, ["p", 768]]), cut_rate=0.002), full=False)


def generate_spark(ctx: Ctx, R: Runner):
    """Thorough tier: <= 40 Spark runs (one session, parquet lineage breaking under /var/tmp)."""
    rng = ctx.rng
    try:
        X.spark_api()
    except Exception as e:  # noqa: BLE001
        ctx.notes.append("Spark session could not be started; Spark cases skipped: " + repr(e)[:300])
        ctx.cov["skipped_spark"] = True
        return
    try:
        n0 = len(R.meta)
        for n in (3, 4):
            R.add(X.union_case(rng, n, list(X.labelled_graphs(n)), "spark", "standalone"))
        # (an edge table without rows cannot be handed to Spark as a pandas frame: no schema to infer)
        small = [(n, g) for n in range(2, 5) for g in X.labelled_graphs(n) if g]
        for n, g in rng.sample(small, 10):
            R.add(X.exhaustive_case(rng, n, g, "spark"), trace="count")
        fams = ["path_zigzag", "path_bitrev", "path_zigzag_min_last", "star", "cliques_bridges", "forest_small",
                "binary_tree", "random_sparse", "cycle", "path_random", "path_reversed_dir", "path_sorted"]
        for i, fam in enumerate(fams):
            idkind = ["int", "str", "link"][i % 3]
            R.add(X.build_case(rng, fam, rng.choice([8, 13]), "standalone", "spark", idkind, None), trace="count")
        R.add(X.build_case(rng, "path_zigzag", 21, "standalone", "spark", "int", None, thr=["p", 768], cut_rate=0.0), trace="count")
        R.add(X.build_case(rng, "path_bitrev", 21, "standalone", "spark", "str", None, thr=["w", 1], cut_rate=0.0), trace="count")
        for lt, idkind in (("dedupe_only", "int"), ("link_and_dedupe", "link"), ("link_only", "link")):
            for _ in range(20):
                c = X.build_case(rng, "cliques_bridges", 10, "linker", "spark", idkind, lt)
                if idkind != "link" or len({x[0] for x in c["nodes"]}) >= 2:
                    R.add(c)
                    break
        ctx.cov["spark_cases"] = len([1 for c, k in R.meta[n0:] if k == "final"])
    finally:
        X.spark_stop()


def diagnose(ctx: Ctx, case, kind):
    ok, info, spec = X.property_holds(case)
    if not ok:
        small = X.shrink(case)
        ok2, info2, spec2 = X.property_holds(small)
        if ok2:   # shrinking went wrong: keep the original
            small, info2, spec2 = case, info, spec
        ctx.violation(
            "clusters returned by the implementation are not the connected components / component minima",
            {"case": small, "implementation": info2,
             "specification(rank -> component minimum rank)": spec2,
             "original_case_size": [len(case["nodes"]), len(case["edges"])], "compared": kind},
            X.features_of(small))
        return True
    return False


SKEL_HEADER = """From Coq Require Import String List Bool.
From Splinkv Require Import Model.CCSkel.
Import ListNotations.
Open Scope string_scope.
"""


def _eval_skeletons(ctx: Ctx, T, obs, tag):
    broken = []
    terms, names = [], []
    for name, s, err in obs:
        if err is not None:
            ctx.obligation(f"T skeleton {name}", False, err)
            broken.append({"obligation": f"T skeleton {name}", "why": "untranslatable: " + err})
            continue
        terms.append(f'("{name.split("@")[0]}", {T.to_coq(s)})')
        names.append((name, s))
    bad, errs = ctx.eval_cases(tag, SKEL_HEADER, terms, "skel_ok", shard=100, timeout=300)
    for e in errs:
        ctx.obligation("T skeleton shard evaluation", False, e)
        broken.append({"obligation": "T skeleton shard evaluation", "why": e[:400]})
    ctx.obligations += len(terms)
    ctx.discharged += (len(terms) - len(bad)) if not errs else 0
    for i in bad:
        name, s = names[i]
        ctx.log(f"OBLIGATION FAILED: T skeleton {name}: regenerated {T.to_text(s)}")
        broken.append({"obligation": f"T skeleton {name}", "regenerated_skeleton": T.to_text(s),
                       "expected": "Model/CCSkel.v: sk_" + name.split("@")[0].replace("/", "_")})
    return broken, names


def skeleton_stage(ctx: Ctx):
    """T: regenerate the relational skeleton of every CTE of solve_connected_components from /repo and
    let Coq compare it with the skeleton Model/CCSkel.v records for the corresponding Gallina definition.
    The static obligation about the Python while loop is decided first, before anything is run: if the
    loop header changed the probe runs are skipped (they might never return)."""
    from translators import c05_sql as T
    static = T.static_obligations()
    broken, _ = _eval_skeletons(ctx, T, static, "C05_skel_static")
    ctx.cov["skeleton_obligation_names"] = [n for n, _, _ in static]
    ctx.cov["skeleton_obligations"] = len(static)
    if broken:
        ctx.cov["skeleton_probes_skipped"] = "python_loop obligation failed"
        ctx.log("T: python_loop obligation failed; probe runs skipped")
        return broken
    try:
        obs = T.obligations()
    except Exception as e:  # noqa: BLE001
        ctx.obligation("T: record and translate the SQL of solve_connected_components", False, repr(e)[:600])
        return [{"obligation": "T: statement recording", "why": repr(e)[:600]}]
    broken, names = _eval_skeletons(ctx, T, obs, "C05_skel")
    ctx.cov["skeleton_obligations"] += len(obs)
    ctx.cov["skeleton_obligation_names"] += [n for n, _, _ in obs]
    if len(names) >= 2:
        ctx.cov["samples"].append({"skeleton_obligation": {"name": names[-2][0], "skeleton": T.to_text(names[-2][1])}})
    return broken


def run(ctx: Ctx):
    ctx.cov["rule"] = (
        "every labelled graph on 1..5 nodes singly on SQLite (thorough: also all 32768 on 6 nodes singly on SQLite and in 256 "
        "unions on DuckDB), the <=4-node (and 5-node, DuckDB) graphs also as disjoint unions with order-preserving "
        "id offsets; seeded families (paths in sorted/bit-reversal/zig-zag/random id order, stars, cliques joined by "
        "bridges, forests of small components, binary trees, cycles, sparse random) with duplicate, reversed and self "
        "edges, integer / string / composite (source_dataset, unique_id) ids, thresholds None / probability (also equal "
        "to an edge probability, 0 and 1) / integer match weight; a case is non-trivial when it has >=3 nodes, >=2 edge "
        "rows and between 1 and n-1 components; distinct by (entry, backend, ids, edge rows, threshold).")
    ctx.trusted += [
        "translators/c05_sql.py (sqlglot parse of the CTE text recorded from a real run; table names reduced to roles; "
        "ORDER BY dropped); expected skeletons in Model/CCSkel.v are the DESIGN-3b reading of the Gallina definitions "
        "(by inspection; the lock-step part of X compares the same tables with the engine)",
        "harness/c05_x.py: id -> rank map (numeric for integer ids, byte order for ASCII strings and sds||'-__-'||uid)",
        "modelled not verified: SQL engines' UNION/GROUP BY/min/JOIN/NOT IN semantics per DESIGN 3b (checked table by "
        "table on the lock-step sample); NULL match_probability modelled as never passing a threshold filter (SQL: NULL >= t "
        "is not TRUE) and exercised; edges only mention rows of the node table",
        "non-dyadic thresholds (decimal probabilities, fractional match weights through the implementation's conversion): "
        "the model's threshold is the exact rational the engine compares a DOUBLE column against, probed on the 7 doubles "
        "around the literal on an independent connection (DuckDB reads the literal as DECIMAL)",
    ]
    ok = ctx.proof_stage("Properties/C05.v")
    if not ok:
        ctx.violation("theorems of Properties/C05.v no longer check", {"broken": "Properties/C05.v"}, found_input=False)
    ctx.cov["modelled_sources"] = {p: git_blob(REPO / p) for p in
                                   ["splink/internals/connected_components.py", "splink/internals/clustering.py",
                                    "splink/internals/linker_components/clustering.py",
                                    "splink/internals/unique_id_concat.py", "splink/internals/misc.py"]}
    broken_T = skeleton_stage(ctx)
    R = Runner(ctx)
    try:
        if ctx.replay:
            rp = json.loads(open(ctx.replay).read())
            case = rp.get("case")
            if case is None:
                ctx.log("replay file names no case; running the full check")
                generate(ctx, R)
            else:
                R.add(case, trace=len(case["nodes"]) <= 150)
        else:
            generate(ctx, R)
            if not ctx.quick:
                generate_spark(ctx, R)
    except StopGeneration:
        ctx.log("generation stopped: the implementation does not terminate on the inputs tried")
    for case, why in sorted(R.nonterm, key=lambda cw: len(cw[0]["nodes"]))[:3]:
        ctx.violation("clustering does not terminate: " + why,
                      {"case": case, "implementation": why,
                       "specification": "C05_terminates: at most |V|^2+1 passes of the loop, then every node once with its component minimum"},
                      dict(X.features_of(case), non_termination=True))
    ctx.obligation("every clustering terminated within the proved pass bound and the time limit", not R.nonterm)
    if X.CONVERSION_BAD:
        ctx.violation("threshold_args_to_match_prob(None, w) is not within 2 ulp of 2^w/(1+2^w)",
                      {"case": X.CONVERSION_BAD[0], "implementation": X.CONVERSION_BAD[0]["implementation"],
                       "specification": X.CONVERSION_BAD[0]["specification 2^w/(1+2^w)"], "all": X.CONVERSION_BAD[:10]},
                      {"weight_conversion": True})
    ctx.obligation(f"match-weight conversion within 2 ulp of 2^w/(1+2^w) ({len(X.CONVERSION_CHECKED)} weights, 60-digit arithmetic)",
                   not X.CONVERSION_BAD)
    ctx.log(f"generated {len(R.meta)} comparisons ({R.engine_s:.1f}s in the engines); evaluating the model in Coq")
    reported = 0
    for case, info in R.direct_fail[:5]:
        ok_, info2, spec = X.property_holds(case)
        small = case if ok_ else X.shrink(case)
        _, info3, spec3 = X.property_holds(small)
        ctx.violation("implementation raised or did not return every node exactly once with a node id as cluster_id",
                      {"case": small, "implementation": info3 if not ok_ else info, "specification(rank -> component minimum rank)": spec3},
                      X.features_of(small))
        reported += 1
    ctx.obligation("implementation output is a function on the node table for every case", not R.direct_fail)
    # spread the expensive cases over the shards (shards are evaluated in parallel)
    N = len(R.terms)
    S = max(1, min(16 if ctx.quick else 96, (N + 59) // 60))
    sz = max(1, (N + S - 1) // S)
    order = sorted(range(N), key=lambda i: -R.weight[i])
    slots = [None] * (S * sz)
    for pos, i in enumerate(order):
        slots[(pos % S) * sz + pos // S] = i
    PAD = "(mkF ([], [], None, [], false, None))"
    bad_slots, errs = ctx.eval_cases("C05_x", X.HEADER, [PAD if i is None else R.terms[i] for i in slots],
                                     "run_any", shard=sz, timeout=1500)
    bad = sorted(slots[j] for j in bad_slots if slots[j] is not None)
    for e in errs:
        ctx.log(e[:1500])
    ctx.obligations += len(R.terms)
    ctx.discharged += (len(R.terms) - len(bad)) if not errs else 0
    ctx.obligation("correspondence X: model evaluated in Coq on every case", not errs)
    ctx.cov["engine_seconds"] = round(R.engine_s, 1)
    ctx.cov["lockstep_cases"] = sum(1 for _, k in R.meta if k == "trace")
    if errs:
        ctx.violation("case files could not be evaluated in Coq (correspondence not established)",
                      {"broken": "correspondence X (coqc of generated case shards)", "errors": errs[:3]}, found_input=False)
    found = 0
    unexplained = []
    seen_cases = set()
    for i in bad:
        case, kind = R.meta[i]
        if id(case) in seen_cases:
            continue
        seen_cases.add(id(case))
        if found < 3 and diagnose(ctx, case, kind):
            found += 1
        elif found < 3:
            unexplained.append((case, kind))
    if broken_T and not found and not reported and not R.nonterm:
        ctx.violation(
            "the SQL that solve_connected_components emits no longer has the shape Model/CC.v encodes ("
            + ", ".join(b["obligation"] for b in broken_T[:6]) + "); the search over the exhaustive and adversarial "
            "inputs found no input on which the clusters are wrong",
            {"broken": [b["obligation"] for b in broken_T], "details": broken_T[:8]}, found_input=False)
    if bad and not found:
        case, kind = unexplained[0] if unexplained else R.meta[bad[0]]
        ctx.violation(
            "implementation and model disagree (" + kind + " comparison) although the final clusters satisfy the "
            "component-minimum oracle on every disagreeing case: the statement-by-statement correspondence with "
            "Model/CC.v no longer holds, so the theorems no longer speak about this code",
            {"broken": "correspondence X (" + ("lock-step tables" if kind == "trace" else "final output") + ")",
             "example_case": case, "disagreeing_cases": len(bad)}, found_input=False)
