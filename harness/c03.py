"""C03  EM training performs exact EM steps and never lowers the likelihood.

 P  theorems in Properties/C03.v: SQL-shaped M-step = reference EM, m/u sum to 1, fixed
    parameters do not move, pattern path = row-wise path, deactivated comparisons untouched,
    median aggregation (all closed over Q); log-likelihood monotone for every generalised EM
    step and along the whole history (over R, standard real axioms).
 T  translators/c03_sql.py: the SQL of compute_new_parameters_sql /
    compute_proportions_for_new_parameters_sql is parsed and its skeleton (sum expressions,
    GROUP BY, `!= -1` filter, window partition) compared with the shape the model encodes.
 X  real estimate_parameters_using_expectation_maximisation sessions on DuckDB and SQLite vs
    the Gallina model evaluated inside Coq, one EM step at a time (harness/c03_x.py).
"""
from __future__ import annotations

import copy
import json
from fractions import Fraction

from harness import c03_x as X
from harness.common import Ctx, REPO, coq_list, coq_nat, coq_Q, coq_string, git_blob

SOURCES = ["splink/internals/expectation_maximisation.py", "splink/internals/em_training_session.py",
           "splink/internals/settings.py", "splink/internals/comparison_level.py", "splink/internals/linker.py",
           "splink/internals/predict.py", "splink/internals/m_u_records_to_parameters.py"]


def features_of(case, rec, fails):
    kinds = [f[0] for f in fails]
    s = rec["flags"]
    f = {"backend": case["backend"], "ewtf": s["ewtf"], "fix_m": s["fix_m"], "fix_u": s["fix_u"], "fix_lam": s["fix_lam"],
         "failure": kinds[0] if kinds else "model-disagreement"}
    if "starting prior" in f["failure"]:
        cols = rec["br_cols"]
        f["prior_adjustment"] = ("uppercase_column" if any(c != c.lower() for c in cols) else "other")
    if "deactivat" in f["failure"]:
        names = {x for c in rec["before"]["cmps"] for x in c["cols"]}
        f["deactivation"] = ("keyword_column" if any(c in ("group", "index") for c in rec["br_cols"]) else
                             "rule_case_differs" if any(c not in names and c.lower() in {n.lower() for n in names} for c in rec["br_cols"]) else "other")
    return f


def py_prior(before, br_cols, nl, nb):
    """_blocking_adjusted_probability_two_random_records_match, written from the property text:
    prior odds times the Bayes factors of the exact-match levels the rule implies (largest
    column sets first, each rule column used once)."""
    cands = []
    for c in before["cmps"]:
        for l in c["levels"]:
            if l["exact"] is not None:
                cands.append(([nl(x) for x in l["exact"]], l))
    cands.sort(key=lambda x: -len(x[0]))
    cols = set(nb(x) for x in br_cols)
    bf = before["lam"] / (1 - before["lam"])
    for ec, l in cands:
        if set(ec) <= cols:
            cols -= set(ec)
            bf *= X.rdv(l["m"]) / X.rdv(l["u"])
    return bf / (1 + bf)


def session_oracle(case, rec):
    fails = X.oracle_session(case, rec)
    spec = py_prior(rec["before"], rec["br_cols"], str.lower, str.lower)   # identifiers are case-insensitive
    if not X.close(spec, rec["hist"][0]["lam"]):
        fails.insert(0, ("starting prior is not the blocking-adjusted prior",
                         {"implementation": float(rec["hist"][0]["lam"]), "specification": float(spec), "rule_columns": rec["br_cols"]}))
    for c in rec["before"]["cmps"]:
        for l in c["levels"]:
            if (l["exact"] is not None) != l["impl_exact"]:
                fails.append(("exact-match detection differs from the level's definition", {"comparison": c["name"], "level": l["val"]}))
    return fails


def loglik_trace(case, rec):
    """TEST (the theorem is C03_likelihood_monotone): numeric trace on the implementation's own
    history, only where the theorem's hypotheses hold (no TF in this session, no per-level fix
    flags, start sub-normalised on observed levels)."""
    h0 = rec["hist"][0]
    if not rec["flags"]["ewtf"] and any(l["tfu"] is not None for c in h0["cmps"] for l in c["levels"]):
        return None
    if any(l["fixm"] or l["fixu"] for c in h0["cmps"] for l in c["levels"]):
        return None
    for i, c in enumerate(h0["cmps"]):
        seen = {g[i] for g, _, _ in rec["data"]}
        for k in ("m", "u"):
            if sum(X.rdv(l[k]) for l in c["levels"] if l["val"] in seen) > 1:
                return None
        if any(X.rdv(l["m"]) <= 0 or X.rdv(l["u"]) <= 0 for l in c["levels"]):
            return None
    if not (0 < h0["lam"] < 1):
        return None
    data = [(g, w, []) for g, w, _ in rec["data"]]
    try:
        return [X.loglik(h, data) for h in rec["hist"]]
    except (ValueError, ZeroDivisionError):      # parameters left (0,1): the step oracle reports it
        return None


def run_case(ctx: Ctx, case, terms, metas, tag, api=None):
    recs = X.run_sessions(case, api=api)
    for rec in recs:
        if "skipped" in rec:
            ctx.hist("skipped_session", rec["skipped"][:60])
            brl = {x.lower() for x in rec["br_cols"]}
            nothing_to_train = all({x.lower() for x in c["cols"]} & brl for c in rec["before"]["cmps"])
            if nothing_to_train:
                ctx.hist("skipped_every_comparison_uses_a_rule_column", True)   # loud SQL error, nothing to estimate
            elif "resulted in no record pairs" not in rec["skipped"] and not getattr(ctx, "_raised_reported", False):
                ctx._raised_reported = True
                # the property quantifies over every rule producing at least one pair: training must not raise
                small = dict(case, sessions=case["sessions"][: rec["session"] + 1])
                ctx.violation("EM training raised on a rule that produces pairs: " + rec["skipped"][:200],
                              {"case": small, "session": rec["session"], "implementation": rec["skipped"], "specification": "a trained session"},
                              {"failure": "training raised", "backend": case["backend"]})
            continue
        s = rec["flags"]
        fails = session_oracle(case, rec)
        trace = loglik_trace(case, rec)
        if trace is not None:
            ctx.cov["loglik_traces_checked"] = ctx.cov.get("loglik_traces_checked", 0) + 1
            for a, b in zip(trace, trace[1:]):
                if b < a - 1e-9 * max(1.0, abs(a)):
                    fails.append(("observed-data log-likelihood decreased", {"trace": trace}))
                    break
        terms.append(X.case_term(case, rec))
        metas.append((case, rec, fails))
        h0 = rec["hist"][0]
        deact = len(rec["before"]["cmps"]) - len(h0["cmps"])
        nulls = any(-1 in g for g, _, _ in rec["data"])
        never = any(l["m"] == "NO" or l["u"] == "NO" for h in rec["hist"][1:] for c in h["cmps"] for l in c["levels"])
        nontrivial = len(rec["data"]) >= 3 and nulls and len(h0["cmps"]) >= 1
        ctx.count_case(json.dumps([case["tables"], case["comparisons"], rec["session"], s], sort_keys=True, default=str), nontrivial,
                       {"backend": case["backend"], "rule": s["rule"], "flags": {k: s[k] for k in ("fix_m", "fix_u", "fix_lam", "ewtf")},
                        "pairs": len(rec["rows"]), "patterns_or_rows": len(rec["data"]), "iterations": len(rec["hist"]) - 1,
                        "deactivated": deact, "session": rec["session"]})
        ctx.hist("backend", case["backend"])
        ctx.hist("flags", f"fix_m={s['fix_m']} fix_u={s['fix_u']} fix_lam={s['fix_lam']}")
        ctx.hist("estimate_without_term_frequencies", s["ewtf"])
        ctx.hist("session_index", rec["session"])
        ctx.hist("deactivated_comparisons", deact)
        ctx.hist("iterations", len(rec["hist"]) - 1)
        ctx.hist("never_observed_level", never)
        ctx.hist("null_gamma_present", nulls)
        ctx.hist("tf_in_session", (not s["ewtf"]) and any(l["tfu"] is not None for c in h0["cmps"] for l in c["levels"]))
        ctx.hist("rule_columns", ",".join(rec["br_cols"]) or "-")
        ctx.hist("stop_rule_checked", X.check_stop_flag(case, rec))
        ctx.hist("source", tag)


def diag(ctx, terms, idx):
    txt = X.HEADER + "Definition cs := " + coq_list([terms[i] for i in idx]) + ".\nEval vm_compute in (map stages cs).\n"
    ok, out = ctx.coqc_text("C03_diag", txt, timeout=600)
    import re
    flat = " ".join(out.split())
    return [[x == "true" for x in re.findall(r"true|false", grp)] for grp in re.findall(r"\[((?:true|false)(?:; (?:true|false))*)\]", flat)]


STAGES = ["s1 session start (deactivation, blocking-adjusted prior)", "s2 EM step k -> k+1", "s3 stop rule",
          "s4 trained values and medians", "s5 agreement-pattern table"]


def report(ctx: Ctx, terms, metas, bad, errs):
    seen = set()
    stage_info = {}
    if bad:
        try:
            for i, st in zip(bad[:12], diag(ctx, terms, bad[:12])):
                stage_info[i] = [STAGES[k] for k, okk in enumerate(st) if not okk]
        except Exception as e:  # diagnostics only
            ctx.log("diag failed", repr(e)[:200])
    flagged = set(bad) | {i for i, (_, _, fails) in enumerate(metas) if fails}
    for i in sorted(flagged):
        case, rec, fails = metas[i]
        feats = features_of(case, rec, fails)
        key = json.dumps({k: feats[k] for k in ("failure", "prior_adjustment", "deactivation") if k in feats}, sort_keys=True)
        if key in seen:
            continue
        seen.add(key)
        small = copy.deepcopy(case)
        small["sessions"] = case["sessions"][: rec["session"] + 1]
        replay = {"case": small, "session": rec["session"], "coq_model_disagrees": i in bad,
                  "coq_stages_failed": stage_info.get(i), "property_oracle_failures": [(w, d) for w, d in fails][:4],
                  "implementation": {"history": X.jsonable([{"lam": h["lam"], "cmps": [[(l["val"], l["m"], l["u"]) for l in c["levels"]] for c in h["cmps"]]} for h in rec["hist"]])},
                  "specification": "reference EM from each iteration (see property_oracle_failures)"}
        what = fails[0][0] if fails else "implementation differs from the Gallina EM model (" + "; ".join(stage_info.get(i, ["?"])) + ")"
        ctx.violation(f"EM training: {what} (backend {case['backend']}, session {rec['session']}, rule {rec['flags']['rule']})",
                      replay, feats, found_input=bool(fails))
    if errs and not flagged:
        ctx.violation("correspondence C03_x could not be evaluated", {"broken": "C03_x", "errors": errs[:3]}, found_input=False)


# ------------------------------------------------------------------------------------------
# dedicated witnesses of repaired defects (regressions must be reported with their features)
# ------------------------------------------------------------------------------------------
def witness_case(col, backend):
    import random
    rng = random.Random(7)
    cols = [col, "a", "c"]
    rows = [dict(unique_id=i, **{c: rng.choice(["k", "l", "m"]) for c in cols}) for i in range(20)]
    comps, truths = [], []
    for c in cols:
        comps.append({"output_column_name": c, "comparison_levels": [
            {"sql_condition": f'"{c}_l" IS NULL OR "{c}_r" IS NULL', "label_for_charts": "null", "is_null_level": True},
            {"sql_condition": f'"{c}_l" = "{c}_r"', "label_for_charts": "exact", "m_probability": 0.9, "u_probability": 0.2},
            {"sql_condition": "ELSE", "label_for_charts": "else", "m_probability": 0.1, "u_probability": 0.8}]})
        truths.append({"name": c, "exact": [[c], None], "tfcol": None, "cols": [c]})
    return {"backend": backend, "link_type": "dedupe_only", "tables": [rows], "comparisons": comps, "truth": truths, "prior": 0.1,
            "max_iterations": 2, "em_convergence": 1e-12,
            "sessions": [{"rule": f'l."{col}" = r."{col}"', "fix_m": False, "fix_u": False, "fix_lam": False, "ewtf": True}]}


def median_case(backend, seed):
    """three sessions that all train the same comparisons with nothing fixed: every level gets
    three numeric estimates, so median and mean differ"""
    import random
    rng = random.Random(f"median-{seed}")
    cols = ["a", "Surname", "c", "group", "index"]
    rows = [dict(unique_id=i, **{c: rng.choice(["k", "l", "m", None] if c in ("a", "Surname") else ["k", "l", "m"]) for c in cols}) for i in range(26)]
    comps, truths = [], []
    for c in ("a", "Surname"):
        comps.append({"output_column_name": c, "comparison_levels": [
            {"sql_condition": f'"{c}_l" IS NULL OR "{c}_r" IS NULL', "label_for_charts": "null", "is_null_level": True},
            {"sql_condition": f'"{c}_l" = "{c}_r"', "label_for_charts": "exact", "m_probability": 0.7, "u_probability": 0.3},
            {"sql_condition": "ELSE", "label_for_charts": "else", "m_probability": 0.3, "u_probability": 0.7}]})
        truths.append({"name": c, "exact": [[c], None], "tfcol": None, "cols": [c]})
    return {"backend": backend, "link_type": "dedupe_only", "tables": [rows], "comparisons": comps, "truth": truths, "prior": 0.2,
            "max_iterations": 3, "em_convergence": 1e-12,
            "sessions": [{"rule": f'l."{c}" = r."{c}"', "fix_m": False, "fix_u": False, "fix_lam": False, "ewtf": e}
                         for c, e in (("c", True), ("group", False), ("index", True))]}


def tie_case(backend):
    """two comparisons with an exact-match level on the SAME column and different Bayes factors: the
    stable sort must keep the first one for the prior adjustment"""
    case = witness_case("Surname", backend)
    extra = {"output_column_name": "a_again", "comparison_levels": [
        {"sql_condition": '"a_l" = "a_r"', "label_for_charts": "exact", "m_probability": 0.6, "u_probability": 0.3},
        {"sql_condition": "ELSE", "label_for_charts": "else", "m_probability": 0.4, "u_probability": 0.7}]}
    case["comparisons"].append(extra)
    case["truth"].append({"name": "a_again", "exact": [["a"], None], "tfcol": None, "cols": ["a"]})
    case["sessions"][0]["rule"] = 'l."a" = r."a"'
    return case


def witnesses(ctx: Ctx, terms, metas):
    for backend in ("duckdb", "sqlite"):
        run_case(ctx, tie_case(backend), terms, metas, "witness:equal-length exact levels on one column")
    for backend in ("duckdb", "sqlite"):
        run_case(ctx, median_case(backend, ctx.seed), terms, metas, "three-session median")
    for col, kind in (("Surname", "uppercase prior"), ("group", "keyword deactivation"), ("index", "keyword deactivation"),
                      ("first name", "name with a space")):
        for backend in ("duckdb", "sqlite"):
            run_case(ctx, witness_case(col, backend), terms, metas, f"witness:{kind}")


def rule_case_witness(ctx: Ctx, terms, metas):
    """Finding KF-C03-rule-case-deactivation: the training rule spells the column in another case
    than the comparison (engines resolve identifiers case-insensitively).  Specification: the
    comparison on that column is deactivated and the prior is adjusted."""
    for backend in ("duckdb", "sqlite"):
        case = witness_case("Surname", backend)
        case["sessions"][0]["rule"] = "l.surname = r.surname"
        run_case(ctx, case, terms, metas, "witness:rule case")
        rec = X.run_sessions(case)[0]
        ctx.cov["evaluations"] += 1
        if "skipped" in rec:
            continue            # already reported by run_case
        trained = [c["name"] for c in rec["hist"][0]["cmps"]]
        want = py_prior(rec["before"], ["Surname"], lambda s: s, lambda s: s)
        bad_deact = "Surname" in trained
        bad_prior = not X.close(want, rec["hist"][0]["lam"])
        if bad_deact or bad_prior:
            ctx.violation("EM training rule spelling a column in a different case: " +
                          ("the comparison on that column is trained instead of deactivated" if bad_deact else "the starting prior is not adjusted"),
                          {"case": case, "implementation": {"trained_comparisons": trained, "start_prior": float(rec["hist"][0]["lam"])},
                           "specification": {"trained_comparisons": [n for n in trained if n != "Surname"], "start_prior": float(want)}},
                          {"deactivation": "rule_case_differs"} if bad_deact else {"prior_adjustment": "rule_case_differs"})
            return
    ctx.expect_known("KF-C03-rule-case-deactivation", False, "the comparison is now deactivated")


def prior_variants(ctx: Ctx):
    """Which prior-adjustment variant does the code implement on the upper-case witness?
    (0 one-sided lower = defect 7.6, 1 both lower = repaired, 2 specification)."""
    case = witness_case("Surname", "duckdb")
    rec = X.run_sessions(case)[0]
    impl = rec["hist"][0]["lam"]
    terms = [f"({coq_nat(v)}, {X.c_model(rec['before'])}, {coq_list([coq_string(x) for x in rec['br_cols']], 'string')}, {coq_Q(impl)})" for v in (0, 1, 2)]
    bad, errs = ctx.eval_cases("C03_prior", X.HEADER, terms, "prior_case", shard=3)
    agree = [v for v in (0, 1, 2) if v not in bad] if not errs else None
    ctx.cov["prior_variant_agreeing_with_code_on_Surname"] = agree
    ctx.obligation("code's starting prior on column 'Surname' = model variant 1 (both sides lower-cased) = specification",
                   agree is not None and 1 in agree and 2 in agree)


def run(ctx: Ctx):
    ctx.cov["rule"] = ("X: seeded tables (16-30 rows, 5 columns drawn from names incl. Surname/group/index/'first name', NULLs) x 3-4 custom "
                       "comparisons (null level or none, exact, prefix, never-observed level, two-column exact level, TF adjustment, short-decimal "
                       "m/u) x 1-3 sessions (rule on 0-2 columns; fix_m/fix_u/fix_lam; estimate_without_term_frequencies) on DuckDB and SQLite; "
                       "one Coq case per session = all iterations + bookkeeping; non-trivial = >=3 patterns, a null gamma, >=1 trained comparison.")
    ctx.trusted += [
        "harness/c03_x.py: capture of __splink__df_comparison_vectors / __splink__agreement_pattern_counts by wrapping DatabaseAPI.sql_pipeline_to_splink_dataframe; "
        "engine floats -> exact rationals; comparison in Q with relative tolerance 1e-9 (+1e-12 absolute); the runner rounds each model match probability down to a multiple of 2^-80",
        "rule columns come from splink's get_columns_used_from_sql; which levels are exact matches (and on which columns) is the generator's ground truth, cross-checked against _is_exact_match",
        "modelled not verified: the SQL engines' sum/group by/window semantics and float accumulation order; gamma computation itself (C02/C16); TF divisor taken from the captured tf_ columns; "
        "populate_probability_two_random_records_match_from_trained_values=True is not modelled; division by a zero denominator (NULL/NaN in the engines) is excluded by hypothesis",
        "the per-iteration log-likelihood trace on the implementation's history is a TEST; the theorem is C03_likelihood_monotone",
    ]
    ctx.cov["translated_sources"] = {p: git_blob(REPO / p) for p in SOURCES}
    ok = ctx.proof_stage("Properties/C03.v")
    if not ok:
        ctx.violation("theorems of Properties/C03.v no longer check", {"broken": "Properties/C03.v"}, found_input=False)
    try:
        from translators import c03_sql
        sql_obs = c03_sql.obligations()
        sql_obs += c03_sql.coq_obligations(ctx)
    except Exception as e:      # e.g. a renamed SQL generator: the T-sql obligations must not vanish silently
        sql_obs = [("sql stage could be run (import of the SQL generators / translator)", False, repr(e)[:400])]
    for name, okk, detail in sql_obs:
        if not ctx.obligation("T " + name, okk, detail):
            ctx.violation(f"EM SQL no longer has the shape the model encodes: {name}", {"broken": "T " + name, "detail": detail},
                          {"sql_shape": name}, found_input=False)
    from harness import c03_py
    c03_py.stage(ctx)
    terms, metas = [], []
    if ctx.replay:
        rp = json.loads(open(ctx.replay).read())
        if "case" in rp:
            run_case(ctx, rp["case"], terms, metas, "replay")
    else:
        n = 40 if ctx.quick else 400
        for i in range(n):
            backend = "sqlite" if i % 4 == 3 else "duckdb"
            case = X.gen_case(ctx.rng, backend, level_fix=(i % 7 == 5))
            run_case(ctx, case, terms, metas, "generated")
        witnesses(ctx, terms, metas)
        prior_variants(ctx)
        rule_case_witness(ctx, terms, metas)
        if not ctx.quick:
            from harness import c03_spark
            c03_spark.run(ctx, terms, metas)
    bad, errs = ctx.eval_cases("C03_x", X.HEADER, terms, "run_case", shard=6, timeout=900)
    for e in errs:
        ctx.obligation("correspondence shard evaluation", False, e)
    ctx.obligation(f"correspondence: implementation = Gallina EM model on {len(terms)} sessions (every iteration, start, stop rule, medians)",
                   not bad and not errs)
    ctx.obligation("property oracle (reference EM, sums, fixed, deactivation, prior, medians, log-likelihood trace) on every session",
                   not any(f for _, _, f in metas))
    report(ctx, terms, metas, bad, errs)
