"""Termination guards for the engine calls of C05 / C11 (and the translator's probe runs).

C05_terminates proves that the loop of solve_connected_components needs at most |V|^2 + 1 passes.
`install` wraps DatabaseAPI.sql_pipeline_to_splink_dataframe and counts the passes of the current
clustering (tables __splink__df_representatives_<k>); one pass more than the proved bound raises
NonTermination.  `time_limit` is the wall-clock backstop (SIGALRM, main thread) for anything else
that never returns.  Both turn a hang into an exception the checks report as a violation with the
input as replay."""
from __future__ import annotations

import re
import signal
from contextlib import contextmanager


class NonTermination(Exception):
    pass


class EngineTimeout(NonTermination):
    pass


def pass_bound(n_nodes: int) -> int:
    return n_nodes * n_nodes + 1          # Model/CC.v cc_fuel


_PASS = re.compile(r"__splink__df_representatives_\d+")


def install(api, n_nodes: int):
    prev = api.sql_pipeline_to_splink_dataframe
    state = {"passes": 0}
    bound = pass_bound(n_nodes)

    def guarded(pipeline, use_cache=True):
        name = pipeline.queue[-1].output_table_name if pipeline.queue else ""
        if name == "__splink__df_representatives":
            state["passes"] = 0
        elif _PASS.fullmatch(name):
            state["passes"] += 1
            if state["passes"] > bound:
                raise NonTermination(f"pass {state['passes']} of the connected-components loop on {n_nodes} nodes: "
                                     f"more than the proved bound |V|^2+1 = {bound} (C05_terminates)")
        return prev(pipeline, use_cache)

    api.sql_pipeline_to_splink_dataframe = guarded
    return api


@contextmanager
def time_limit(seconds: float, what: str = "engine call"):
    def handler(signum, frame):
        raise EngineTimeout(f"{what} did not return within {seconds:.0f} s")

    old = signal.signal(signal.SIGALRM, handler)
    signal.setitimer(signal.ITIMER_REAL, seconds)
    try:
        yield
    finally:
        signal.setitimer(signal.ITIMER_REAL, 0)
        signal.signal(signal.SIGALRM, old)
