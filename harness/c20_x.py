"""C20 correspondence: the real descriptive functions of /repo (compute_tf_table, completeness_data,
comparison-vector distribution, histogram_data, unlinkables_data) on DuckDB / SQLite vs the
Gallina model of Model/Descriptive.v evaluated inside Coq, plus direct recounts in Python.

Model inputs are the raw data (column values numbered by the harness, NULL = None) and, for
the three pair-level outputs, the implementation's own gamma vectors / match weights / self
scores (floats converted exactly with Fraction): scoring is not C20's subject.
"""
from __future__ import annotations

import math
import os
from fractions import Fraction

import pandas as pd

from harness import splink_util as su
from harness.c15_x import raw_query, tap
from harness.common import coq_list, coq_opt, coq_Q, coq_Z

HEADER = r"""From Coq Require Import List Bool ZArith QArith Qabs Arith.
From Splinkv Require Import Base.GroupBy Base.CumSum Model.Descriptive.
Import ListNotations.
Open Scope Z_scope.

Definition close (tol x m : Q) : bool := Qle_bool (Qabs (x - m)) (tol * (1 + Qabs m)).
Fixpoint all2 {A B} (f : A -> B -> bool) (a : list A) (b : list B) : bool :=
  match a, b with
  | [], [] => true
  | x :: a', y :: b' => f x y && all2 f a' b'
  | _, _ => false
  end.
Definition oclose (tol : Q) (x m : option Q) : bool :=
  match x, m with Some a, Some b => close tol a b | None, None => true | _, _ => false end.
Definition listZ_eqb (a b : list Z) : bool := all2 Z.eqb a b.
Definition t12 : Q := 1 # 1000000000000.
Definition t9 : Q := 1 # 1000000000.
Definition t6 : Q := 1 # 1000000.
Definition t5 : Q := 1 # 100000.

Inductive case :=
| CTf (col : list (option Z)) (impl : list (Z * Q))
| CJoin (col : list (option Z)) (impl : list (option Q))
| CCompl (cells : list (Z * option Z)) (impl : list (Z * Z * Z * Q))
| CCvd (preds : list (list Z)) (impl : list (list Z * Z * Z * Q))
| CHist (mn mx : Q) (nb : Z) (scores : list Q) (impl_bw : Q) (impl : list (Q * Z * Q))
| CHistW (mn mx : Q) (nb : Z) (impl_bw : Q) (total : Z) (counts : list Z)
| CUnl (scores : list (Q * Q)) (impl : list (Q * Q * Q * Q))
| CProfile (col : list (option Z)) (impl_vf : list (Z * Z)) (totals : Z * Z * Z)
           (impl_pc : list (Z * Z * Q * Q)) (ntop nbot : nat) (impl_top impl_bot : list (Z * Z)).
Definition vf_in (col : list (option Z)) (x : Z * Z) : bool :=
  existsb (fun r => Z.eqb (vf_value r) (fst x) && Z.eqb (value_count r) (snd x)) (value_frequencies col).

Definition run_case (c : case) : bool :=
  match c with
  | CTf col impl =>
      all2 (fun (m : Z * Q) (i : Z * Q) => Z.eqb (fst m) (fst i) && close t12 (snd i) (snd m)) (tf_table col) impl
  | CJoin col impl => all2 (fun m i => oclose t12 i m) (join_tf col) impl
  | CCompl cells impl =>
      all2 (fun (m : crow) (i : Z * Z * Z * Q) =>
              match i with (d, nulls, tot, c) =>
                Z.eqb (c_ds m) d && Z.eqb (total_null_rows m) nulls && Z.eqb (total_rows_inc_nulls m) tot
                && close t6 c (completeness m) end) (completeness_rows cells) impl
  | CCvd preds impl =>
      all2 (fun (m : vrow) (i : list Z * Z * Z * Q) =>
              match i with (g, sg, cnt, p) =>
                listZ_eqb (v_gammas m) g && Z.eqb (sum_gam m) sg
                && Z.eqb (count_rows_in_comparison_vector_group m) cnt
                && close t6 p (proportion_of_comparisons m) end) (comparison_vector_distribution preds) impl
  | CHist mn mx nb scores impl_bw impl =>
      Qeq_bool (choose_bin_width mn mx nb) impl_bw &&
      all2 (fun (m : hrow) (i : Q * Z * Q) =>
              match i with (low, cnt, high) =>
                close t9 low (splink_score_bin_low m) && Z.eqb (count_rows m) cnt
                && close t6 high (splink_score_bin_high m) end) (histogram impl_bw scores) impl
  | CHistW mn mx nb impl_bw total counts =>      (* a score sits on a bin edge: width and sum-to-total only *)
      Qeq_bool (choose_bin_width mn mx nb) impl_bw && Z.eqb (sumZ counts) total && forallb (Z.ltb 0) counts
  | CUnl scores impl =>
      all2 (fun (m : ucrow) (i : Q * Q * Q * Q) =>
              match i with (w, p, pr, cum) =>
                close t9 w (uc_weight m) && close t9 p (uc_prob m) && close t6 pr (uc_prop m)
                && close t5 cum (cum_prop m) end) (unlinkables_data scores) impl
  | CProfile col impl_vf totals impl_pc ntop nbot impl_top impl_bot =>
      all2 (fun (m : vfrow) (i : Z * Z) => Z.eqb (vf_value m) (fst i) && Z.eqb (value_count m) (snd i))
           (value_frequencies col) impl_vf &&
      (match totals with (nn, tot, dist) =>
         Z.eqb (total_non_null_rows col) nn && Z.eqb (total_rows_incl_nulls col) tot && Z.eqb (distinct_value_count col) dist end) &&
      all2 (fun (m : pcrow) (i : Z * Z * Q * Q) =>
              match i with (c, tok, pe, pi) =>
                Z.eqb (pc_value_count m) c && Z.eqb (sum_tokens_in_value_count_group m) tok
                && close t6 pe (percentile_ex_nulls m) && close t6 pi (percentile_inc_nulls m) end)
           (percentiles col) impl_pc &&
      all2 (fun (m : vfrow) (i : Z * Z) => Z.eqb (value_count m) (snd i)) (top_n ntop col) impl_top &&
      all2 (fun (m : vfrow) (i : Z * Z) => Z.eqb (value_count m) (snd i)) (bottom_n nbot col) impl_bot &&
      forallb (vf_in col) impl_top && forallb (vf_in col) impl_bot
  end.
"""

COLS = ["a", "b", "c"]
ATOMS = ["l.a = r.a", "l.b = r.b", "l.c = r.c", "substr(l.a,1,1) = substr(r.a,1,1)"]
SCRATCH = "/var/tmp/c20"
# completeness_data used to answer from the SQL-keyed cache (fixed in /repo 6852270f): no cleanup call between the by-name calls
COMPLETENESS_NEEDS_CLEANUP = False


# ---------------------------------------------------------------------------- generation
def gen_column(rng, n, kind):
    if kind == "null_heavy":
        return [rng.choice([None, None, None, "x", "y"]) for _ in range(n)]
    if kind == "all_null_but_one":
        col = [None] * n
        col[rng.randrange(n)] = "x"
        return col
    if kind == "single":
        return ["k"] * n
    if kind == "single_with_null":
        return [rng.choice(["k", "k", None]) for _ in range(n)]
    if kind == "distinct":
        return [f"v{j}" for j in rng.sample(range(100), n)]
    return [rng.choice(["x", "y", "xz", "w", None]) for _ in range(n)]


def gen_case(rng, backend):
    lt = rng.choice(["dedupe_only", "link_only", "link_and_dedupe"])
    ntab = 1 if lt == "dedupe_only" else rng.choice([2, 2, 3])
    names = ["ta", "tb", "tc"][:ntab]
    tables = []
    kinds = {c: rng.choice(["null_heavy", "single", "single_with_null", "distinct", "mixed", "mixed", "all_null_but_one"])
             for c in COLS}
    for t in range(ntab):
        n = rng.randint(4, 9) if ntab == 1 else rng.randint(2, 6)
        ids = rng.sample(range(1, 15), n)
        cols = {c: gen_column(rng, n, kinds[c] if rng.random() < 0.8 else "mixed") for c in COLS}
        tables.append([{"unique_id": ids[i], **{c: cols[c][i] for c in COLS}} for i in range(n)])
    # a column may not be NULL in every table together (DuckDB types an all-NULL column as INT32)
    for c in COLS:
        if all(r[c] is None for t in tables for r in t):
            tables[0][0][c] = "x"
    comps = []
    for col in ("a", "b", "c") if rng.random() < 0.5 else ("a", "b"):
        m1 = rng.choice([0.9, 0.75, 0.95, 0.6, 0.8, 0.99])
        u1 = rng.choice([0.1, 0.25, 0.05, 0.4, 0.3, 0.01])
        comps.append({"col": col, "m": [m1, 1 - m1], "u": [u1, 1 - u1],
                      "tf": rng.random() < (0.6 if col == "a" else 0.2)})
    rules = rng.sample(ATOMS, rng.choice([0, 1, 2, 2]))
    # raw tables for the standalone exploratory functions: no id column, few distinct values, so
    # rows are exactly duplicated within a table and across tables (tables are bags)
    nraw = rng.choice([2, 2, 3])
    pool = [{"a": rng.choice(["x", "y", None]), "b": rng.choice(["p", None, "q"])} for _ in range(3)]
    raw = []
    for t in range(nraw):
        rows_t = [dict(rng.choice(pool)) for _ in range(rng.randint(2, 6))]
        rows_t.append(dict(rows_t[0]))                     # at least one exact duplicate
        raw.append(rows_t)
    for c in ("a", "b"):
        for t in range(nraw):
            if all(r[c] is None for r in raw[t]):
                raw[t][0][c] = "x"
                raw[t][-1][c] = "x"
    def gen_raw():
        out = []
        for t in range(nraw):
            rows_t = [dict(rng.choice(pool)) for _ in range(rng.randint(2, 6))]
            rows_t.append(dict(rows_t[0]))
            out.append(rows_t)
        for c in ("a", "b"):
            for t in range(nraw):
                if all(r[c] is None for r in out[t]):
                    out[t][0][c] = "y"
                    out[t][-1][c] = "y"
        return out
    # by-name sequence on one DatabaseAPI: the raw tables' contents are replaced by raw_tables2 and the calls repeated
    return {"raw_tables": raw, "raw_tables2": gen_raw(), "hist_threshold": rng.choice([None, None, 0.5, 0.8]), "backend": backend, "link_type": lt, "names": names, "tables": tables, "comparisons": comps,
            "rules": rules, "prior": rng.choice([0.01, 0.1, 0.3, 0.5, 0.9]),
            "num_bins": rng.choice([3, 5, 10, 30, 60, 100, 150, 400, 2000]), "top_n": rng.choice([1, 2, 3, 10]), "bottom_n": rng.choice([1, 2, 10]),
            "completeness_cols": rng.choice([None, None, ["a"], ["b", "c"]])}


# ---------------------------------------------------------------------------- driving Splink
def frames_of(case):
    out = []
    for rows in case["tables"]:
        d = pd.DataFrame(rows, columns=["unique_id"] + COLS)
        for c in COLS:
            d[c] = d[c].astype("string")
        out.append(d)
    return out


def settings_of(case):
    import splink.comparison_library as cl
    from splink import SettingsCreator
    comps = []
    for c in case["comparisons"]:
        kw = {"m_probabilities": c["m"], "u_probabilities": c["u"]}
        if c["tf"]:
            kw["term_frequency_adjustments"] = True
        comps.append(cl.ExactMatch(c["col"]).configure(**kw))
    return SettingsCreator(link_type=case["link_type"], comparisons=comps,
                           blocking_rules_to_generate_predictions=list(case["rules"]),
                           probability_two_random_records_match=case["prior"],
                           retain_matching_columns=True, retain_intermediate_calculation_columns=True)


def make_linker(case):
    aliases = case["names"] if len(case["names"]) > 1 else None
    return su.linker(frames_of(case), settings_of(case), case["backend"], aliases=aliases)


def run_impl(case):
    from splink.internals.completeness import completeness_data
    from splink.internals.match_weights_histogram import histogram_data
    from splink.internals.unlinkables import unlinkables_data
    res = {}
    lk = make_linker(case)
    store = {}
    tap(lk._db_api, ["__splink__df_concat_with_tf", "__splink__df_comparison_vector_distribution"], store)
    res["tf"] = {c: lk.table_management.compute_tf_table(c).as_record_dict() for c in COLS}
    if True:      # completeness works on SQLite too since /repo 452d5274
        api = su.make_api(case["backend"])
        d = api.register_multiple_tables(frames_of(case))
        res["completeness"] = completeness_data(d, api, case["completeness_cols"], list(case["names"]))
    dfp = lk.inference.predict()
    res["predict"] = dfp.as_record_dict()
    res["concat_with_tf"] = store.get("__splink__df_concat_with_tf", [None])[-1]
    if res["predict"]:
        os.makedirs(SCRATCH, exist_ok=True)
        lk.visualisations.comparison_viewer_dashboard(dfp, f"{SCRATCH}/scv_{os.getpid()}.html", overwrite=True,
                                                      num_example_rows=1)
        res["cvd"] = store["__splink__df_comparison_vector_distribution"][-1]
        dfh = dfp
        if case.get("hist_threshold") is not None:
            ws = sorted(r["match_weight"] for r in res["predict"])
            thr = ws[min(len(ws) - 1, int(case["hist_threshold"] * len(ws)))]
            dfh = lk.inference.predict(threshold_match_weight=thr)      # a narrow weight range
        res["hist_predict"] = dfh.as_record_dict()
        res["hist"] = histogram_data(lk, dfh, case["num_bins"]).as_record_dict() if res["hist_predict"] else []
    # profile_columns returns a chart only: the tables it computes are read by wrapping the DatabaseAPI
    from splink.internals.profile_data import profile_columns
    papi = su.make_api(case["backend"])
    pcap = {}
    porig = papi.sql_pipeline_to_splink_dataframe

    def pwrapped(pipeline, use_cache=True):
        sdf = porig(pipeline, use_cache)
        pcap[sdf.templated_name] = sdf.as_record_dict()
        return sdf
    papi.sql_pipeline_to_splink_dataframe = pwrapped
    profile_columns(frames_of(case), papi, column_expressions=list(COLS), top_n=case.get("top_n", 10),
                    bottom_n=case.get("bottom_n", 10))
    res["profile"] = pcap
    if case.get("raw_tables"):
        def raw_frames_of(tabs):
            out = []
            for rows_t in tabs:
                d = pd.DataFrame(rows_t, columns=["a", "b"])
                d["a"] = d["a"].astype("string")
                d["b"] = d["b"].astype("string")
                out.append(d)
            return out
        raw_names = [f"raw{i}" for i in range(len(case["raw_tables"]))]
        # tables registered BY NAME on one DatabaseAPI per function; contents replaced between the calls
        capi = su.make_api(case["backend"])
        papi = su.make_api(case["backend"])
        pcap2 = {}
        porig2 = papi.sql_pipeline_to_splink_dataframe

        def pwrapped2(pipeline, use_cache=True):
            sdf = porig2(pipeline, use_cache)
            pcap2[sdf.templated_name] = sdf.as_record_dict()
            return sdf
        papi.sql_pipeline_to_splink_dataframe = pwrapped2
        for step, key in enumerate(("raw_tables", "raw_tables2")):
            if not case.get(key):
                continue
            for api in (capi, papi):
                if api is not None:
                    for nm, d in zip(raw_names, raw_frames_of(case[key])):
                        api.register_table(d, nm, overwrite=step > 0)
            tag = "raw" if step == 0 else "raw2"
            if capi is not None:
                # by name: ONE table (with >= 2 named tables completeness_data loses the dataset labels: finding,
                # witness in c20.py); no cleanup call in between unless `completeness_cleanup` is set
                if step > 0 and case.get("completeness_cleanup", COMPLETENESS_NEEDS_CLEANUP):
                    capi.delete_tables_created_by_splink_from_db()
                res[f"{tag}_named_completeness"] = completeness_data(capi.register_multiple_tables(raw_names[:1]), capi, None, raw_names[:1])
                if step == 0:      # several tables as data frames (bags with duplicates)
                    api0 = su.make_api(case["backend"])
                    res["raw_completeness"] = completeness_data(api0.register_multiple_tables(raw_frames_of(case[key])), api0, None, raw_names)
            # by name: ONE table (with several tables the SQL text contains fresh random aliases and is never reused);
            # no cleanup call: profile_columns cleans up after itself
            pcap2.clear()
            profile_columns(raw_names[:1], papi, column_expressions=["a", "b"], top_n=case.get("top_n", 10),
                            bottom_n=case.get("bottom_n", 10))
            res[f"{tag}_named_profile"] = dict(pcap2)
            if step == 0:      # several tables as data frames (bags with duplicates)
                papi0 = su.make_api(case["backend"])
                pcap0 = {}
                porig0 = papi0.sql_pipeline_to_splink_dataframe

                def pwrapped0(pipeline, use_cache=True):
                    sdf = porig0(pipeline, use_cache)
                    pcap0[sdf.templated_name] = sdf.as_record_dict()
                    return sdf
                papi0.sql_pipeline_to_splink_dataframe = pwrapped0
                profile_columns(raw_frames_of(case[key]), papi0, column_expressions=["a", "b"], top_n=case.get("top_n", 10),
                                bottom_n=case.get("bottom_n", 10))
                res["raw_profile"] = pcap0
    res["self_link"] = lk._self_link().as_record_dict()
    res["unlinkables"] = unlinkables_data(lk)
    return res


# ---------------------------------------------------------------------------- helpers
def all_rows(case):
    return [(case["names"][t], r) for t in range(len(case["tables"])) for r in case["tables"][t]]


def value_ids(case, col):
    vals = sorted({r[col] for _, r in all_rows(case) if r[col] is not None})
    return {v: i for i, v in enumerate(vals)}


def fq(x):
    return coq_Q(Fraction(x))


def bins_py(mn, mx, nb):
    """exact-rational transcription of match_weights_histogram._bins' width choice; also returns
    the gap between the best and second-best distance (tie detector)"""
    widths = [Fraction(1, 100), Fraction(1, 10), Fraction(1, 5), Fraction(1, 4), Fraction(1, 2), Fraction(1), Fraction(2), Fraction(5)]
    rough = (mx - mn) / nb
    best, bd = widths[0], abs(widths[0] - rough)
    for w in widths:
        d = abs(w - rough)
        if d < bd:
            best, bd = w, d
    ds = sorted(abs(w - rough) for w in widths)
    return best, ds[1] - ds[0]


def round_half_away(x: Fraction) -> int:
    return math.floor(x + Fraction(1, 2)) if x >= 0 else math.ceil(x - Fraction(1, 2))


def near_half(x: Fraction, eps=Fraction(1, 10**4)) -> bool:
    f = x - math.floor(x)
    return abs(f - Fraction(1, 2)) < eps


# ---------------------------------------------------------------------------- terms + oracle
def build(case, res):
    """-> (terms, labels, problems, skipped)   problems = list of (kind, detail) from the Python recount"""
    terms, labels, bad, skipped = [], [], [], []
    rows = all_rows(case)
    n = len(rows)
    # ---- term frequencies
    for col in COLS:
        ids = value_ids(case, col)
        colv = [None if r[col] is None else ids[r[col]] for _, r in rows]
        impl = sorted((ids.get(x[col], -1), Fraction(x[f"tf_{col}"])) for x in res["tf"][col])
        terms.append(f"(CTf {coq_list([coq_opt(v, coq_Z) for v in colv], '(option Z)')} "
                     f"{coq_list([f'({coq_Z(v)}, {coq_Q(f)})' for v, f in impl], '(Z * Q)')})")
        labels.append(("tf", col))
        nn = [v for v in colv if v is not None]
        want = {v: Fraction(nn.count(v), len(nn)) for v in set(nn)}
        got = {v: f for v, f in impl}
        if set(want) != set(got) or len(impl) != len(got) or any(abs(got[v] - want[v]) > Fraction(1, 10**12) for v in want):
            bad.append(("tf", f"tf table of {col}: {res['tf'][col]} but relative frequencies are { {k: float(v) for k, v in want.items()} }"))
        if impl and abs(sum(f for _, f in impl) - 1) > Fraction(1, 10**9):
            bad.append(("tf_sum", f"tf of {col} sums to {float(sum(f for _, f in impl))}"))
    # ---- tf joined for scoring
    cw = res["concat_with_tf"]
    for c in case["comparisons"]:
        col = c["col"]
        if not c["tf"]:
            continue
        if cw is None or f"tf_{col}" not in cw[0]:
            bad.append(("tf_join", f"tf_{col} missing from __splink__df_concat_with_tf"))
            continue
        ids = value_ids(case, col)
        key = (lambda r: (r.get("source_dataset"), r["unique_id"])) if len(case["names"]) > 1 else (lambda r: (case["names"][0], r["unique_id"]))
        by = {key(r): r for r in cw}
        colv, impl = [], []
        for name, r in rows:
            x = by.get((name, r["unique_id"]))
            if x is None:
                bad.append(("tf_join", f"record {name},{r['unique_id']} missing from concat_with_tf"))
                continue
            colv.append(None if r[col] is None else ids[r[col]])
            impl.append(None if x[f"tf_{col}"] is None else Fraction(x[f"tf_{col}"]))
        terms.append(f"(CJoin {coq_list([coq_opt(v, coq_Z) for v in colv], '(option Z)')} "
                     f"{coq_list([coq_opt(v, coq_Q) for v in impl], '(option Q)')})")
        labels.append(("tf_join", col))
        tfv = {x[col]: x[f"tf_{col}"] for x in res["tf"][col]}
        for p in res["predict"]:
            for side in ("l", "r"):
                v = p[f"{col}_{side}"]
                t = p.get(f"tf_{col}_{side}")
                if (v is None and t is not None) or (v is not None and t != tfv.get(v)):
                    bad.append(("tf_scoring", f"pair scored with tf_{col}_{side}={t} for value {v!r}; tf table says {tfv.get(v)}"))
    # ---- completeness (linker-style tables, and raw tables with exact duplicate rows)
    raw_rows = [(f"raw{t}", r) for t, tab in enumerate(case.get("raw_tables") or []) for r in tab]
    raw2_rows = [(f"raw{t}", r) for t, tab in enumerate(case.get("raw_tables2") or []) for r in tab]
    raw_names = [f"raw{t}" for t in range(len(case.get("raw_tables") or []))]
    main_rows, main_names = rows, case["names"]
    for view, rows, vnames, vres, vcols in (
            ("", main_rows, main_names, res.get("completeness"), case["completeness_cols"] or (["unique_id"] + COLS)),
            ("raw ", raw_rows, raw_names, res.get("raw_completeness"), ["a", "b"]),
            ("named table ", [x for x in raw_rows if x[0] == "raw0"], raw_names[:1], res.get("raw_named_completeness"), ["a", "b"]),
            ("after the named table was replaced: ", [x for x in raw2_rows if x[0] == "raw0"], raw_names[:1],
             res.get("raw2_named_completeness"), ["a", "b"])):
        if vres is None:
            continue
        cols = vcols
        dsid = {nm: i for i, nm in enumerate(vnames)}
        res_completeness = vres
        got_cols = sorted({x["column_name"] for x in res_completeness})
        if got_cols != sorted(cols):
            bad.append(("completeness", f"columns reported {got_cols} expected {sorted(cols)}"))
        for col in cols:
            cells = [(dsid[nm], None if r[col] is None else 1) for nm, r in rows]
            impl = sorted((dsid.get(x["source_dataset"], -1), int(x["total_null_rows"]), int(x["total_rows_inc_nulls"]),
                           Fraction(x["completeness"])) for x in res_completeness if x["column_name"] == col)
            terms.append(f"(CCompl {coq_list([f'({coq_Z(d)}, {coq_opt(v, coq_Z)})' for d, v in cells], '(Z * option Z)')} "
                         f"{coq_list([f'({coq_Z(d)}, {coq_Z(a)}, {coq_Z(b)}, {coq_Q(c)})' for d, a, b, c in impl], '(Z * Z * Z * Q)')})")
            labels.append(("completeness", view + col))
            for d in range(len(vnames)):
                tot = sum(1 for x, _ in cells if x == d)
                nn = sum(1 for x, v in cells if x == d and v is not None)
                row = [i for i in impl if i[0] == d]
                if len(row) != 1 or row[0][1] != tot - nn or row[0][2] != tot or abs(row[0][3] - Fraction(nn, tot)) > Fraction(1, 10**6):
                    bad.append(("completeness", f"{view}column {col} dataset {vnames[d]}: reported {row} but {nn} of {tot} cells are non-null"))
    rows = main_rows
    # ---- profile_columns (same two views)
    for view, rows, prof, pcols in (("", main_rows, res.get("profile"), COLS), ("raw ", raw_rows, res.get("raw_profile"), ["a", "b"]),
                                    ("named table ", [x for x in raw_rows if x[0] == "raw0"], res.get("raw_named_profile"), ["a", "b"]),
                                    ("after the named table was replaced: ", [x for x in raw2_rows if x[0] == "raw0"],
                                     res.get("raw2_named_profile"), ["a", "b"])):
        if prof is None:
            continue
        need = ["__splink__df_all_column_value_frequencies", "__splink__df_percentiles", "__splink__df_top_n", "__splink__df_bottom_n"]
        if any(k not in prof for k in need):
            bad.append(("profile", f"tables computed by profile_columns: {sorted(prof)}"))
        else:
            ntop, nbot = case.get("top_n", 10), case.get("bottom_n", 10)
            for col in pcols:
                ids = {v: i for i, v in enumerate(sorted({r[col] for _, r in rows if r[col] is not None}))}
                colv = [None if r[col] is None else ids[r[col]] for _, r in rows]
                nn = [v for v in colv if v is not None]
                fr = {v: nn.count(v) for v in set(nn)}
                vf = [x for x in prof[need[0]] if x["group_name"] == col]
                pc = sorted((x for x in prof[need[1]] if x["group_name"] == col), key=lambda x: x["value_count"])
                top = [x for x in prof[need[2]] if x["group_name"] == col]
                bot = [x for x in prof[need[3]] if x["group_name"] == col]
                ivf = sorted((ids.get(x["value"], -1), int(x["value_count"])) for x in vf)
                tots = {(int(x["total_non_null_rows"]), int(x["total_rows_inc_nulls"]), int(x["distinct_value_count"])) for x in vf + pc}
                if len(tots) != 1:
                    bad.append(("profile", f"column {col}: inconsistent totals {tots}"))
                    continue
                tot = next(iter(tots))
                ipc = [(int(x["value_count"]), int(x["sum_tokens_in_value_count_group"]), Fraction(x["percentile_ex_nulls"]),
                        Fraction(x["percentile_inc_nulls"])) for x in pc]
                itop = [(ids.get(x["value"], -1), int(x["value_count"])) for x in top]
                ibot = [(ids.get(x["value"], -1), int(x["value_count"])) for x in bot]
                zz = lambda ps: coq_list([f"({coq_Z(a)}, {coq_Z(b)})" for a, b in ps], "(Z * Z)")  # noqa: E731
                terms.append(f"(CProfile {coq_list([coq_opt(v, coq_Z) for v in colv], '(option Z)')} {zz(ivf)} "
                             f"({coq_Z(tot[0])}, {coq_Z(tot[1])}, {coq_Z(tot[2])}) "
                             + coq_list([f"({coq_Z(a)}, {coq_Z(b)}, {coq_Q(c)}, {coq_Q(d)})" for a, b, c, d in ipc], "(Z * Z * Q * Q)")
                             + f" {ntop}%nat {nbot}%nat {zz(itop)} {zz(ibot)})")
                labels.append(("profile", view + col))
                if dict(ivf) != fr or len(ivf) != len(fr):
                    bad.append(("profile", f"{view}column {col}: value counts {ivf} but the data has {sorted(fr.items())}"))
                if tot != (len(nn), len(colv), len(fr)):
                    bad.append(("profile", f"{view}column {col}: totals {tot} but non-null/rows/distinct are {(len(nn), len(colv), len(fr))}"))
                for c, tok, pe, pi in ipc:
                    cum = sum(1 for v in nn if fr[v] >= c)
                    exact = sum(1 for v in nn if fr[v] == c)
                    if tok != exact or abs(pe - (1 - Fraction(cum, len(nn)))) > Fraction(1, 10**6) \
                            or abs(pi - (1 - Fraction(cum, len(colv)))) > Fraction(1, 10**6):
                        bad.append(("profile", f"column {col} count {c}: tokens {tok} percentiles {float(pe)}/{float(pi)} but {exact} cells have a "
                                               f"value occurring exactly {c} times and {cum} of {len(nn)} non-null ({len(colv)} all) cells one occurring >= {c} times"))
                if sorted(c for c, *_ in ipc) != sorted(set(fr.values())):
                    bad.append(("profile", f"column {col}: percentile rows for counts {[c for c, *_ in ipc]} but distinct counts are {sorted(set(fr.values()))}"))
                sizes = sorted(fr.values(), reverse=True)
                if [c for _, c in itop] != sizes[:ntop] or [c for _, c in ibot] != sorted(fr.values())[:nbot]:
                    bad.append(("profile", f"column {col}: top {itop} / bottom {ibot} but sorted counts are {sizes}"))
                if any(fr.get(v) != c for v, c in itop + ibot):
                    bad.append(("profile", f"column {col}: a listed top/bottom value is not a value of the data with that count"))
    rows = main_rows
    # ---- pair-level outputs
    preds = res["predict"]
    gcols = [f"gamma_{c['col']}" for c in case["comparisons"]]
    if preds:
        gvs = [[int(p[g]) for g in gcols] for p in preds]
        impl = sorted(([int(x[g]) for g in gcols], int(x["sum_gam"]), int(x["count_rows_in_comparison_vector_group"]),
                       Fraction(x["proportion_of_comparisons"])) for x in res["cvd"])
        terms.append(f"(CCvd {coq_list([coq_list([coq_Z(g) for g in gv], 'Z') for gv in gvs], '(list Z)')} "
                     + coq_list([f"({coq_list([coq_Z(g) for g in gv], 'Z')}, {coq_Z(sg)}, {coq_Z(c)}, {coq_Q(p)})"
                                 for gv, sg, c, p in impl], "(list Z * Z * Z * Q)") + ")")
        labels.append(("cvd", None))
        if sum(c for _, _, c, _ in impl) != len(preds):
            bad.append(("cvd", f"counts add to {sum(c for _, _, c, _ in impl)} for {len(preds)} scored pairs"))
        if abs(sum(p for _, _, _, p in impl) - 1) > Fraction(1, 10**5):
            bad.append(("cvd", f"proportions add to {float(sum(p for _, _, _, p in impl))}"))
        for gv, sg, c, p in impl:
            if c != gvs.count(gv) or abs(p - Fraction(gvs.count(gv), len(preds))) > Fraction(1, 10**6):
                bad.append(("cvd", f"vector {gv}: count {c} proportion {float(p)} but {gvs.count(gv)} of {len(preds)} pairs have it"))
            if sg != sum(0 if g == -1 else (-1 if g == 0 else g) for g in gv):
                bad.append(("cvd", f"vector {gv}: sum_gam {sg}"))
        for x in res["cvd"]:
            if x["gam_concat"] != ",".join(str(int(x[g])) for g in gcols):
                bad.append(("cvd", f"gam_concat {x['gam_concat']}"))
        # histogram (possibly of thresholded predictions)
        scores = [Fraction(p["match_weight"]) for p in res.get("hist_predict", preds)]
        mn, mx = min(scores), max(scores)
        bw_impl = {Fraction(str(x["binwidth"])) for x in res["hist"]}
        bw_spec, gap = bins_py(mn, mx, case["num_bins"])
        if gap < Fraction(1, 10**9):
            skipped.append("hist_width_tie")
        elif len(bw_impl) != 1:
            bad.append(("hist", f"bin widths {bw_impl}"))
        else:
            bw = next(iter(bw_impl))
            if any(abs(s / bw - round(s / bw)) < Fraction(1, 10**9) for s in scores):
                # a score within 1e-9 of a bin edge: the engine's float floor may put it in either neighbour, so
                # only the per-bin comparison is skipped; the width and "counts add up to N" are still checked
                skipped.append("hist_score_on_bin_edge (per-bin comparison only)")
                cnts = [int(x["count_rows"]) for x in res["hist"]]
                terms.append(f"(CHistW {coq_Q(mn)} {coq_Q(mx)} {coq_Z(case['num_bins'])} {coq_Q(bw)} {coq_Z(len(scores))} "
                             f"{coq_list([coq_Z(c) for c in cnts], 'Z')})")
                labels.append(("hist_width_total", None))
                if sum(cnts) != len(scores) or any(c <= 0 for c in cnts):
                    bad.append(("hist", f"bin counts {cnts} do not partition the {len(scores)} scored pairs"))
            else:
                impl = sorted((Fraction(x["splink_score_bin_low"]), int(x["count_rows"]), Fraction(x["splink_score_bin_high"]))
                              for x in res["hist"])
                terms.append(f"(CHist {coq_Q(mn)} {coq_Q(mx)} {coq_Z(case['num_bins'])} {coq_list([coq_Q(s) for s in scores], 'Q')} "
                             f"{coq_Q(bw)} {coq_list([f'({coq_Q(a)}, {coq_Z(b)}, {coq_Q(c)})' for a, b, c in impl], '(Q * Z * Q)')})")
                labels.append(("hist", None))
                # (the width itself is "as chosen by the library": only the Coq correspondence compares it)
                if sum(c for _, c, _ in impl) != len(scores):
                    bad.append(("hist", f"bin counts add to {sum(c for _, c, _ in impl)} for {len(scores)} scored pairs"))
                for lo, c, hi in impl:
                    k = round(lo / bw)
                    inside = sum(1 for s in scores if bw * k <= s < bw * (k + 1))
                    if abs(lo - bw * k) > Fraction(1, 10**9) or c != inside or abs(hi - lo - bw) > Fraction(1, 10**6):
                        bad.append(("hist", f"bin [{float(lo)}, {float(hi)}) count {c}: {inside} scores lie in [{float(bw * k)}, {float(bw * (k + 1))})"))
                for s in scores:
                    if sum(1 for lo, _, _ in impl if bw * round(lo / bw) <= s < bw * (round(lo / bw) + 1)) != 1:
                        bad.append(("hist", f"score {float(s)} is not in exactly one bin"))
                        break
    # ---- unlinkables
    sl = res["self_link"]
    if len(sl) != n:
        bad.append(("unlinkables", f"self link has {len(sl)} rows for {n} records"))
    ss = [(Fraction(x["match_weight"]), Fraction(x["match_probability"])) for x in sl]
    if any(near_half(w * 100) or near_half(p * 100000) for w, p in ss):
        skipped.append("unlinkables_rounding_boundary")
    else:
        impl = sorted((Fraction(x["match_weight"]), Fraction(x["match_probability"]), Fraction(x["prop"]), Fraction(x["cum_prop"]))
                      for x in res["unlinkables"])
        impl.sort(key=lambda t: t[1])
        terms.append(f"(CUnl {coq_list([f'({coq_Q(w)}, {coq_Q(p)})' for w, p in ss], '(Q * Q)')} "
                     f"{coq_list([f'({coq_Q(a)}, {coq_Q(b)}, {coq_Q(c)}, {coq_Q(d)})' for a, b, c, d in impl], '(Q * Q * Q * Q)')})")
        labels.append(("unlinkables", None))
        r5 = [Fraction(round_half_away(p * 100000), 100000) for _, p in ss]
        # every LISTED probability is recounted (which ones are listed is compared by the Coq correspondence)
        for (w, p, pr, cum) in impl:
            pw = min(r5, key=lambda q: abs(q - p))
            if abs(pw - p) > Fraction(1, 10**9):
                bad.append(("unlinkables", f"listed probability {float(p)} is not the rounded self-match probability of any record"))
                continue
            share = Fraction(sum(1 for q in r5 if q <= pw), len(r5))
            own = Fraction(sum(1 for q in r5 if q == pw), len(r5))
            if abs(cum - share) > Fraction(1, 10**5) or abs(pr - own) > Fraction(1, 10**6):
                bad.append(("unlinkables", f"probability {float(pw)}: cum_prop {float(cum)} prop {float(pr)} but the share of records at or below it is {float(share)} (at it: {float(own)})"))
    return terms, labels, bad, skipped


# ---------------------------------------------------------------------------- witness: completeness on a replaced named table
WITNESS_COMPLETENESS_STALE = {"table_name": "tt", "first": ["x", "x", "y", None], "second": ["x", "z", "z", "z", "z"]}


def replay_witness_completeness_stale():
    """completeness_data on a table passed by name, contents replaced, same DatabaseAPI, no cleanup
    -> (reproduced, first, second, fresh) as (total_null_rows, total_rows_inc_nulls)"""
    from splink.internals.completeness import completeness_data
    w = WITNESS_COMPLETENESS_STALE

    def frame(vals):
        d = pd.DataFrame([{"a": v} for v in vals])
        d["a"] = d["a"].astype("string")
        return d

    def run(api):
        rows = completeness_data(api.register_multiple_tables([w["table_name"]]), api, ["a"], [w["table_name"]])
        return [int(rows[0]["total_null_rows"]), int(rows[0]["total_rows_inc_nulls"])]
    api = su.make_api("duckdb")
    api.register_table(frame(w["first"]), w["table_name"])
    first = run(api)
    api.register_table(frame(w["second"]), w["table_name"], overwrite=True)
    second = run(api)
    fresh = su.make_api("duckdb")
    fresh.register_table(frame(w["second"]), w["table_name"])
    want = run(fresh)
    return second != want, first, second, want


WITNESS_COMPLETENESS_LABELS = {"tables": {"t1": ["x", None], "t2": ["y", "y", "y"]}}


def replay_witness_completeness_labels():
    """completeness_data on two tables passed by name -> (reproduced, labels)"""
    from splink.internals.completeness import completeness_data
    api = su.make_api("duckdb")
    for nm, vals in WITNESS_COMPLETENESS_LABELS["tables"].items():
        d = pd.DataFrame([{"a": v} for v in vals])
        d["a"] = d["a"].astype("string")
        api.register_table(d, nm)
    names = list(WITNESS_COMPLETENESS_LABELS["tables"])
    rows = completeness_data(api.register_multiple_tables(names), api, ["a"], names)
    labels = sorted(str(r["source_dataset"]) for r in rows)
    return labels != sorted(names), labels
