"""C15  Accuracy tables are exact recounts of the labelled pairs.

 P  theorems in Properties/C15.v about the per-CTE model of the truth-space SQL
    (Model/Accuracy.v): counts are recounts, conservation, monotonicity, reported thresholds,
    unfound pairs predicted negative, label-column totals = number of admissible pairs,
    lower id on the left, prediction errors exact, derived rates in closed form.
 T  translators/c15_rates.py regenerates the arithmetic tree of every derived-rate column from
    the final SELECT that /repo emits; each of the 16 trees must BE the documented tree of
    `rate_defs` (aexp_eqb, decided in Coq; C15_rate_tree_equality_is_identity and
    C15_rates_by_definition then speak about the SQL for every row) and, as a semantic fallback,
    agree with it on a 4^4 grid of counts; integer divisions are flagged statically.
 X  histories on ONE linker: real accuracy_analysis_from_labels_table / _column
    (output_type="table") and prediction_errors_from_labels_table / _column, then a change of
    the model (no invalidate_cache), then the calls again - on DuckDB and SQLite.  Every call is
    compared with the Gallina model evaluated inside Coq on the labelled pairs with the
    implementation's own scores, and with the property oracle: a direct recount in Python from
    independent labels, found flags (plain predict() of a fresh linker) and the scores of the
    CURRENT model (all-pairs predict() of a fresh linker built from save_model_to_json); the
    oracle drives the search and the shrink.
"""
from __future__ import annotations

import json
import traceback

from harness.common import REPO, Ctx, coq_list, coq_string, git_blob
from harness import c15_x as X

T_HEADER = """From Coq Require Import List Bool ZArith QArith.
From Coq Require Strings.String.
Import String.StringSyntax.
From Splinkv Require Import Model.Accuracy.
Import ListNotations.
"""
EXPECTED_CTES = ["__splink__labels_with_pos_neg", "__splink__labels_with_pos_neg_tt_adj",
                 "__splink__labels_with_pos_neg_grouped", "__splink__labels_with_pos_neg_grouped_with_stats",
                 "__splink__labels_with_pos_neg_grouped_with_stats_adj",
                 "__splink__labels_with_pos_neg_grouped_with_truth_stats", "__splink__truth_space_table"]


def translator_stage(ctx: Ctx):
    from translators import c15_rates as T
    broken = []
    try:
        sql, names = T.final_select_sql()
        out, notes, where = T.extract(sql)
    except Exception as e:  # fail closed
        ctx.obligation("translate final SELECT of the truth-space SQL", False, repr(e))
        return ["translation of the final SELECT failed: " + repr(e)]
    ctx.obligation("translate final SELECT of the truth-space SQL", True)
    if not ctx.obligation("CTE chain of the truth-space SQL is the modelled one", names == EXPECTED_CTES, str(names)):
        broken.append("CTE chain differs from the modelled one: " + str(names))
    if not ctx.obligation("no integer-typed division in a derived rate", not notes, "; ".join(notes)):
        broken.append("integer division: " + "; ".join(notes))
    w = (where or "").lower().replace(" ", "")
    if not ctx.obligation("row filter is truth_threshold >= -998", w in ("truth_threshold>=cast(-998asdouble)", "truth_threshold>=-998"), str(where)):
        broken.append("row filter changed: " + str(where))
    have = {n for n, _ in out}
    if not ctx.obligation("every documented rate column is emitted", set(X.RATE_NAMES) <= have, str(sorted(have))):
        broken.append("missing rate columns: " + str(sorted(set(X.RATE_NAMES) - have)))
    terms = [f"({coq_string(n)}, {t})" for n, t in out]
    # (1) the SQL's tree IS the documented tree (C15_rate_tree_equality_is_identity lifts this to all rows)
    runner_eq = ("fun ne : String.string * aexp => match lookup_rate (fst ne) rate_defs with "
                 "Some d => aexp_eqb (snd ne) d | None => false end")
    bad_eq, errs = ctx.eval_cases("C15_rates_eq", T_HEADER, terms, runner_eq, shard=50)
    # (2) semantic fallback on a grid (tells a harmless reshaping from a changed formula)
    runner = ("fun ne : String.string * aexp => match lookup_rate (fst ne) rate_defs with "
              "Some d => aexp_agree 4 (snd ne) d | None => false end")
    bad, errs2 = ctx.eval_cases("C15_rates", T_HEADER, terms, runner, shard=50)
    errs = errs + errs2
    for e in errs:
        ctx.obligation("rate obligations evaluate", False, e)
        broken.append("rate obligations did not evaluate")
    ctx.obligations += 2 * len(terms)
    ctx.discharged += (2 * len(terms) - len(bad) - len(bad_eq)) if not errs else 0
    for i in bad:
        broken.append(f"derived rate {out[i][0]} differs from its documented definition: {out[i][1]}")
        ctx.log("rate obligation failed:", out[i][0])
    for i in bad_eq:
        if i not in bad:
            broken.append(f"the SQL tree of derived rate {out[i][0]} is no longer the documented tree (same values on the grid): {out[i][1]}")
            ctx.log("rate tree reshaped:", out[i][0])
    ctx.cov["rate_obligations"] = len(terms)
    ctx.cov["translated_sources"] = {p: git_blob(REPO / p) for p in ["splink/internals/accuracy.py"]}
    return broken


def features_of(case, kind, column):
    f = {"backend": case["backend"], "mode": case["mode"], "kind": kind}
    if column:
        f["column"] = column
    return f


def history_bad(case):
    """run the whole history of `case`; -> [(step, case_i, res_i, [(kind, column, detail)])]"""
    out = []
    for step, (c, r) in enumerate(X.run_history(case)):
        out.append((step, c, r, X.oracle(c, r)))
    return out


def report(ctx: Ctx, case, bad):
    """shrink on each oracle failure kind and report one violation per (kind, column)"""
    seen = set()
    for kind, column, detail in bad:
        if (kind, column) in seen:
            continue
        seen.add((kind, column))

        def fails(c, kind=kind, column=column):
            return any(k == kind and col == column for _, _, _, b in history_bad(c) for k, col, _ in b)
        small = X.shrink(case, fails) if len(seen) <= 3 else case
        try:
            hb = history_bad(small)
        except Exception:
            small = case
            hb = history_bad(case)
        step, c2, r2, b2 = next(((st, c, r, [d for k, col, d in b if k == kind and col == column])
                                 for st, c, r, b in hb if any(k == kind and col == column for k, col, _ in b)),
                                (0, hb[0][1], hb[0][2], [detail]))
        rows, ghosts, _ = X.spec_rows(c2, r2)
        spec = [dict(threshold=float(r["truth_threshold"]), **X.recount(c2, rows, ghosts, X.Fraction(r["truth_threshold"])))
                for r in r2["table"]]
        feats = features_of(c2, kind, column)
        feats["after_model_change"] = bool(step)
        ctx.violation(
            f"accuracy output is not the recount ({kind}{' ' + column if column else ''}"
            f"{', call after a model change on the same linker' if step else ''}): {(b2 or [detail])[0]}",
            {"case": small, "failing_call": step, "implementation": {"table": r2["table"], "errors": r2["errors"]},
             "specification": {"recount_at_reported_thresholds": spec, "detail": b2 or [detail]}},
            feats)


def run_one(ctx, case):
    """-> list of (case_i, res_i, terms, bad) per call of the history (None entries = skipped)"""
    out = []
    for c, res in X.run_history(case):
        scores = [X.Fraction(r["match_weight"]) for r in res["lwp"]]
        if X.near_rounding_boundary(c, scores):
            out.append(None)
            continue
        out.append((c, res, X.case_terms(c, res), X.oracle(c, res)))
    return out


def run(ctx: Ctx):
    ctx.cov["rule"] = ("X: histories on one linker [accuracy table + prediction errors; change of the model (m/u, prior, "
                       "estimate_u, estimate_probability_two_random_records_match) without invalidate_cache; the calls again, "
                       "possibly in the other label mode], every call checked against the scores of the CURRENT model taken "
                       "from fresh linkers; cases: seeded (tables 1-3, link type, 0-3 blocking rules incl. asymmetric, 2 comparisons with fixed m/u, "
                       "mode table|column, labels in both orientations / duplicated / for missing records / NULL scores, "
                       "label column with NULLs, threshold_actual in {0,.25,.5,.75,1}, rounding None|dyadic|0.1|0.3, "
                       "scored-as-zero on/off, prediction-error threshold and include flags); a case is non-trivial when "
                       "the table has >=2 rows, some labelled pair is a clerical positive and some pair is not found by blocking or tied in score; "
                       "every call of a history yields 2 Coq terms (truth table, prediction errors); "
                       "distinct by full case.")
    ctx.trusted += [
        "translators/c15_rates.py (sqlglot parse of the final SELECT; grid 4^4 comparison of rate trees)",
        "harness X: the implementation's own match_weight / match_probability per labelled pair are the Coq model's inputs "
        "and are cross-checked (1e-9) against predict() of a fresh linker carrying the current model (scoring itself is C02); "
        "found-by-blocking is taken from a plain predict() of a fresh linker",
        "modelled not verified: SQL GROUP BY / window RANGE framing / float casts of the engines; "
        "match_probability = 2^t/(1+2^t) and phi's sqrt are compared numerically in Python/Coq with tolerance 1e-9; "
        "N_rate is computed by DuckDB in 32-bit floats (tolerance 1e-6)",
    ]
    ok = ctx.proof_stage("Properties/C15.v")
    if not ok:
        ctx.violation("theorems of Properties/C15.v no longer check", {"broken": "Properties/C15.v"}, found_input=False)
    broken_T = translator_stage(ctx)

    if ctx.replay:
        rp = json.loads(open(ctx.replay).read())
        cases = [rp["case"]] if "case" in rp else []
    else:
        n = 90 if ctx.quick else 1000
        cases = []
        for i in range(n):
            backend = "sqlite" if i % 3 == 2 else "duckdb"
            mode = "table" if i % 2 == 0 else "column"
            cases.append(X.gen_case(ctx.rng, backend, mode))

    terms, owners = [], []
    reported = 0
    skipped = 0
    found_any = False
    for ci, case in enumerate(cases):
        try:
            steps = run_one(ctx, case)
        except Exception:
            tb = traceback.format_exc()
            ctx.log("implementation/harness raised on case", ci, tb[-1500:])
            ctx.violation("accuracy functions raised on a valid input (or the harness could not drive them)",
                          {"case": case, "traceback": tb}, features_of(case, "raise", None))
            continue
        all_bad = []
        for si, st in enumerate(steps):
            if st is None:
                skipped += 1
                continue
            c, res, ts, bad = st
            d = X.describe_nontrivial(c, res)
            nontrivial = d["rows"] >= 2 and 0 < d["positives"] and (d["unfound"] > 0 or d["score_ties"] > 0)
            ctx.count_case(json.dumps(c, sort_keys=True, default=str), nontrivial,
                           {"mode": c["mode"], "backend": c["backend"], "link_type": c["link_type"],
                            "rules": c["rules"], "round": c["round"], "call": si, **d})
            ctx.hist("mode", c["mode"]); ctx.hist("backend", c["backend"]); ctx.hist("link_type", c["link_type"])
            ctx.hist("rounding", c["round"]); ctx.hist("n_rules", len(c["rules"])); ctx.hist("table_rows", min(d["rows"], 10))
            ctx.hist("unfound_pairs", min(d["unfound"], 5)); ctx.hist("threshold_actual", c["ta"])
            ctx.hist("error_rows", min(len(res["errors"]), 5))
            ctx.hist("call_in_history", "first" if si == 0 else "after " + str((c.get("step") or {}).get("after_change")))
            for t in ts:
                terms.append(t)
                owners.append(ci)
            all_bad += bad
        if all_bad:
            found_any = True
            if reported < 4:
                reported += 1
                report(ctx, case, all_bad)
    ctx.cov["skipped_near_rounding_boundary"] = skipped
    bad_idx, errs = ctx.eval_cases("C15_x", X.HEADER, terms, "run_case", shard=60)
    for e in errs:
        ctx.log(e)
    okx = ctx.obligation("correspondence: truth tables and prediction errors of the implementation = model evaluated in Coq",
                         not bad_idx and not errs, f"{len(bad_idx)} of {len(terms)} terms disagree")
    ctx.cov["coq_evaluated_terms"] = len(terms)
    if not okx and not found_any:
        which = sorted({owners[i] for i in bad_idx})[:3]
        ctx.violation("model (Model/Accuracy.v) and implementation disagree although the recount oracle accepts the output",
                      {"broken": "correspondence C15_x", "cases": [cases[i] for i in which], "errors": errs[:2]},
                      found_input=False)
    if broken_T and not found_any:
        ctx.violation("translator obligation on the truth-space SQL failed: " + "; ".join(broken_T)[:400],
                      {"broken": "T: " + "; ".join(broken_T)}, found_input=False)
