"""C18  Splink never damages data it did not create and can clean up after itself.

 P  Properties/C18.v over Model/Catalog.v (extends Model/Cache.v): user / caller tables keep name,
    origin and content through every safe history, register_table and drop refuse, cleanup is exact;
    refutations for debug mode (leak, clobber) and the realtime cached-SQL path.
 T  probes: which variant of the realtime cached path the tree implements (fx715), plus the C07 probes;
    translators/c18_register.py reads DatabaseAPI.register_multiple_tables (ast) and fails closed unless both loops
    iterate over zip(input_tables, input_aliases) with the by-name skip inside the loop, as Catalog.register_multiple does.
 X  histories of public operations + register_table / drop / realtime / cleanup calls on real Linkers
    (also register_multiple_tables / Linker([...]) over mixed lists of table names and data frames)
    over PERSISTENT DuckDB files and SQLite files pre-populated with user tables and views (including
    names that look like Splink's); after every operation the catalog (tables AND views) is listed:
    oracle = schema and checksum of every user object unchanged, nothing Splink-derived left after
    cleanup; correspondence = the normalised catalog equals the model's catalog evaluated in Coq.
"""
from __future__ import annotations

import contextlib
import hashlib
import io
import json
import os
import shutil

import pandas as pd

from harness import c07 as C07
from harness import c07_x as X
from harness import splink_util as su
from harness.common import Ctx, REPO, coq_bool, coq_list, coq_nat, coq_string, git_blob

SCRATCH = "/var/tmp/cache/c18db"
USER_TABLES = ["customers", "__splink__df_concat", "__splink__df_predict", "r", "blocked_with_cols",
               "__splink__df_concat_with_tf_0a1b2c3d4", "people", "__splink__input_table_0"]
USER_VIEWS = ["customer_view", "representatives", "Staff"]
# user-owned tables with the schema of Splink tables: targets of the register_* entry points that take a table NAME
SLOT_TABLES = {"cwtf": "user_nodes_with_tf", "predict": "user_predictions", "tf:first_name": "user_tf_first_name"}
LABELS_TABLE = "user_labels"
# names that differ from an existing user object only in letter case (the engines resolve names case-insensitively)
CASE_VARIANTS = ["People", "PEOPLE", "staff", "STAFF", "Customers", "CUSTOMER_VIEW", "R"]
CALLER_RE = X.UID_NAMES
# register_multiple_tables / Linker([...]) over mixed lists (table NAME, data frame): pools for the generator
INPUT_TABLE = "inp"                        # X.World's input table: the by-name item of Linker([...]) calls
BYNAME_API = [INPUT_TABLE, "customers", "people", "__splink__input_table_0", "user_labels"]
FRESH_ALIASES = ["caller_t1", "caller_t2", "new_records", "scratch_a", "scratch_b"]      # never names of user objects
LABEL_ALIASES = ["customers", "r", "people", "__splink__input_table_0", "census", "user_predictions"]   # labels of by-name items
CLASH_ALIASES = ["customers", "r", "People", "customer_view", "STAFF", "__splink__df_concat", "__splink__input_table_0"]

HEADER = X.HEADER + """
From Splinkv Require Import Model.Catalog.
Notation cop := (Catalog.cop K).
Notation COp := (Catalog.COp K).
Notation CRegisterTable := (Catalog.CRegisterTable K).
Notation CRegisterMultiple := (Catalog.CRegisterMultiple K).
Notation CRegisterByName := (Catalog.CRegisterByName K).
Notation CHandleByName := (Catalog.CHandleByName K).
Notation CDropTable := (Catalog.CDropTable K).
Notation CRealtime := (Catalog.CRealtime K).
Definition cat_eqb (a b : string * bool) := String.eqb (fst a) (fst b) && Bool.eqb (snd a) (snd b).
Definition model_catalog (s : state K) : list (string * bool) :=
  map (fun x => match x with (n, h, _) => (n, h) end) (db_listing K s).
Fixpoint csteps_ok (s : state K) (l : list (cop * list (string * bool))) : bool :=
  match l with
  | [] => true
  | (c, cat) :: r => let s' := fst (cstep K keqb hash s c) in bag_eqb cat_eqb (model_catalog s') cat && csteps_ok s' r
  end.
Fixpoint cfirst_bad (n : nat) (s : state K) (l : list (cop * list (string * bool))) : option (nat * list (string * bool)) :=
  match l with
  | [] => None
  | (c, cat) :: r => let s' := fst (cstep K keqb hash s c) in
                     if bag_eqb cat_eqb (model_catalog s') cat then cfirst_bad (S n) s' r else Some (n, model_catalog s')
  end.
Definition run_ccase (c : state K * list (cop * list (string * bool))) : bool := csteps_ok (fst c) (snd c).
"""


# ------------------------------------------------------------------------------------------- world
class CWorld(X.World):
    """Linker over a persistent database file that already holds user tables and views."""

    def __init__(self, backend: str, path: str):
        import duckdb
        import sqlite3
        if backend == "duckdb":
            con = duckdb.connect(path)
        else:
            con = sqlite3.connect(path)
        for i, t in enumerate(USER_TABLES):
            con.execute(f"create table {t} as select {i} as a, 'u{i}' as b union all select {i + 1}, 'v{i}'")
        con.execute(f"create view {USER_VIEWS[0]} as select * from customers")
        con.execute(f"create view {USER_VIEWS[1]} as select a + 1 as a1 from r")
        con.execute(f"create view {USER_VIEWS[2]} as select a, b from people")
        if backend == "sqlite":
            con.commit()
        self.user_names = set(USER_TABLES + USER_VIEWS)
        self._precon = con
        if backend == "duckdb":
            api = su.duckdb_api(con)
        else:
            from splink.internals.sqlite.database_api import SQLiteAPI
            api = SQLiteAPI(con)
        super().__init__(backend, 0, api=api)
        self.user_names.add(self.table)
        self.caller_names: set[str] = set()
        self.fx715 = False
        self.frames: dict = {}
        self.pending: list[dict] = []       # oracle problems noticed inside an operation
        self.named_predict = False
        # user-owned copies of a concat_with_tf table, a predictions table, a term-frequency table and a labels table
        lk = self.linker
        copies = {SLOT_TABLES["cwtf"]: compute_df_concat_with_tf_name(lk), SLOT_TABLES["predict"]: lk.inference.predict().physical_name,
                  SLOT_TABLES["tf:first_name"]: lk.table_management.compute_tf_table("first_name").physical_name}
        for user, phys in copies.items():
            self.con.execute(f"create table {user} as select * from {phys}")
        lab = pd.DataFrame(X.label_rows(self.table))
        if backend == "duckdb":
            self.con.register("__c18_lab", lab)
            self.con.execute(f"create table {LABELS_TABLE} as select * from __c18_lab")
            self.con.unregister("__c18_lab")
        else:
            lab.to_sql(LABELS_TABLE, self.con, index=False)
        lk.table_management.invalidate_cache()        # back to a clean linker: no Splink table, empty cache
        self.reset_trackers()
        self.user_names |= set(copies) | {LABELS_TABLE}

    # catalog: every table and view with its kind
    def catalog(self) -> list[tuple[str, str]]:
        if self.backend == "duckdb":
            rows = self.con.execute("select table_name, table_type from information_schema.tables").fetchall()
            return sorted((n, "view" if "VIEW" in t else "table") for n, t in rows)
        rows = self.con.execute("select name, type from sqlite_master where type in ('table','view')").fetchall()
        rows = [tuple(r.values()) if isinstance(r, dict) else r for r in rows]
        return sorted((n, t) for n, t in rows)

    def checksum(self, name: str) -> str:
        try:
            return self._checksum(name)
        except Exception as e:  # noqa: BLE001  (e.g. a view whose base table was dropped)
            return f"unreadable: {type(e).__name__}"

    def _checksum(self, name: str) -> str:
        cur = self.con.execute(f'select * from "{name}"')
        cols = [d[0] for d in cur.description]
        rows = cur.fetchall()
        rows = [tuple(r.values()) if isinstance(r, dict) else tuple(r) for r in rows]
        return hashlib.sha1(repr((cols, sorted(map(repr, rows)))).encode()).hexdigest()[:16]

    def user_state(self) -> dict:
        cat = dict(self.catalog())
        return {n: (cat.get(n), self.checksum(n) if n in cat else None) for n in sorted(self.user_names)}

    def normalised(self) -> list[tuple[str, bool]]:
        out = []
        for n, _ in self.catalog():
            if n in self.user_names or n in self.caller_names:
                out.append((n, False))
            elif n.startswith("__splink__realtime_compare_records_") and self.fx715:
                # tracked result table of the realtime cached-SQL path: the model names it by a hash key
                out.append(("__splink__realtime_compare_records", True))
            else:
                out.append(X.strip_name(n))
        return sorted(out)

    def derived_names(self) -> list[str]:
        """Names that are neither user objects nor caller registrations."""
        out = []
        for n, _ in self.catalog():
            if n in self.user_names or n in self.caller_names:
                continue
            if n.startswith("__splink__realtime_compare_records_") or not CALLER_RE.match(n):
                out.append(n)
        return out

    def capply(self, op: tuple):
        """Runs one catalog operation; returns (coq term, raised)."""
        try:
            return self._capply(op)
        except Exception as e:  # noqa: BLE001
            return None, f"{type(e).__name__}: {e}"[:600]

    def _capply(self, op: tuple):
        kind = op[0]
        buf = io.StringIO()
        with contextlib.redirect_stdout(buf):
            if kind == "reg":
                _, name, ow, ver = op
                term = f"(CRegisterTable {coq_string(name)} {coq_bool(ow)} {coq_nat(ver)})"
                try:
                    self.linker.table_management.register_table(pd.DataFrame({"a": [ver, ver + 1], "b": ["p", "q"]}), name, overwrite=ow)
                    if name not in self.user_names:
                        self.caller_names.add(name)
                except ValueError as e:
                    if "already exists" not in str(e):
                        return term, f"ValueError: {e}"
                return term, None
            if kind == "reg_linker":
                # a Linker over a dataframe registered under an alias: register_multiple_tables(overwrite=False)
                from splink import Linker
                name = op[1]
                term = f"(CRegisterTable {coq_string(name)} false 7)"
                try:
                    Linker(pd.DataFrame(X.data_rows(0)), X.settings_creator(), self.api, input_table_aliases=[name])
                    su.quiet()
                except ValueError as e:
                    if "already exists" not in str(e):
                        return term, f"ValueError: {e}"
                return term, None
            if kind == "regmulti":
                return self._regmulti(op)
            if kind == "regname":
                slot, table = op[1], SLOT_TABLES[op[1]]
                tm = self.linker.table_management
                if slot == "cwtf":
                    tm.register_table_input_nodes_concat_with_tf(table)
                    cslot = "SlotCwtf"
                elif slot == "predict":
                    tm.register_table_predict(table)
                    self.named_predict = True
                    cslot = "SlotPredict"
                else:
                    tm.register_term_frequency_lookup(table, slot.split(":")[1])
                    cslot = f"(SlotTf {coq_string(slot.split(':')[1])})"
                return f"(CRegisterByName {cslot} {coq_string(table)})", None
            if kind == "handle":
                name = op[1]
                tm = self.linker.table_management
                self.frames[name] = tm.register_labels_table(name) if name == LABELS_TABLE else tm.register_table(name, "alias_of_" + name)
                return f"(CHandleByName {coq_string(name)})", None
            if kind == "dropu":
                _, name, force = op
                term = f"(CDropTable {coq_string(name)} {coq_bool(force)})"
                try:
                    frame = self.frames.get(name) or self.api.table_to_splink_dataframe(name, name)
                    frame.drop_table_from_database_and_remove_from_cache(
                        force_non_splink_table=force)
                except ValueError as e:
                    if "not a table created by Splink" not in str(e):
                        return term, f"ValueError: {e}"
                return term, None
            if kind == "rt":
                from splink.internals.realtime import compare_records
                r1 = {"unique_id": 1, "first_name": "ann", "surname": "x", "city": "l"}
                r2 = {"unique_id": 2, "first_name": "ann", "surname": "y", "city": "l"}
                res = compare_records(r1, r2, self.rt_settings, self.api, use_sql_from_cache=bool(op[1]))
                cached = res.physical_name.startswith("__splink__realtime_compare_records_")
                return f"(CRealtime {coq_bool(cached)})", None
            if kind == "inv":
                self.named_predict = False
            if kind == "debug":
                self.linker._debug_mode = bool(op[1])
                return f"(COp (SetDebug {coq_bool(op[1])}))", None
            term, raised = self.apply(op)
            return (f"(COp {term})" if term else None), raised


def regmulti_aliases(op: tuple) -> list[str]:
    _, items, aliases, _, _ = op
    return list(aliases) if aliases is not None else [f"__splink__input_table_{i}" for i in range(len(items))]


def regmulti_term(op: tuple) -> str:
    _, items, _, ow, _ = op
    its = coq_list([f"(RByName {coq_string(x)})" if k == "n" else f"(RFrame {coq_nat(x)})" for k, x in items], "reg_item")
    return f"(CRegisterMultiple {its} {coq_list([coq_string(a) for a in regmulti_aliases(op)], 'string')} {coq_bool(ow)})"


def _regmulti(self, op: tuple):
    """register_multiple_tables over a mixed list of table names and data frames, through Linker(...) or the DatabaseAPI.
    The expected refusal is decided from an independent catalog listing: a FRAME's alias that names an existing object."""
    from splink import Linker
    _, items, aliases, ow, via = op
    eff = regmulti_aliases(op)
    frame_aliases = [a for (k, _), a in zip(items, eff) if k == "f"]
    existing = {n.lower() for n, _ in self.catalog()}
    clash = sorted(a for a in frame_aliases if a.lower() in existing)
    expect_refusal = bool(clash) and not ow
    tables = [x if k == "n" else (pd.DataFrame(X.data_rows(x)) if via == "linker" else pd.DataFrame({"a": [x, x + 1], "b": ["p", "q"]}))
              for k, x in items]
    refused = None
    try:
        if via == "linker":
            assert ow == (aliases is None)
            Linker(tables, X.settings_creator("link_only"), self.api, **({} if aliases is None else {"input_table_aliases": list(aliases)}))
            su.quiet()
        else:
            self.api.register_multiple_tables(tables, list(aliases), overwrite=ow)
    except ValueError as e:
        if "already exists" not in str(e):
            return regmulti_term(op), f"ValueError: {e}"
        refused = str(e)[:200]
    if refused is None:
        self.caller_names |= {a for a in frame_aliases if a not in self.user_names}
    if expect_refusal and refused is None:
        self.pending.append({"why": "registration under an existing name is not refused", "op": op, "existing": clash})
    if refused is not None and not expect_refusal:
        self.pending.append({"why": "registration refused although no frame alias names an existing object", "op": op, "error": refused})
    return regmulti_term(op), None


CWorld._regmulti = _regmulti


def compute_df_concat_with_tf_name(lk) -> str:
    from splink.internals.pipeline import CTEPipeline
    from splink.internals.vertically_concatenate import compute_df_concat_with_tf
    return compute_df_concat_with_tf(lk, CTEPipeline()).physical_name


def coq_cinit(w: CWorld, fixes: dict) -> str:
    others = coq_list([f"({coq_string(n)}, 0)" for n in sorted(w.user_names - {w.table})], "(string * nat)")
    fx = (f"{{| fx77 := {coq_bool(fixes['fx77'])}; fx716 := {coq_bool(fixes['fx716'])}; fx715 := {coq_bool(fixes['fx715'])}; fx718 := {coq_bool(fixes.get('fx718', False))}; fxba := {coq_bool(fixes.get('fxba', False))}; fxco := {coq_bool(fixes.get('fxco', False))} |}}")
    return (f"(cinit K [{coq_string(w.table)}] 0 {others} {coq_list([coq_string(c) for c in w.tfcols], 'string')} "
            f"{coq_nat(w.params)} 5 6 {fx})")


def fresh_path(backend: str, tag: str) -> str:
    os.makedirs(SCRATCH, exist_ok=True)
    p = os.path.join(SCRATCH, f"{tag}.{backend}")
    for q in (p, p + ".wal"):
        if os.path.exists(q):
            os.remove(q)
    return p


# ------------------------------------------------------------------------------------------- histories
ALPHA_BASE = [("predict",), ("detlink",), ("est_u", 1), ("em", 0), ("prior", 0), ("ctf", "first_name"), ("rtf", "first_name", 1),
              ("fm",), ("c2", False), ("cluster", 0), ("rt", False), ("reg", "caller_t1", False, 1), ("reg", "customers", False, 2),
              ("dropu", "customers", False), ("dropu", "r", False), ("acc_col",), ("acc_tab",), ("m_col",), ("m_pair",),
              ("unlink",), ("profile",), ("complete",), ("ba_cum",), ("ba_nl", 0), ("multi",)]


def alphabet(fixes: dict) -> list[tuple]:
    """Operations of the exhaustive (operation, cleanup) stage; two more on trees that carry the respective repairs."""
    return ALPHA_BASE + ([("rtc",)] if fixes["fx715"] else []) + ([("metrics", 0)] if fixes.get("fx717") else [])


def meta_counts_problems() -> list[str]:
    """meta/C18.json states sizes of the X stage in words; they are compared with the code on every run (AUDIT_2 B11)."""
    import re
    from pathlib import Path
    txt = json.loads((Path(__file__).resolve().parent.parent / "meta" / "C18.json").read_text())["level_text"]
    want = {r"pre-populated with (\d+) user tables": len(USER_TABLES), r"(\d+) views": len(USER_VIEWS),
            r"(\d+) user-owned copies": len(SLOT_TABLES) + 1, r"alphabet of (\d+) operations": len(ALPHA_BASE)}
    out = []
    for pat, n in want.items():
        m = re.search(pat, txt)
        if not m or int(m.group(1)) != n:
            out.append(f"meta says {m.group(0) if m else 'nothing matching ' + pat!r}, the code has {n}")
    out += [f"meta does not name user table {t}" for t in USER_TABLES + USER_VIEWS if t not in txt]
    return out


def gen_regmulti(rng) -> tuple:
    """A mixed input list (>= 1 table name, >= 1 data frame, random order) with aliases of one of four kinds:
       default  Linker([...]) without aliases: __splink__input_table_<i>, overwrite=True.  The user table
                __splink__input_table_0 exists, so position 0 is a by-name item (a frame there replaces it on the
                unchanged tree too: Linker's own overwrite=True, outside the theorems' guard, see meta level_note)
       free     overwrite=False, frame aliases unused names
       clash    overwrite=False, one frame alias names a user object (also up to letter case): must be refused
       overwrite  DatabaseAPI.register_multiple_tables(..., overwrite=True), frame aliases never user names
       The alias of a by-name item is only a label: often the table's own name or the name of another user table."""
    via = rng.choice(["linker", "api"])
    mode = rng.choice(["default", "free", "clash"] if via == "linker" else ["free", "clash", "overwrite"])
    n = rng.randint(2, 3)
    kinds = ["n", "f"] + [rng.choice("nf") for _ in range(n - 2)]
    rng.shuffle(kinds)
    if mode == "default" and kinds[0] == "f":
        j = kinds.index("n")
        kinds[0], kinds[j] = "n", "f"
    items = tuple((k, (INPUT_TABLE if via == "linker" else rng.choice(BYNAME_API)) if k == "n" else rng.randint(1, 5)) for k in kinds)
    if mode == "default":
        return ("regmulti", items, None, True, via)
    fresh = rng.sample(FRESH_ALIASES, len(FRESH_ALIASES))
    labels = rng.sample(LABEL_ALIASES, len(LABEL_ALIASES))
    aliases = []
    for k, x in items:
        if k == "f":
            aliases.append(fresh.pop())
        else:
            a = x if (rng.random() < 0.5 and x not in aliases) else next(l for l in labels if l not in aliases)
            aliases.append(a)
    if mode == "clash":
        i = rng.choice([j for j, (k, _) in enumerate(items) if k == "f"])
        aliases[i] = next(c for c in rng.sample(CLASH_ALIASES, len(CLASH_ALIASES)) if c.lower() not in {a.lower() for a in aliases})
    return ("regmulti", items, tuple(aliases), mode == "overwrite", via)


def gen_history(ctx: Ctx, n: int, fixes: dict) -> list[tuple]:
    rng = ctx.rng
    hist = []
    for _ in range(n):
        k = rng.choices(["c07", "reg", "dropu", "rt", "del", "inv", "regname", "handle", "reg_linker", "regmulti"],
                        [10, 4, 3, 3, 2, 1, 3, 1, 1, 3])[0]
        if k == "c07":
            op = C07.gen_history(ctx, 1, fixes)[0]
            while op[0] in ("fm_fail", "c2_fail"):
                # C07's calls built to raise (fm_fail / c2_fail) have no catalog-model counterpart here
                op = C07.gen_history(ctx, 1, fixes)[0]
            if op[0] == "chg":
                op = ("predict",)
            hist.append(op)
        elif k == "reg":
            name = rng.choice(["caller_t1", "caller_t2", "customers", "r", "__splink__df_concat", "customer_view"] + CASE_VARIANTS)
            hist.append(("reg", name, False, rng.randint(1, 5)))
        elif k == "reg_linker":
            hist.append(("reg_linker", rng.choice(CASE_VARIANTS + ["people", "customers"])))
        elif k == "regmulti":
            hist.append(gen_regmulti(rng))
        elif k == "regname":
            hist.append(("regname", rng.choice(list(SLOT_TABLES))))
        elif k == "handle":
            hist.append(("handle", rng.choice([LABELS_TABLE, "customers", "people"] + list(SLOT_TABLES.values()))))
        elif k == "dropu":
            hist.append(("dropu", rng.choice(USER_TABLES + ["caller_t1", LABELS_TABLE] + list(SLOT_TABLES.values())), False))
        elif k == "rt":
            hist.append(("rt", rng.random() < 0.6 and fixes["fx715"]))
        else:
            hist.append((k,))
    return hist


def run_history(ctx: Ctx, backend: str, hist: list[tuple], fixes: dict, tag: str, cleanup_at_end: bool = True):
    import splink.internals.realtime as R
    R._sql_cache = R.SQLCache()
    w = CWorld(backend, fresh_path(backend, tag))
    w.fx715 = fixes["fx715"]
    w.rt_settings = C07.rt_settings(1)
    init = coq_cinit(w, fixes)
    before = w.user_state()
    seen = before
    steps, done, problems = [], [], []
    if cleanup_at_end:
        hist = list(hist) + [("del",)]
    hist = [x for op in hist for x in ([("rt", False), ("rt", True)] if op[0] == "rtc" else [op])]
    for op in hist:
        if op[0] == "rtf" and not fixes["fx77"] and "__splink__df_concat_with_tf" in w.cache and op[1] not in w.registered:
            op = ("inv",)
        if op[0] == "dropu" and op[1] not in dict(w.catalog()):
            continue                      # dropping a table that does not exist is outside the property
        if op[0] == "sbl":
            op = ("cluster", op[1])       # single best links needs source datasets; the catalog world is dedupe_only
        if w.named_predict and op[0] in ("acc_col", "err_col"):
            op = ("predict",)             # with a user table registered as __splink__df_predict these fail loudly (no label column)
        term, raised = w.capply(op)
        done.append(op)
        if raised:
            problems.append({"why": "raised", "op": op, "error": raised})
            break
        steps.append((term, w.normalised()))
        # every oracle is evaluated after every operation; a problem does not hide later ones (only a raise ends the history)
        problems += w.pending
        w.pending = []
        now = w.user_state()
        if now != seen:
            changed = {n: (seen[n], now[n]) for n in seen if seen[n] != now[n]}
            problems.append({"why": "user object changed", "op": op, "changed": changed})
            seen = now
        if op[0] in ("del", "inv"):
            left = w.derived_names()
            if left:
                problems.append({"why": "tables derived by Splink survive the cleanup call", "op": op, "left": left,
                                 "left_normalised": sorted(X.strip_name(n)[0] for n in left)})
    final = w.user_state()
    res = {"backend": backend, "history": done, "init": init, "steps": steps, "problems": problems,
           "changed_objects": sorted(n for n in before if before[n] != final[n]), "user_names": sorted(w.user_names)}
    w.close()
    return res


def coq_term(r: dict) -> str:
    st = coq_list([f"({t}, {coq_list([f'({coq_string(n)}, {coq_bool(h)})' for n, h in cat], '(string * bool)')})"
                   for t, cat in r["steps"]], "(cop * list (string * bool))")
    return f"({r['init']}, {st})"


def diagnose(ctx: Ctx, r: dict) -> str:
    txt = HEADER + f"\nEval vm_compute in (let c := {coq_term(r)} in cfirst_bad 0 (fst c) (snd c)).\n"
    ok, out = ctx.coqc_text("C18_diag", txt)
    return out[-4000:]


def shrink(ctx, backend, hist, fixes, bad):
    cur = list(hist)
    changed, budget = True, 30
    while changed and budget > 0:
        changed = False
        for i in range(len(cur)):
            cand = cur[:i] + cur[i + 1:]
            budget -= 1
            try:
                r = run_history(ctx, backend, cand, fixes, "shrink", cleanup_at_end=False)
            except Exception:  # noqa: BLE001
                continue
            if bad(r):
                cur, changed = cand, True
                break
            if budget <= 0:
                break
    return cur


def features(hist, problem=None) -> dict:
    kinds = {o[0] for o in hist}
    f = {"length": len(hist)}
    if problem:
        f["why"] = problem["why"]
    if "debug" in kinds:
        f["scenario"] = "debug_mode"
    return f


def history_stage(ctx: Ctx, fixes: dict):
    results = []
    n_duck, n_sqlite = (26, 12) if ctx.quick else (120, 60)
    maxlen = 12 if ctx.quick else 25
    k = 0
    for backend, n in (("duckdb", n_duck), ("sqlite", n_sqlite)):
        for _ in range(n):
            k += 1
            hist = gen_history(ctx, ctx.rng.randint(3, maxlen), fixes)
            results.append(run_history(ctx, backend, hist, fixes, f"h{k % 4}"))
    # every single operation and every pair (operation, cleanup) from a small alphabet
    alpha = alphabet(fixes)
    for a in alpha:
        for tail in ([("del",)], [("inv",)]) if not ctx.quick else ([("del",)],):
            results.append(run_history(ctx, "duckdb", [a] + list(tail), fixes, "ex", cleanup_at_end=False))
    # completeness_chart on SQLite (works since /repo 452d5274): always exercised, not only when the seeded stream draws it
    results.append(run_history(ctx, "sqlite", [("predict",), ("complete",), ("profile",)], fixes, "ex"))
    # cache slots that point at user-owned tables, followed by every kind of operation that drops cache entries
    droppers = [("rtf", "first_name", 1), ("rtf", "surname", 2), ("inv",), ("del",), ("predict",), ("cluster", 0), ("profile",)]
    for slot, table in SLOT_TABLES.items():
        for d in droppers if not ctx.quick else ctx.rng.sample(droppers, 4):
            mid = ctx.rng.choice([("predict",), ("ctf", "surname"), ("fm",), ("est_u", 1)])
            results.append(run_history(ctx, ctx.rng.choice(["duckdb", "sqlite"]),
                                       [("regname", slot), mid, d, ("dropu", table, False)], fixes, "slot"))
    # names that differ from a user object only in letter case: register_table and Linker(input_table_aliases=...)
    for v in CASE_VARIANTS:
        for backend in ("duckdb", "sqlite"):
            kind = ctx.rng.choice(["reg", "reg_linker"])
            results.append(run_history(ctx, backend, [("reg", v, False, 3) if kind == "reg" else ("reg_linker", v), ("predict",)],
                                       fixes, "case"))
    # mixed lists of table names and data frames: every order of (name, frame) x every alias mode, both backends, each followed
    # by a prediction and the cleanup call; then seeded ones
    F, N = ("f", 3), ("n", INPUT_TABLE)
    mixed = [
        ("regmulti", (N, F), ("census", "customers"), False, "linker"),              # frame alias = user table: refused
        ("regmulti", (N, F), ("census", "CUSTOMER_VIEW"), False, "api"),             # ... a view, other letter case
        ("regmulti", (N, F), None, True, "linker"),                                  # user table __splink__input_table_0 at the by-name position
        ("regmulti", (N, F), (INPUT_TABLE, "new_records"), False, "linker"),         # by-name item labelled with its own name
        ("regmulti", (("n", "customers"), F), ("customers", "scratch_a"), True, "api"),   # overwrite=True must spare the by-name table
        ("regmulti", (("n", "people"), F, ("n", "customers")), ("r", "scratch_b", "people"), True, "api"),
        ("regmulti", (F, N), ("new_records", "customers"), False, "linker"),         # frame first
        ("regmulti", (F, N), ("People", INPUT_TABLE), False, "api"),                 # frame first, clash up to letter case
        ("regmulti", (N, F, F), ("__splink__input_table_0", "caller_t1", "caller_t2"), False, "linker"),
    ]
    for m in mixed:
        for backend in ("duckdb", "sqlite"):
            results.append(run_history(ctx, backend, [m, ("predict",)], fixes, "mixed"))
    for _ in range(6 if ctx.quick else 40):
        backend = ctx.rng.choice(["duckdb", "sqlite"])
        results.append(run_history(ctx, backend, [gen_regmulti(ctx.rng), ctx.rng.choice([("predict",), ("fm",), ("reg", "caller_t1", False, 2)]),
                                                  gen_regmulti(ctx.rng)], fixes, "mixed"))
    ctx.log(f"catalog histories run: {len(results)}")
    for r in results:
        hist = r["history"]
        nontrivial = len({o[0] for o in hist}) >= 3 and any(o[0] in ("del", "inv") for o in hist)
        ctx.count_case((r["backend"], tuple(hist)), nontrivial, {"backend": r["backend"], "history": hist})
        ctx.hist("history_length", len(hist))
        ctx.hist("backend", r["backend"])
        for o in hist:
            ctx.hist("op", o[0])
            if o[0] == "regmulti":
                ks = "".join(k for k, _ in o[1])
                ctx.hist("regmulti_shape", ("name-before-frame" if ks.find("n") < ks.rfind("f") else "frames-first")
                         + ("/default-aliases" if o[2] is None else "/overwrite" if o[3] else "/aliases"))
    # oracle
    reported: dict[str, int] = {}
    for r in results:
        for pb in r["problems"]:
            reported[pb["why"]] = reported.get(pb["why"], 0) + 1
            if reported[pb["why"]] > 2:
                continue                      # same failure class: counted in evidence, two shrunk replays are enough
            small = shrink(ctx, r["backend"], r["history"], fixes, lambda q: any(x["why"] == pb["why"] for x in q["problems"]))
            rs = run_history(ctx, r["backend"], small, fixes, "shrunk", cleanup_at_end=False) if small != r["history"] else r
            shown = next((x for x in rs["problems"] if x["why"] == pb["why"]), pb)     # the problem as it shows on the shrunk history
            ctx.violation(f"catalog oracle: {pb['why']}",
                          {"case": small, "original_history": r["history"], "backend": r["backend"], "implementation": shown,
                           "all_problems_of_the_original_history": r["problems"],
                           "specification": "user tables and views keep schema and contents; register/drop refuse; cleanup removes "
                                            "every table Splink derived and nothing else"},
                          features(small, pb))
    ctx.cov["oracle_failures_by_class"] = reported
    ctx.obligation("oracle: user objects unchanged after every operation; nothing derived left after cleanup",
                   all(not r["problems"] for r in results))
    ok_results = [r for r in results if not r["problems"]]
    terms = [coq_term(r) for r in ok_results]
    bad, errs = ctx.eval_cases("C18_x", HEADER, terms, "run_ccase", shard=30)
    ctx.obligation("correspondence: catalog (tables and views, normalised names) equals the model's after every operation",
                   not bad and not errs, "; ".join(errs)[:1500])
    for i in bad[:3]:
        r = ok_results[i]
        ctx.violation("the catalog after an operation differs from the model's catalog",
                      {"case": r["history"], "backend": r["backend"], "implementation": r["steps"], "specification": diagnose(ctx, r)},
                      {"model_mismatch": True, **features(r["history"])})
    if errs and not bad:
        ctx.violation("model evaluation failed", {"broken": "C18_x case evaluation", "errors": errs[:3]}, found_input=False)


# ------------------------------------------------------------------------------------------- witnesses
def probe_fx715() -> bool:
    import splink.internals.realtime as R
    from splink.internals.realtime import compare_records
    R._sql_cache = R.SQLCache()
    api = su.duckdb_api()
    s = C07.rt_settings(0)
    r1 = {"unique_id": 1, "first_name": "ann", "surname": "x", "city": "l"}
    r2 = {"unique_id": 2, "first_name": "ann", "surname": "x", "city": "m"}
    compare_records(r1, r2, s, api, use_sql_from_cache=True)
    res = compare_records(r1, r2, s, api, use_sql_from_cache=True)
    return bool(res.created_by_splink) and res.physical_name in api._intermediate_table_cache


def witness_stage(ctx: Ctx, fixes: dict):
    # 7.15 realtime cached path
    r = run_history(ctx, "duckdb", [("rt", False), ("rt", True), ("rt", True), ("del",)], fixes, "w715", cleanup_at_end=False)
    leak = any(p["why"].startswith("tables derived") for p in r["problems"])
    ctx.cov["witness_realtime_cached_leak"] = leak
    ctx.obligation("witness 7.15: probe fx715 agrees with the replay", leak == (not fixes["fx715"]))
    if leak:
        ctx.violation("realtime compare_records on the cached-SQL path creates __splink__realtime_compare_records_<uid> untracked; "
                      "it survives delete_tables_created_by_splink_from_db",
                      {"case": r["history"], "backend": "duckdb", "implementation": r["problems"],
                       "specification": "cleanup removes every table Splink derived"},
                      {"scenario": "realtime_cached_leak"})
    elif r["problems"]:
        ctx.violation("catalog oracle fails on the realtime witness", {"case": r["history"], "implementation": r["problems"]},
                      features(r["history"], r["problems"][0]))
    else:
        bad, errs = ctx.eval_cases("C18_w715", HEADER, [coq_term(r)], "run_ccase")
        ctx.obligation("witness 7.15 (repaired): catalog equals the model's", not bad and not errs, "; ".join(errs)[:500])
    ctx.expect_known("KF-C18-realtime-cached-leak", leak, "the cached path now tracks its table")
    # 7.17 compute_graph_metrics registers __splink__bridges_<hash> untracked
    if not fixes.get("fx717"):
        r = run_history(ctx, "duckdb", [("metrics", 0), ("del",)], fixes, "w717", cleanup_at_end=False)
        leak17 = any(p["why"].startswith("tables derived") for p in r["problems"])
        ctx.cov["witness_graph_metrics_bridges_leak"] = leak17
        if leak17:
            ctx.violation("compute_graph_metrics registers __splink__bridges_<hash> as a non-Splink table; it survives "
                          "delete_tables_created_by_splink_from_db",
                          {"case": r["history"], "backend": "duckdb", "implementation": r["problems"],
                           "specification": "cleanup removes every table Splink derived"},
                          {"scenario": "graph_metrics_bridges_leak"})
        ctx.expect_known("KF-C18-graph-metrics-bridges-leak", leak17, "the bridges table is tracked")
    # 7.11 debug mode.  The two known findings are recognised by WHAT went wrong, not by the scenario: the set of user
    # objects that changed and the set of names that survive the cleanup call are put into the features and compared with
    # the lists the model predicts for this very database (Catalog.v, evaluated in Coq); anything else that goes wrong in
    # the same history (another user object damaged, another kind of table left, a raise) is reported separately.
    LEAK, CHANGED = "tables derived by Splink survive the cleanup call", "user object changed"
    for backend in ("duckdb", "sqlite"):
        hist = [("debug", True), ("predict",), ("del",)]
        r = run_history(ctx, backend, hist, fixes, "w711", cleanup_at_end=False)
        kinds = [p["why"] for p in r["problems"]]
        ctx.cov[f"witness_debug_{backend}"] = kinds
        changed = sorted({n for p in r["problems"] if p["why"] == CHANGED for n in p["changed"]} | set(r["changed_objects"]))
        left = sorted({n for p in r["problems"] if p["why"] == LEAK for n in p["left_normalised"]})
        others = [p for p in r["problems"] if p["why"] not in (LEAK, CHANGED)]
        model_changed, model_left, ok, flat = model_debug_prediction(ctx, r["init"])
        ctx.cov[f"witness_debug_{backend}_lists"] = {"changed": changed, "model_changed": model_changed, "left": left, "model_left": model_left}
        if changed:
            ctx.violation("debug mode: CTE names without the __splink__ prefix (blocked_with_cols, ...) become physical tables; a user "
                          "table of that name is dropped and replaced"
                          + ("" if changed == model_changed else f" - BUT the user objects that changed {changed} are not the ones the model predicts {model_changed}"),
                          {"case": hist, "backend": backend, "implementation": [p for p in r["problems"] if p["why"] == CHANGED],
                           "specification": "user tables keep schema and contents", "model_predicts_changed": model_changed},
                          {"scenario": "debug_mode_clobber", "changed": changed, "agrees_with_model": ok and changed == model_changed})
        if left:
            ctx.violation("debug mode: tables derived by Splink survive delete_tables_created_by_splink_from_db"
                          + ("" if left == model_left else f" - BUT the names left {left} are not the ones the model predicts {model_left}"),
                          {"case": hist, "backend": backend, "implementation": {"left": left},
                           "specification": "cleanup removes every table Splink derived", "model_predicts_left": model_left},
                          {"scenario": "debug_mode_leak", "leaked": left, "agrees_with_model": ok and left == model_left})
        for pb in others:
            ctx.violation(f"debug-mode witness: {pb['why']}", {"case": hist, "backend": backend, "implementation": pb,
                                                               "specification": "only the two known debug-mode defects"},
                          features(hist, pb))
        ctx.expect_known("KF-C18-debug-mode-leak", bool(left), "debug mode no longer leaks")
        ctx.expect_known("KF-C18-debug-mode-clobber", bool(changed), "debug mode no longer clobbers")
        ctx.obligation(f"witness 7.11 ({backend}): the user objects that change and the names that survive cleanup are exactly the "
                       f"model's ({len(model_changed)} changed, {len(model_left)} left)",
                       ok and changed == model_changed and left == model_left, flat[-300:])


def model_debug_prediction(ctx: Ctx, init: str):
    """Model/Catalog.v on [SetDebug true; Predict; DeleteTables] from the witness database: (names of initial entries that
    are gone or no longer of their origin, names of Splink-origin entries that did not exist initially)."""
    import re
    txt = (HEADER + "\nDefinition s0 := " + init + ".\n"
           "Definition s1 := crun K keqb hash s0 [COp (SetDebug true); COp Predict; COp DeleteTables].\n"
           "Eval vm_compute in (map (fun kv => pbase K (fst kv)) (filter (fun kv => match aget K keqb (st_db K s1) (fst kv) with "
           "Some e => negb (origin_eqb (e_origin e) (e_origin (snd kv))) | None => true end) (st_db K s0))).\n"
           "Eval vm_compute in (map (fun kv => pbase K (fst kv)) (filter (fun kv => origin_eqb (e_origin (snd kv)) Splink && "
           "negb (amem K keqb (st_db K s0) (fst kv))) (st_db K s1))).\n")
    ok, out = ctx.coqc_text("C18_w711", txt)
    flat = " ".join(out.split())
    parts = re.findall(r"=\s*(\[.*?\])\s*:\s*list string", flat)
    if not ok or len(parts) != 2:
        return [], [], False, flat
    lists = [sorted(re.findall(r'"([^"]*)"', p)) for p in parts]
    return lists[0], lists[1], True, flat


def translator_stage(ctx: Ctx):
    """T: the statement structure of register_multiple_tables / Linker._register_input_tables is the one the model follows."""
    from translators import c18_register as T18
    for name, fn, want in (("DatabaseAPI.register_multiple_tables: both loops zip the FULL item list with the FULL alias list and "
                            "decide by-name / frame per pair (Catalog.register_multiple: combine items aliases)", T18.shape, T18.MODEL_SHAPE),
                           ("Linker._register_input_tables: default aliases __splink__input_table_<i> with overwrite=True, given "
                            "aliases with overwrite=False (harness regmulti_aliases / CRegisterMultiple)", T18.linker_defaults, T18.LINKER_MODEL)):
        try:
            got, err = fn(), ""
        except T18.Untranslatable as e:
            got, err = None, str(e)
        ok = got == want
        ctx.obligation("T: " + name, ok, err or ("" if ok else f"translated {got}, model {want}"))
        ctx.cov.setdefault("translated_shapes", {})[fn.__name__] = got if got is not None else err
        if not ok:
            ctx.violation("translator: the source no longer has the shape the model of register_multiple_tables follows",
                          {"broken": "T: " + name, "detail": err or got}, found_input=False)


def run(ctx: Ctx):
    ctx.cov["rule"] = (
        "histories: seeded sequences (3..12 quick, ..25 thorough) over the C07 operations plus register_table (new name / existing "
        "user table / user view / Splink look-alike name / names differing from a user object only in letter case, overwrite=False; also through Linker(dataframe, input_table_aliases=[name])), the register_* entry points called with the NAME of a user-owned table (concat_with_tf, predict, tf lookup, labels, register_table) followed by every operation that drops cache entries, drop through Splink of user tables (force=False), realtime "
        "compare_records (cached / uncached), delete_tables_created_by_splink_from_db and invalidate_cache at random points, each "
        "history closed by a cleanup call (second wave: plus evaluation, m-training, unlinkables, profile/completeness, blocking analysis, multi-threshold clustering and graph metrics); persistent DuckDB and SQLite database files pre-populated with "
        f"{len(USER_TABLES)} user tables ({', '.join(USER_TABLES)}), {len(USER_VIEWS)} views ({', '.join(USER_VIEWS)}) and "
        f"{len(SLOT_TABLES) + 1} user-owned copies of Splink-shaped tables ({', '.join(list(SLOT_TABLES.values()) + [LABELS_TABLE])}); plus every "
        f"(operation, cleanup) pair over an alphabet of {len(ALPHA_BASE)} operations (+ rtc / metrics on repaired trees). "
        "register_multiple_tables / Linker([...]) over MIXED lists of table names and data frames (every order; default aliases "
        "__splink__input_table_<i> with overwrite=True, free aliases, a frame alias that names a user object - also up to letter "
        "case -, DatabaseAPI overwrite=True; by-name items labelled with their own name / another user table's name), refusal "
        "expected iff a FRAME's alias is in an independent catalog listing. "
        "Non-trivial: >= 3 kinds of operation and a cleanup call.")
    mc = meta_counts_problems()
    ctx.obligation("meta/C18.json: the stated sizes of the X stage equal the code's", not mc, "; ".join(mc))
    ctx.trusted += [
        "Model/Cache.v assumptions (hash injectivity, provenance model)",
        "harness X: names are normalised by stripping the 9-hex hash / 8-char uid; user objects are identified by exact name",
        "modelled: table contents as provenance terms; schema and rows of user objects are checked by the oracle only",
        "views are not distinguished from tables in the model (the catalog listing and the oracle cover both)",
        "translator c18_register (shape of register_multiple_tables); Linker.__init__'s validation after registration is not modelled",
    ]
    ok = ctx.proof_stage("Properties/C18.v")
    if not ok:
        ctx.violation("theorems of Properties/C18.v no longer check", {"broken": "Properties/C18.v"}, found_input=False)
    translator_stage(ctx)
    fixes = C07.probe_fixes(ctx)
    fixes["fx715"] = probe_fx715()
    ctx.cov["tree_variant"] = fixes
    ctx.log(f"tree variant: {fixes}")
    ctx.cov["translated_sources"] = {p: git_blob(REPO / p) for p in [
        "splink/internals/database_api.py", "splink/internals/splink_dataframe.py", "splink/internals/duckdb/dataframe.py",
        "splink/internals/sqlite/dataframe.py", "splink/internals/duckdb/database_api.py", "splink/internals/sqlite/database_api.py",
        "splink/internals/linker_components/table_management.py", "splink/internals/realtime.py", "splink/internals/linker.py"]}
    try:
        if ctx.replay:
            rp = json.loads(open(ctx.replay).read())
            hist = [tuple(o) for o in rp.get("case", [])]
            r = run_history(ctx, rp.get("backend", "duckdb"), hist, fixes, "replay", cleanup_at_end=False)
            bad, errs = ctx.eval_cases("C18_replay", HEADER, [coq_term(r)], "run_ccase") if not r["problems"] else ([], [])
            ctx.log(f"replay: problems={r['problems']} model_mismatch={bool(bad)}")
            if r["problems"] or bad:
                ctx.violation("replayed history still fails", {"case": hist, "implementation": r["problems"] or r["steps"],
                                                                "specification": diagnose(ctx, r) if bad else "oracle"},
                              features(hist, r["problems"][0] if r["problems"] else None))
            return
        history_stage(ctx, fixes)
        witness_stage(ctx, fixes)
    finally:
        shutil.rmtree(SCRATCH, ignore_errors=True)
