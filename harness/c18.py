"""C18  Splink never damages data it did not create and can clean up after itself.

 P  Properties/C18.v over Model/Catalog.v (extends Model/Cache.v): user / caller tables keep name,
    origin and content through every safe history, register_table and drop refuse, cleanup is exact;
    refutations for debug mode (leak, clobber) and the realtime cached-SQL path.
 T  probes: which variant of the realtime cached path the tree implements (fx715), plus the C07 probes.
 X  histories of public operations + register_table / drop / realtime / cleanup calls on real Linkers
    over PERSISTENT DuckDB files and SQLite files pre-populated with user tables and views (including
    names that look like Splink's); after every operation the catalog (tables AND views) is listed:
    oracle = schema and checksum of every user object unchanged, nothing Splink-derived left after
    cleanup; correspondence = the normalised catalog equals the model's catalog evaluated in Coq.
"""
from __future__ import annotations

import contextlib
import hashlib
import io
import json
import os
import shutil

import pandas as pd

from harness import c07 as C07
from harness import c07_x as X
from harness import splink_util as su
from harness.common import Ctx, REPO, coq_bool, coq_list, coq_nat, coq_string, git_blob

SCRATCH = "/var/tmp/cache/c18db"
USER_TABLES = ["customers", "__splink__df_concat", "__splink__df_predict", "r", "blocked_with_cols",
               "__splink__df_concat_with_tf_0a1b2c3d4", "people"]
USER_VIEWS = ["customer_view", "representatives", "Staff"]
# user-owned tables with the schema of Splink tables: targets of the register_* entry points that take a table NAME
SLOT_TABLES = {"cwtf": "user_nodes_with_tf", "predict": "user_predictions", "tf:first_name": "user_tf_first_name"}
LABELS_TABLE = "user_labels"
# names that differ from an existing user object only in letter case (the engines resolve names case-insensitively)
CASE_VARIANTS = ["People", "PEOPLE", "staff", "STAFF", "Customers", "CUSTOMER_VIEW", "R"]
CALLER_RE = X.UID_NAMES

HEADER = X.HEADER + """
From Splinkv Require Import Model.Catalog.
Notation cop := (Catalog.cop K).
Notation COp := (Catalog.COp K).
Notation CRegisterTable := (Catalog.CRegisterTable K).
Notation CRegisterByName := (Catalog.CRegisterByName K).
Notation CHandleByName := (Catalog.CHandleByName K).
Notation CDropTable := (Catalog.CDropTable K).
Notation CRealtime := (Catalog.CRealtime K).
Definition cat_eqb (a b : string * bool) := String.eqb (fst a) (fst b) && Bool.eqb (snd a) (snd b).
Definition model_catalog (s : state K) : list (string * bool) :=
  map (fun x => match x with (n, h, _) => (n, h) end) (db_listing K s).
Fixpoint csteps_ok (s : state K) (l : list (cop * list (string * bool))) : bool :=
  match l with
  | [] => true
  | (c, cat) :: r => let s' := fst (cstep K keqb hash s c) in bag_eqb cat_eqb (model_catalog s') cat && csteps_ok s' r
  end.
Fixpoint cfirst_bad (n : nat) (s : state K) (l : list (cop * list (string * bool))) : option (nat * list (string * bool)) :=
  match l with
  | [] => None
  | (c, cat) :: r => let s' := fst (cstep K keqb hash s c) in
                     if bag_eqb cat_eqb (model_catalog s') cat then cfirst_bad (S n) s' r else Some (n, model_catalog s')
  end.
Definition run_ccase (c : state K * list (cop * list (string * bool))) : bool := csteps_ok (fst c) (snd c).
"""


# ------------------------------------------------------------------------------------------- world
class CWorld(X.World):
    """Linker over a persistent database file that already holds user tables and views."""

    def __init__(self, backend: str, path: str):
        import duckdb
        import sqlite3
        if backend == "duckdb":
            con = duckdb.connect(path)
        else:
            con = sqlite3.connect(path)
        for i, t in enumerate(USER_TABLES):
            con.execute(f"create table {t} as select {i} as a, 'u{i}' as b union all select {i + 1}, 'v{i}'")
        con.execute(f"create view {USER_VIEWS[0]} as select * from customers")
        con.execute(f"create view {USER_VIEWS[1]} as select a + 1 as a1 from r")
        con.execute(f"create view {USER_VIEWS[2]} as select a, b from people")
        if backend == "sqlite":
            con.commit()
        self.user_names = set(USER_TABLES + USER_VIEWS)
        self._precon = con
        if backend == "duckdb":
            api = su.duckdb_api(con)
        else:
            from splink.internals.sqlite.database_api import SQLiteAPI
            api = SQLiteAPI(con)
        super().__init__(backend, 0, api=api)
        self.user_names.add(self.table)
        self.caller_names: set[str] = set()
        self.fx715 = False
        self.frames: dict = {}
        self.named_predict = False
        # user-owned copies of a concat_with_tf table, a predictions table, a term-frequency table and a labels table
        lk = self.linker
        copies = {SLOT_TABLES["cwtf"]: compute_df_concat_with_tf_name(lk), SLOT_TABLES["predict"]: lk.inference.predict().physical_name,
                  SLOT_TABLES["tf:first_name"]: lk.table_management.compute_tf_table("first_name").physical_name}
        for user, phys in copies.items():
            self.con.execute(f"create table {user} as select * from {phys}")
        lab = pd.DataFrame(X.label_rows(self.table))
        if backend == "duckdb":
            self.con.register("__c18_lab", lab)
            self.con.execute(f"create table {LABELS_TABLE} as select * from __c18_lab")
            self.con.unregister("__c18_lab")
        else:
            lab.to_sql(LABELS_TABLE, self.con, index=False)
        lk.table_management.invalidate_cache()        # back to a clean linker: no Splink table, empty cache
        self.reset_trackers()
        self.user_names |= set(copies) | {LABELS_TABLE}

    # catalog: every table and view with its kind
    def catalog(self) -> list[tuple[str, str]]:
        if self.backend == "duckdb":
            rows = self.con.execute("select table_name, table_type from information_schema.tables").fetchall()
            return sorted((n, "view" if "VIEW" in t else "table") for n, t in rows)
        rows = self.con.execute("select name, type from sqlite_master where type in ('table','view')").fetchall()
        rows = [tuple(r.values()) if isinstance(r, dict) else r for r in rows]
        return sorted((n, t) for n, t in rows)

    def checksum(self, name: str) -> str:
        try:
            return self._checksum(name)
        except Exception as e:  # noqa: BLE001  (e.g. a view whose base table was dropped)
            return f"unreadable: {type(e).__name__}"

    def _checksum(self, name: str) -> str:
        cur = self.con.execute(f'select * from "{name}"')
        cols = [d[0] for d in cur.description]
        rows = cur.fetchall()
        rows = [tuple(r.values()) if isinstance(r, dict) else tuple(r) for r in rows]
        return hashlib.sha1(repr((cols, sorted(map(repr, rows)))).encode()).hexdigest()[:16]

    def user_state(self) -> dict:
        cat = dict(self.catalog())
        return {n: (cat.get(n), self.checksum(n) if n in cat else None) for n in sorted(self.user_names)}

    def normalised(self) -> list[tuple[str, bool]]:
        out = []
        for n, _ in self.catalog():
            if n in self.user_names or n in self.caller_names:
                out.append((n, False))
            elif n.startswith("__splink__realtime_compare_records_") and self.fx715:
                # tracked result table of the realtime cached-SQL path: the model names it by a hash key
                out.append(("__splink__realtime_compare_records", True))
            else:
                out.append(X.strip_name(n))
        return sorted(out)

    def derived_names(self) -> list[str]:
        """Names that are neither user objects nor caller registrations."""
        out = []
        for n, _ in self.catalog():
            if n in self.user_names or n in self.caller_names:
                continue
            if n.startswith("__splink__realtime_compare_records_") or not CALLER_RE.match(n):
                out.append(n)
        return out

    def capply(self, op: tuple):
        """Runs one catalog operation; returns (coq term, raised)."""
        try:
            return self._capply(op)
        except Exception as e:  # noqa: BLE001
            return None, f"{type(e).__name__}: {e}"[:600]

    def _capply(self, op: tuple):
        kind = op[0]
        buf = io.StringIO()
        with contextlib.redirect_stdout(buf):
            if kind == "reg":
                _, name, ow, ver = op
                term = f"(CRegisterTable {coq_string(name)} {coq_bool(ow)} {coq_nat(ver)})"
                try:
                    self.linker.table_management.register_table(pd.DataFrame({"a": [ver, ver + 1], "b": ["p", "q"]}), name, overwrite=ow)
                    if name not in self.user_names:
                        self.caller_names.add(name)
                except ValueError as e:
                    if "already exists" not in str(e):
                        return term, f"ValueError: {e}"
                return term, None
            if kind == "reg_linker":
                # a Linker over a dataframe registered under an alias: register_multiple_tables(overwrite=False)
                from splink import Linker
                name = op[1]
                term = f"(CRegisterTable {coq_string(name)} false 7)"
                try:
                    Linker(pd.DataFrame(X.data_rows(0)), X.settings_creator(), self.api, input_table_aliases=[name])
                    su.quiet()
                except ValueError as e:
                    if "already exists" not in str(e):
                        return term, f"ValueError: {e}"
                return term, None
            if kind == "regname":
                slot, table = op[1], SLOT_TABLES[op[1]]
                tm = self.linker.table_management
                if slot == "cwtf":
                    tm.register_table_input_nodes_concat_with_tf(table)
                    cslot = "SlotCwtf"
                elif slot == "predict":
                    tm.register_table_predict(table)
                    self.named_predict = True
                    cslot = "SlotPredict"
                else:
                    tm.register_term_frequency_lookup(table, slot.split(":")[1])
                    cslot = f"(SlotTf {coq_string(slot.split(':')[1])})"
                return f"(CRegisterByName {cslot} {coq_string(table)})", None
            if kind == "handle":
                name = op[1]
                tm = self.linker.table_management
                self.frames[name] = tm.register_labels_table(name) if name == LABELS_TABLE else tm.register_table(name, "alias_of_" + name)
                return f"(CHandleByName {coq_string(name)})", None
            if kind == "dropu":
                _, name, force = op
                term = f"(CDropTable {coq_string(name)} {coq_bool(force)})"
                try:
                    frame = self.frames.get(name) or self.api.table_to_splink_dataframe(name, name)
                    frame.drop_table_from_database_and_remove_from_cache(
                        force_non_splink_table=force)
                except ValueError as e:
                    if "not a table created by Splink" not in str(e):
                        return term, f"ValueError: {e}"
                return term, None
            if kind == "rt":
                from splink.internals.realtime import compare_records
                r1 = {"unique_id": 1, "first_name": "ann", "surname": "x", "city": "l"}
                r2 = {"unique_id": 2, "first_name": "ann", "surname": "y", "city": "l"}
                res = compare_records(r1, r2, self.rt_settings, self.api, use_sql_from_cache=bool(op[1]))
                cached = res.physical_name.startswith("__splink__realtime_compare_records_")
                return f"(CRealtime {coq_bool(cached)})", None
            if kind == "inv":
                self.named_predict = False
            if kind == "debug":
                self.linker._debug_mode = bool(op[1])
                return f"(COp (SetDebug {coq_bool(op[1])}))", None
            term, raised = self.apply(op)
            return (f"(COp {term})" if term else None), raised


def compute_df_concat_with_tf_name(lk) -> str:
    from splink.internals.pipeline import CTEPipeline
    from splink.internals.vertically_concatenate import compute_df_concat_with_tf
    return compute_df_concat_with_tf(lk, CTEPipeline()).physical_name


def coq_cinit(w: CWorld, fixes: dict) -> str:
    others = coq_list([f"({coq_string(n)}, 0)" for n in sorted(w.user_names - {w.table})], "(string * nat)")
    fx = (f"{{| fx77 := {coq_bool(fixes['fx77'])}; fx716 := {coq_bool(fixes['fx716'])}; fx715 := {coq_bool(fixes['fx715'])}; fx718 := {coq_bool(fixes.get('fx718', False))}; fxba := {coq_bool(fixes.get('fxba', False))}; fxco := {coq_bool(fixes.get('fxco', False))} |}}")
    return (f"(cinit K [{coq_string(w.table)}] 0 {others} {coq_list([coq_string(c) for c in w.tfcols], 'string')} "
            f"{coq_nat(w.params)} 5 6 {fx})")


def fresh_path(backend: str, tag: str) -> str:
    os.makedirs(SCRATCH, exist_ok=True)
    p = os.path.join(SCRATCH, f"{tag}.{backend}")
    for q in (p, p + ".wal"):
        if os.path.exists(q):
            os.remove(q)
    return p


# ------------------------------------------------------------------------------------------- histories
def gen_history(ctx: Ctx, n: int, fixes: dict) -> list[tuple]:
    rng = ctx.rng
    hist = []
    for _ in range(n):
        k = rng.choices(["c07", "reg", "dropu", "rt", "del", "inv", "regname", "handle", "reg_linker"],
                        [10, 4, 3, 3, 2, 1, 3, 1, 1])[0]
        if k == "c07":
            op = C07.gen_history(ctx, 1, fixes)[0]
            if op[0] == "chg":
                op = ("predict",)
            hist.append(op)
        elif k == "reg":
            name = rng.choice(["caller_t1", "caller_t2", "customers", "r", "__splink__df_concat", "customer_view"] + CASE_VARIANTS)
            hist.append(("reg", name, False, rng.randint(1, 5)))
        elif k == "reg_linker":
            hist.append(("reg_linker", rng.choice(CASE_VARIANTS + ["people", "customers"])))
        elif k == "regname":
            hist.append(("regname", rng.choice(list(SLOT_TABLES))))
        elif k == "handle":
            hist.append(("handle", rng.choice([LABELS_TABLE, "customers", "people"] + list(SLOT_TABLES.values()))))
        elif k == "dropu":
            hist.append(("dropu", rng.choice(USER_TABLES + ["caller_t1", LABELS_TABLE] + list(SLOT_TABLES.values())), False))
        elif k == "rt":
            hist.append(("rt", rng.random() < 0.6 and fixes["fx715"]))
        else:
            hist.append((k,))
    return hist


def run_history(ctx: Ctx, backend: str, hist: list[tuple], fixes: dict, tag: str, cleanup_at_end: bool = True):
    import splink.internals.realtime as R
    R._sql_cache = R.SQLCache()
    w = CWorld(backend, fresh_path(backend, tag))
    w.fx715 = fixes["fx715"]
    w.rt_settings = C07.rt_settings(1)
    init = coq_cinit(w, fixes)
    before = w.user_state()
    steps, done, problems = [], [], []
    if cleanup_at_end:
        hist = list(hist) + [("del",)]
    hist = [x for op in hist for x in ([("rt", False), ("rt", True)] if op[0] == "rtc" else [op])]
    for op in hist:
        if op[0] == "rtf" and not fixes["fx77"] and "__splink__df_concat_with_tf" in w.cache and op[1] not in w.registered:
            op = ("inv",)
        if op[0] == "dropu" and op[1] not in dict(w.catalog()):
            continue                      # dropping a table that does not exist is outside the property
        if op[0] == "complete" and backend == "sqlite":
            continue                      # completeness_chart emits SQL SQLite cannot parse (loud, outside C18)
        if op[0] == "sbl":
            op = ("cluster", op[1])       # single best links needs source datasets; the catalog world is dedupe_only
        if w.named_predict and op[0] in ("acc_col", "err_col"):
            op = ("predict",)             # with a user table registered as __splink__df_predict these fail loudly (no label column)
        term, raised = w.capply(op)
        done.append(op)
        if raised:
            problems.append({"why": "raised", "op": op, "error": raised})
            break
        steps.append((term, w.normalised()))
        now = w.user_state()
        if now != before:
            changed = {n: (before[n], now[n]) for n in before if before[n] != now[n]}
            problems.append({"why": "user object changed", "op": op, "changed": changed})
            break
        if op[0] in ("del", "inv") and not w.linker._debug_mode:
            left = w.derived_names()
            if left:
                problems.append({"why": "tables derived by Splink survive the cleanup call", "op": op, "left": left})
                break
    res = {"backend": backend, "history": done, "init": init, "steps": steps, "problems": problems}
    w.close()
    return res


def coq_term(r: dict) -> str:
    st = coq_list([f"({t}, {coq_list([f'({coq_string(n)}, {coq_bool(h)})' for n, h in cat], '(string * bool)')})"
                   for t, cat in r["steps"]], "(cop * list (string * bool))")
    return f"({r['init']}, {st})"


def diagnose(ctx: Ctx, r: dict) -> str:
    txt = HEADER + f"\nEval vm_compute in (let c := {coq_term(r)} in cfirst_bad 0 (fst c) (snd c)).\n"
    ok, out = ctx.coqc_text("C18_diag", txt)
    return out[-4000:]


def shrink(ctx, backend, hist, fixes, bad):
    cur = list(hist)
    changed, budget = True, 30
    while changed and budget > 0:
        changed = False
        for i in range(len(cur)):
            cand = cur[:i] + cur[i + 1:]
            budget -= 1
            try:
                r = run_history(ctx, backend, cand, fixes, "shrink", cleanup_at_end=False)
            except Exception:  # noqa: BLE001
                continue
            if bad(r):
                cur, changed = cand, True
                break
            if budget <= 0:
                break
    return cur


def features(hist, problem=None) -> dict:
    kinds = {o[0] for o in hist}
    f = {"length": len(hist)}
    if problem:
        f["why"] = problem["why"]
    if "debug" in kinds:
        f["scenario"] = "debug_mode"
    return f


def history_stage(ctx: Ctx, fixes: dict):
    results = []
    n_duck, n_sqlite = (26, 12) if ctx.quick else (120, 60)
    maxlen = 12 if ctx.quick else 25
    k = 0
    for backend, n in (("duckdb", n_duck), ("sqlite", n_sqlite)):
        for _ in range(n):
            k += 1
            hist = gen_history(ctx, ctx.rng.randint(3, maxlen), fixes)
            results.append(run_history(ctx, backend, hist, fixes, f"h{k % 4}"))
    # every single operation and every pair (operation, cleanup) from a small alphabet
    alpha = [("predict",), ("detlink",), ("est_u", 1), ("em", 0), ("prior", 0), ("ctf", "first_name"), ("rtf", "first_name", 1),
             ("fm",), ("c2", False), ("cluster", 0), ("rt", False), ("reg", "caller_t1", False, 1), ("reg", "customers", False, 2),
             ("dropu", "customers", False), ("dropu", "r", False), ("acc_col",), ("acc_tab",), ("m_col",), ("m_pair",),
             ("unlink",), ("profile",), ("complete",), ("ba_cum",), ("ba_nl", 0), ("multi",)]
    if fixes["fx715"]:
        alpha.append(("rtc",))
    if fixes.get("fx717"):
        alpha.append(("metrics", 0))
    for a in alpha:
        for tail in ([("del",)], [("inv",)]) if not ctx.quick else ([("del",)],):
            results.append(run_history(ctx, "duckdb", [a] + list(tail), fixes, "ex", cleanup_at_end=False))
    # cache slots that point at user-owned tables, followed by every kind of operation that drops cache entries
    droppers = [("rtf", "first_name", 1), ("rtf", "surname", 2), ("inv",), ("del",), ("predict",), ("cluster", 0), ("profile",)]
    for slot, table in SLOT_TABLES.items():
        for d in droppers if not ctx.quick else ctx.rng.sample(droppers, 4):
            mid = ctx.rng.choice([("predict",), ("ctf", "surname"), ("fm",), ("est_u", 1)])
            results.append(run_history(ctx, ctx.rng.choice(["duckdb", "sqlite"]),
                                       [("regname", slot), mid, d, ("dropu", table, False)], fixes, "slot"))
    # names that differ from a user object only in letter case: register_table and Linker(input_table_aliases=...)
    for v in CASE_VARIANTS:
        for backend in ("duckdb", "sqlite"):
            kind = ctx.rng.choice(["reg", "reg_linker"])
            results.append(run_history(ctx, backend, [("reg", v, False, 3) if kind == "reg" else ("reg_linker", v), ("predict",)],
                                       fixes, "case"))
    ctx.log(f"catalog histories run: {len(results)}")
    for r in results:
        hist = r["history"]
        nontrivial = len({o[0] for o in hist}) >= 3 and any(o[0] in ("del", "inv") for o in hist)
        ctx.count_case((r["backend"], tuple(hist)), nontrivial, {"backend": r["backend"], "history": hist})
        ctx.hist("history_length", len(hist))
        ctx.hist("backend", r["backend"])
        for o in hist:
            ctx.hist("op", o[0])
    # oracle
    reported: dict[str, int] = {}
    for r in results:
        for pb in r["problems"]:
            reported[pb["why"]] = reported.get(pb["why"], 0) + 1
            if reported[pb["why"]] > 2:
                continue                      # same failure class: counted in evidence, two shrunk replays are enough
            small = shrink(ctx, r["backend"], r["history"], fixes, lambda q: any(x["why"] == pb["why"] for x in q["problems"]))
            ctx.violation(f"catalog oracle: {pb['why']}",
                          {"case": small, "original_history": r["history"], "backend": r["backend"], "implementation": pb,
                           "specification": "user tables and views keep schema and contents; register/drop refuse; cleanup removes "
                                            "every table Splink derived and nothing else"},
                          features(small, pb))
    ctx.cov["oracle_failures_by_class"] = reported
    ctx.obligation("oracle: user objects unchanged after every operation; nothing derived left after cleanup",
                   all(not r["problems"] for r in results))
    ok_results = [r for r in results if not r["problems"]]
    terms = [coq_term(r) for r in ok_results]
    bad, errs = ctx.eval_cases("C18_x", HEADER, terms, "run_ccase", shard=30)
    ctx.obligation("correspondence: catalog (tables and views, normalised names) equals the model's after every operation",
                   not bad and not errs, "; ".join(errs)[:1500])
    for i in bad[:3]:
        r = ok_results[i]
        ctx.violation("the catalog after an operation differs from the model's catalog",
                      {"case": r["history"], "backend": r["backend"], "implementation": r["steps"], "specification": diagnose(ctx, r)},
                      {"model_mismatch": True, **features(r["history"])})
    if errs and not bad:
        ctx.violation("model evaluation failed", {"broken": "C18_x case evaluation", "errors": errs[:3]}, found_input=False)


# ------------------------------------------------------------------------------------------- witnesses
def probe_fx715() -> bool:
    import splink.internals.realtime as R
    from splink.internals.realtime import compare_records
    R._sql_cache = R.SQLCache()
    api = su.duckdb_api()
    s = C07.rt_settings(0)
    r1 = {"unique_id": 1, "first_name": "ann", "surname": "x", "city": "l"}
    r2 = {"unique_id": 2, "first_name": "ann", "surname": "x", "city": "m"}
    compare_records(r1, r2, s, api, use_sql_from_cache=True)
    res = compare_records(r1, r2, s, api, use_sql_from_cache=True)
    return bool(res.created_by_splink) and res.physical_name in api._intermediate_table_cache


def witness_stage(ctx: Ctx, fixes: dict):
    # 7.15 realtime cached path
    r = run_history(ctx, "duckdb", [("rt", False), ("rt", True), ("rt", True), ("del",)], fixes, "w715", cleanup_at_end=False)
    leak = any(p["why"].startswith("tables derived") for p in r["problems"])
    ctx.cov["witness_realtime_cached_leak"] = leak
    ctx.obligation("witness 7.15: probe fx715 agrees with the replay", leak == (not fixes["fx715"]))
    if leak:
        ctx.violation("realtime compare_records on the cached-SQL path creates __splink__realtime_compare_records_<uid> untracked; "
                      "it survives delete_tables_created_by_splink_from_db",
                      {"case": r["history"], "backend": "duckdb", "implementation": r["problems"],
                       "specification": "cleanup removes every table Splink derived"},
                      {"scenario": "realtime_cached_leak"})
    elif r["problems"]:
        ctx.violation("catalog oracle fails on the realtime witness", {"case": r["history"], "implementation": r["problems"]},
                      features(r["history"], r["problems"][0]))
    else:
        bad, errs = ctx.eval_cases("C18_w715", HEADER, [coq_term(r)], "run_ccase")
        ctx.obligation("witness 7.15 (repaired): catalog equals the model's", not bad and not errs, "; ".join(errs)[:500])
    ctx.expect_known("KF-C18-realtime-cached-leak", leak, "the cached path now tracks its table")
    # 7.17 compute_graph_metrics registers __splink__bridges_<hash> untracked
    if not fixes.get("fx717"):
        r = run_history(ctx, "duckdb", [("metrics", 0), ("del",)], fixes, "w717", cleanup_at_end=False)
        leak17 = any(p["why"].startswith("tables derived") for p in r["problems"])
        ctx.cov["witness_graph_metrics_bridges_leak"] = leak17
        if leak17:
            ctx.violation("compute_graph_metrics registers __splink__bridges_<hash> as a non-Splink table; it survives "
                          "delete_tables_created_by_splink_from_db",
                          {"case": r["history"], "backend": "duckdb", "implementation": r["problems"],
                           "specification": "cleanup removes every table Splink derived"},
                          {"scenario": "graph_metrics_bridges_leak"})
        ctx.expect_known("KF-C18-graph-metrics-bridges-leak", leak17, "the bridges table is tracked")
    # 7.11 debug mode
    for backend in ("duckdb", "sqlite"):
        r = run_history(ctx, backend, [("debug", True), ("predict",), ("del",)], fixes, "w711", cleanup_at_end=False)
        kinds = [p["why"] for p in r["problems"]]
        ctx.cov[f"witness_debug_{backend}"] = kinds
        clobber = any(k == "user object changed" for k in kinds)
        if clobber:
            ctx.violation("debug mode: CTE names without the __splink__ prefix (blocked_with_cols, ...) become physical tables; a user "
                          "table of that name is dropped and replaced",
                          {"case": r["history"], "backend": backend, "implementation": r["problems"],
                           "specification": "user tables keep schema and contents"},
                          {"scenario": "debug_mode_clobber"})
        # leak: run again without the colliding user table check stopping the history
        w = CWorld(backend, fresh_path(backend, "w711b"))
        w.linker._debug_mode = True
        with contextlib.redirect_stdout(io.StringIO()):
            w.linker.inference.predict()
            w.linker.table_management.delete_tables_created_by_splink_from_db()
        left = [n for n in w.derived_names()]
        w.close()
        if left:
            ctx.violation("debug mode: tables derived by Splink survive delete_tables_created_by_splink_from_db",
                          {"case": [("debug", True), ("predict",), ("del",)], "backend": backend, "implementation": {"left": left},
                           "specification": "cleanup removes every table Splink derived"},
                          {"scenario": "debug_mode_leak"})
        ctx.expect_known("KF-C18-debug-mode-leak", bool(left), "debug mode no longer leaks")
        ctx.expect_known("KF-C18-debug-mode-clobber", clobber, "debug mode no longer clobbers")
        # model: same verdicts
        term = (HEADER + "\nEval vm_compute in (let s0 := " + coq_cinit_static(fixes) + " in "
                "let s := crun K keqb hash s0 [COp (SetDebug true); COp Predict; COp DeleteTables] in "
                '(List.length (splink_tables K s), match aget K keqb (st_db K s) (PL K (LPlain "blocked_with_cols")) with '
                "Some e => origin_eqb (e_origin e) Splink | None => false end)).\n")
        ok, out = ctx.coqc_text("C18_w711", term)
        flat = " ".join(out.split())
        import re
        m = re.search(r"=\s*\((\d+), (true|false)\)", flat)
        model_left = int(m.group(1)) if m else -1
        model_clobber = (m.group(2) == "true") if m else None
        ctx.obligation(f"witness 7.11 ({backend}): model predicts the leak ({model_left} tables) and the clobbered user table",
                       ok and (model_left > 0) == bool(left) and model_clobber == clobber, flat[-300:])


def coq_cinit_static(fixes: dict) -> str:
    others = coq_list([f"({coq_string(n)}, 0)" for n in sorted(USER_TABLES + USER_VIEWS)], "(string * nat)")
    fx = (f"{{| fx77 := {coq_bool(fixes['fx77'])}; fx716 := {coq_bool(fixes['fx716'])}; fx715 := {coq_bool(fixes['fx715'])}; fx718 := {coq_bool(fixes.get('fx718', False))}; fxba := {coq_bool(fixes.get('fxba', False))}; fxco := {coq_bool(fixes.get('fxco', False))} |}}")
    return f'(cinit K ["inp"] 0 {others} ["first_name"; "surname"] 0 5 6 {fx})'


def run(ctx: Ctx):
    ctx.cov["rule"] = (
        "histories: seeded sequences (3..12 quick, ..25 thorough) over the C07 operations plus register_table (new name / existing "
        "user table / user view / Splink look-alike name / names differing from a user object only in letter case, overwrite=False; also through Linker(dataframe, input_table_aliases=[name])), the register_* entry points called with the NAME of a user-owned table (concat_with_tf, predict, tf lookup, labels, register_table) followed by every operation that drops cache entries, drop through Splink of user tables (force=False), realtime "
        "compare_records (cached / uncached), delete_tables_created_by_splink_from_db and invalidate_cache at random points, each "
        "history closed by a cleanup call (second wave: plus evaluation, m-training, unlinkables, profile/completeness, blocking analysis, multi-threshold clustering and graph metrics); persistent DuckDB and SQLite database files pre-populated with 6 user tables (names r, "
        "blocked_with_cols, __splink__df_concat, __splink__df_predict, a hashed look-alike, customers) and 2 views; plus every "
        "(operation, cleanup) pair over a 15-letter alphabet. Non-trivial: >= 3 kinds of operation and a cleanup call.")
    ctx.trusted += [
        "Model/Cache.v assumptions (hash injectivity, provenance model)",
        "harness X: names are normalised by stripping the 9-hex hash / 8-char uid; user objects are identified by exact name",
        "modelled: table contents as provenance terms; schema and rows of user objects are checked by the oracle only",
        "views are not distinguished from tables in the model (the catalog listing and the oracle cover both)",
    ]
    ok = ctx.proof_stage("Properties/C18.v")
    if not ok:
        ctx.violation("theorems of Properties/C18.v no longer check", {"broken": "Properties/C18.v"}, found_input=False)
    fixes = C07.probe_fixes(ctx)
    fixes["fx715"] = probe_fx715()
    ctx.cov["tree_variant"] = fixes
    ctx.log(f"tree variant: {fixes}")
    ctx.cov["translated_sources"] = {p: git_blob(REPO / p) for p in [
        "splink/internals/database_api.py", "splink/internals/splink_dataframe.py", "splink/internals/duckdb/dataframe.py",
        "splink/internals/sqlite/dataframe.py", "splink/internals/duckdb/database_api.py", "splink/internals/sqlite/database_api.py",
        "splink/internals/linker_components/table_management.py", "splink/internals/realtime.py"]}
    try:
        if ctx.replay:
            rp = json.loads(open(ctx.replay).read())
            hist = [tuple(o) for o in rp.get("case", [])]
            r = run_history(ctx, rp.get("backend", "duckdb"), hist, fixes, "replay", cleanup_at_end=False)
            bad, errs = ctx.eval_cases("C18_replay", HEADER, [coq_term(r)], "run_ccase") if not r["problems"] else ([], [])
            ctx.log(f"replay: problems={r['problems']} model_mismatch={bool(bad)}")
            if r["problems"] or bad:
                ctx.violation("replayed history still fails", {"case": hist, "implementation": r["problems"] or r["steps"],
                                                                "specification": diagnose(ctx, r) if bad else "oracle"},
                              features(hist, r["problems"][0] if r["problems"] else None))
            return
        history_stage(ctx, fixes)
        witness_stage(ctx, fixes)
    finally:
        shutil.rmtree(SCRATCH, ignore_errors=True)
