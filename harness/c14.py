"""C14  Blocking analysis reports the numbers blocking actually produces.

 P  theorems in Properties/C14.v about Model/BlockAnalysis.v on top of C01's `block`:
    post-filter count = pairs blocking emits for the rule; pre-filter count = number of pairs
    with equal NULL-free key tuples; per-rule row counts = pairs whose first true rule it is,
    running sums, exact cartesian counts; n_largest_blocks are the largest genuine blocks.
 T  translators/c14_sql.py: the `__splink__blocked_id_pairs` SQL (and the exploded id-table SQL)
    actually executed by the cumulative function and by predict() for the same rule kinds are
    captured, turned into C01 skeleton terms, and Coq decides over all valuations that both emit
    the same match keys and meet C01's specification; the count/pre-filter SQL text is compared
    with the audited form.
 X  real count_comparisons_from_blocking_rule, cumulative_comparisons_to_be_scored_from_
    blocking_rules_data and n_largest_blocks on DuckDB and SQLite vs the model evaluated in
    Coq (rule outcomes and key values evaluated by an independent DuckDB connection), and the
    property oracle: row counts of a real predict() per match_key, Python recounts.
    The equi-join/filter split made by sqlglot is checked semantically on every pair.
"""
from __future__ import annotations

import copy
import json
import traceback

from harness import c14_x as X
from harness.common import Ctx


def shrink(case, kind):
    best, budget = case, 30

    def fails(c):
        return any(k == kind for cc, rr, pp in X.run_history(c) for k, _ in X.build(cc, rr, pp)[2])
    progress = True
    while progress and budget > 0:
        progress = False
        for t in range(len(best["tables"])):
            for i in range(len(best["tables"][t])):
                if len(best["tables"][t]) <= 1 or budget <= 0:
                    continue
                d = copy.deepcopy(best)
                del d["tables"][t][i]
                if any(all(r[c] is None for tb in d["tables"] for r in tb) for c in X.COLS):
                    continue
                budget -= 1
                try:
                    if fails(d):
                        best, progress = d, True
                        break
                except Exception:
                    continue
            if progress:
                break
    return best


T_HEADER = """From Coq Require Import List Bool Arith.
From Splinkv Require Import Base.TV Model.Blocking.
Import ListNotations.
(* in a two-dataset link the left table holds the smaller source_dataset: l.sds < r.sds, hence
   sds differ and composite_id(l) < composite_id(r) *)
Definition consistent (lt : link_type) (v : valuation) : bool :=
  match lt with TwoDatasetLinkOnly => v_idlt v && v_sdsne v && v_sdslt v | _ => true end.
Definition same_blocking (c : link_type * nat * list bexp * skeleton * skeleton) : bool :=
  match c with (lt, natoms, rules, skc, skp) =>
    forallb (fun v => negb (consistent lt v) ||
                      (list_nat_eqb (emit skc v) (emit skp v) && list_nat_eqb (emit skc v) (expected lt rules v)))
            (all_vals lt natoms [])
  end.
"""


def translator_stage(ctx: Ctx):
    """-> list of broken obligations (strings)"""
    from translators import c14_sql as T
    broken = []
    terms, metas = [], []
    for kinds, shapes, lt, ntab in T.configs(ctx.tier, ctx.rng):
        try:
            terms.append(T.obligation(kinds, shapes, lt, ntab))
            metas.append((kinds, shapes, lt, ntab))
        except Exception as e:  # fail closed
            ctx.obligation(f"translate blocking SQL of cumulative/predict {kinds} {shapes} {lt}/{ntab}", False, repr(e)[:300])
            broken.append(f"untranslatable {kinds} {shapes} {lt}/{ntab}: {repr(e)[:120]}")
    bad, errs = ctx.eval_cases("C14_same", T_HEADER, terms, "same_blocking", shard=20)
    for e in errs:
        ctx.obligation("blocking-SQL obligations evaluate", False, e)
        broken.append("blocking-SQL obligations did not evaluate")
    ctx.obligations += len(terms)
    ctx.discharged += (len(terms) - len(bad)) if not errs else 0
    for i in bad:
        broken.append(f"cumulative pipeline and predict() emit different blocking SQL (or not C01's spec) for {metas[i]}")
        ctx.log("blocking SQL differs:", metas[i])
    ctx.cov["same_blocking_sql_obligations"] = len(terms)
    try:
        now = T.count_sql_shapes()
        for name, want in T.EXPECTED_COUNT.items():
            if not ctx.obligation(f"SQL shape of {name} is the modelled one", now.get(name) == want, str(now.get(name))[:300]):
                broken.append("count SQL shape changed: " + name)
    except Exception as e:
        ctx.obligation("capture the count SQL", False, repr(e)[:300])
        broken.append("count SQL could not be captured: " + repr(e)[:120])
    return broken


def run(ctx: Ctx):
    ctx.cov["rule"] = ("X: sequences on ONE DatabaseAPI with input tables registered BY NAME [the three analysis calls; the tables' "
                       "contents replaced; optionally delete_tables_created_by_splink_from_db(); the calls again, all re-checked against the "
                       "new contents]; cases: seeded tables (1-3, NULL keys), all link types; a single rule = 0-2 equi-join atoms (incl. substr keys, "
                       "keys and filters not symmetric in l/r such as l.a = r.b, l.c < r.c, l.a is not null - for every link type) + optional filter atom, or an OR rule without extractable keys, salted on DuckDB; "
                       "rule lists of length 1-4 with array-exploding rules (one or two exploded arrays) on DuckDB; max_rows_limit passed "
                       "explicitly (never hit) in half of the cases; n_largest in {1,2,3,5}; 3 Coq-evaluated comparisons per checked call (count, cumulative, n_largest); a call is "
                       "non-trivial when pre-filter > post-filter > 0 and (>= 2 rules own pairs or it is the call after the tables "
                       "were replaced); distinct by full case.")
    ctx.trusted += [
        "translators/c14_sql.py + c01_skeleton.py helpers (sqlglot parse; placeholder rule shapes atom / top-level OR; "
        "rule kinds plain and exploding, n <= 3; in a two-dataset link l.sds < r.sds is assumed to imply "
        "composite_id(l) < composite_id(r)); count SQL compared as normalised text",
        "harness X: rule outcomes per pair and equi-join key values per record are evaluated by an independent DuckDB "
        "connection (key expressions re-parsed with sqlglot from equi_join_conditions_identified)",
        "modelled not verified: SQL join/GROUP BY/USING semantics of the engines; tie order of equal-sized blocks in "
        "n_largest_blocks is unspecified (sizes are compared)",
        "exploding rules: outcome = TRUE on some pair of exploded variants (as in C01); only given to the cumulative function "
        "(count_comparisons ignores arrays_to_explode: known finding, witness replayed); salted rules only to "
        "count_comparisons (the cumulative function raises on them: loud)",
    ]
    ok = ctx.proof_stage("Properties/C14.v")
    if not ok:
        ctx.violation("theorems of Properties/C14.v no longer check", {"broken": "Properties/C14.v"}, found_input=False)

    rp = json.loads(open(ctx.replay).read()) if ctx.replay else None
    # the translator stage and the witnesses are skipped only when one concrete case is replayed
    replay_one_case = rp is not None and "case" in rp and "rules" in rp.get("case", {})
    broken_T = [] if replay_one_case else translator_stage(ctx)

    if replay_one_case:
        cases = [rp["case"]]
    elif rp is not None:
        cases = []
    else:
        n = 70 if ctx.quick else 1000
        cases = [X.gen_case(ctx.rng, "sqlite" if i % 3 == 2 else "duckdb") for i in range(n)]

    def witness_failed(name):
        tb = traceback.format_exc()
        ctx.log("witness replay raised", tb[-800:])
        ctx.violation(f"witness replay `{name}` could not be run", {"broken": "witness " + name, "traceback": tb}, found_input=False)

    # dedicated replays of recorded findings (their input classes: see meta/C14.json)
    if not replay_one_case:
        try:
            rep, counts, want = X.replay_witness()
            ctx.cov["witness_random_alias"] = {"counts_over_identical_calls": counts, "predict": want}
            if rep:
                ctx.violation("blocking analysis orders the source datasets differently from the input order (random aliases): for a rule not symmetric in l/r in a job "
                              f"with >= 2 tables identical calls report {sorted(set(counts))} while predict() scores {want}",
                              {"case": X.WITNESS, "implementation": {"post_filter_counts": counts}, "specification": {"predict": want}},
                              {"asymmetric_rule_multi_table": True, "kind": "orientation", "link_type": "link_and_dedupe"})
        except Exception:
            witness_failed("random alias")
        try:
            rep, got, want, known_wrong = X.replay_witness_explode()
            ctx.cov["witness_exploding_count"] = {"pre_post": list(got), "predict": want, "recorded_wrong_pre_post": list(known_wrong)}
            if rep:
                # only the RECORDED wrong answer (arrays compared as whole values) is the known finding;
                # any other wrong number is a new violation
                feats = {"kind": "exploding_count", "pre_filter": got[0], "post_filter": got[1]}
                if got == known_wrong:
                    feats["exploding_rule_in_count_comparisons"] = True
                else:
                    feats["exploding_rule_other_wrong_count"] = True
                ctx.violation("count_comparisons_from_blocking_rule ignores arrays_to_explode: (pre, post)-filter counts "
                              f"{got} but predict() scores {want} pairs for the exploding rule"
                              + ("" if got == known_wrong else f" (and this is not the recorded array-equality answer {known_wrong})"),
                              {"case": X.WITNESS_EXPLODE, "implementation": {"pre_post": got},
                               "specification": {"predict": want, "recorded_wrong_pre_post": known_wrong}}, feats)
            ctx.expect_known("KF-C14-count-ignores-explode", rep, "count_comparisons now agrees with predict() for an exploding rule")
        except Exception:
            witness_failed("exploding rule in count_comparisons")
        try:
            rep, first, second, want = X.replay_witness_stale()
            ctx.cov["witness_stale_after_table_replaced"] = {"first": first, "second_without_cleanup": second, "fresh": want}
            if rep:      # fixed in /repo 16fdbf82 (FX-C14-stale-after-table-replaced): a regression is a violation
                ctx.violation("cumulative_comparisons_to_be_scored_from_blocking_rules_data / n_largest_blocks answer from the SQL-keyed "
                              f"table cache after a named input table was replaced (no cleanup call): {second} instead of {want}",
                              {"case": X.WITNESS_STALE, "implementation": {"first": first, "second": second}, "specification": {"second": want}},
                              {"named_table_replaced_without_cleanup": True, "kind": "stale_analysis"})
        except Exception:
            witness_failed("stale analysis after table replaced")

    terms, owners, labels = [], [], []
    reported, found_any = set(), False
    split_fail = []
    for ci, case in enumerate(cases):
        try:
            steps = [(c, r, p, X.build(c, r, p)) for c, r, p in X.run_history(case)]
        except Exception:
            tb = traceback.format_exc()
            ctx.log("implementation/harness raised on case", ci, tb[-1500:])
            ctx.violation("blocking analysis raised on a valid input (or the harness could not drive it)",
                          {"case": case, "traceback": tb}, {"backend": case["backend"], "kind": "raise"})
            continue
        for si, (c, res, parts, (ts, ls, bad, obl)) in enumerate(steps):
            for name, okk, detail in obl:
                if not okk:
                    split_fail.append((ci, detail))
            cnt = res["count"]
            pre = int(cnt["number_of_comparisons_generated_pre_filter_conditions"])
            post = int(cnt["number_of_comparisons_to_be_scored_post_filter_conditions"])
            owners_n = sum(1 for x in res.get("cum", []) if int(x["row_count"]) > 0)
            ctx.count_case(json.dumps(c, sort_keys=True), pre > post > 0 and (owners_n >= 2 or si > 0),
                           {"backend": c["backend"], "link_type": c["link_type"], "rule": c["rule"], "pre": pre, "post": post,
                            "rules": c["rules"], "row_counts": [int(x["row_count"]) for x in res.get("cum", [])],
                            "top": [int(x["block_count"]) for x in res.get("top", [])], "call": si})
            ctx.hist("backend", c["backend"]); ctx.hist("link_type", c["link_type"]); ctx.hist("tables", len(c["tables"]))
            ctx.hist("n_rules", len(c["rules"])); ctx.hist("rules_owning_pairs", owners_n)
            ctx.hist("has_equi_keys", bool(cnt["equi_join_conditions_identified"])); ctx.hist("has_filter", bool(cnt["filter_conditions_identified"]))
            asym = [a for a in X.EQUI_ASYM + X.FILTERS_ASYM
                    if any(a in X.rule_sql(r) and (a != "l.a is not null" or "r.a is not null" not in X.rule_sql(r))
                           for r in [c["rule"], c["top_rule"]] + list(c["rules"]))]
            ctx.hist("rule_not_symmetric_in_l_r", ("multi-table" if len(c["tables"]) > 1 else "dedupe") if asym else "none")
            ctx.hist("exploding_rules_in_list", sum(1 for r in c["rules"] if X.is_exploding(r)))
            ctx.hist("single_rule_salted", isinstance(c["rule"], dict)); ctx.hist("max_rows_limit", c.get("max_rows_limit"))
            ctx.hist("post_filter", min(post // 5 * 5, 50)); ctx.hist("listed_blocks", len(res.get("top", [])))
            ctx.hist("call_in_sequence", "first" if si == 0 else ("after tables replaced, " + ("with" if c["step"]["cleanup"] else "without") + " cleanup"))
            for t, lab in zip(ts, ls):
                terms.append(t); owners.append(ci); labels.append(lab)
            for kind, detail in bad:
                found_any = True
                if kind in reported or len(reported) >= 4:
                    continue
                reported.add(kind)
                small = shrink(case, kind)
                try:
                    hist2 = [(cc, rr, pp, X.build(cc, rr, pp)[2]) for cc, rr, pp in X.run_history(small)]
                    st2, c2, r2, d2 = next((i, cc, rr, [d for k, d in b if k == kind]) for i, (cc, rr, pp, b) in enumerate(hist2)
                                           if any(k == kind for k, _ in b))
                except Exception:
                    small, st2, c2, r2, d2 = case, si, c, res, [detail]
                ctx.violation(f"blocking analysis does not report what blocking produces ({kind}"
                              f"{', call after the named tables were replaced on the same DatabaseAPI' if st2 else ''}): {d2[0][:300]}",
                              {"case": small, "failing_call": st2, "implementation": r2, "specification": d2[:5]},
                              {"backend": small["backend"], "link_type": small["link_type"], "kind": kind,
                               "after_tables_replaced": bool(st2),
                               "has_exploding_rule": any(X.is_exploding(r) for r in small["rules"])})
    ctx.obligations += len(cases)
    ctx.discharged += len(cases) - len({c for c, _ in split_fail})
    bad_idx, errs = ctx.eval_cases("C14_x", X.HEADER, terms, "run_case", shard=60)
    for e in errs:
        ctx.log(e)
    okx = ctx.obligation("correspondence: blocking-analysis numbers of the implementation = model evaluated in Coq",
                         not bad_idx and not errs, f"{len(bad_idx)} of {len(terms)} terms disagree: {[labels[i] for i in bad_idx[:6]]}")
    ctx.cov["coq_evaluated_terms"] = len(terms)
    if not okx and not found_any:
        which = sorted({owners[i] for i in bad_idx})[:3]
        ctx.violation("model (Model/BlockAnalysis.v) and implementation disagree although predict() counts and recounts agree: "
                      + str([labels[i] for i in bad_idx[:6]]),
                      {"broken": "correspondence C14_x", "outputs": [labels[i] for i in bad_idx[:10]],
                       "cases": [cases[i] for i in which], "errors": errs[:2]}, found_input=False)
    if broken_T and not found_any:
        ctx.violation("translator obligation on the blocking-analysis SQL failed: " + "; ".join(broken_T)[:400],
                      {"broken": "T: " + "; ".join(broken_T)}, found_input=False)
    if split_fail and not found_any:
        ctx.violation("the equi-join/filter decomposition of a rule is not equivalent to the rule: " + split_fail[0][1][:300],
                      {"broken": "obligation: equi AND filter == rule", "case": cases[split_fail[0][0]], "detail": split_fail[0][1]},
                      {"kind": "split"}, found_input=True)
