"""C01  Blocking yields exactly the rule-satisfying pairs, each once.

 P  theorems in Properties/C01.v (canonical composition for any number of arbitrary rule
    functions; skeleton soundness lifted from valuations to all tables).
 T  translators/c01_skeleton.py regenerates the boolean skeleton of the SQL that the real
    block_using_rules_sqls emits for every kind vector; `skeleton_ok` is evaluated by the
    kernel VM over ALL valuations {T,F,NULL}^atoms x salts x admissibility bits.
 X  real predict()/deterministic_link() on DuckDB (+SQLite) vs the Gallina `block`
    evaluated inside Coq on the engine-evaluated rule outcome matrix.
"""
from __future__ import annotations

import itertools
import json

from harness.common import Ctx, REPO, coq_list, coq_nat, git_blob
from translators import c01_skeleton as T

HEADER = """From Coq Require Import List Bool Arith.
From Splinkv Require Import Base.TV Model.Blocking.
Import ListNotations.
"""


def skeleton_stage(ctx: Ctx):
    cfgs = T.configs(ctx.tier, ctx.rng)
    terms, metas = [], []
    for kinds, shapes, lt in cfgs:
        try:
            d = T.skeleton_for(kinds, shapes, lt)
        except T.Untranslatable as e:
            ctx.obligation(f"translate skeleton {kinds} {shapes} {lt}", False, str(e))
            metas.append(None)
            ctx.untranslatable.append({"kinds": kinds, "shapes": shapes, "link_type": lt, "why": str(e)})
            continue
        terms.append(f"({d['lt']}, {d['natoms']}, {d['ns']}, {d['rules']}, {d['sk']})")
        metas.append(d)
    metas = [m for m in metas if m is not None]
    runner = "fun c => match c with (lt, na, ns, rules, sk) => skeleton_ok lt na ns rules sk end"
    bad, errs = ctx.eval_cases("C01_skel", HEADER, terms, runner, shard=40, timeout=900)
    for e in errs:
        ctx.obligation("skeleton shard evaluation", False, e)
    ctx.obligations += len(terms)
    ctx.discharged += len(terms) - len(bad) if not errs else 0
    ctx.cov["skeleton_obligations"] = len(terms)
    ctx.cov["skeleton_exhaustive_valuations"] = True
    ctx.cov["translated_sources"] = {p: git_blob(REPO / p) for p in
                                     ["splink/internals/blocking.py", "splink/internals/unique_id_concat.py",
                                      "splink/internals/settings.py"]}
    if metas:
        ctx.cov["samples"].append({"skeleton_obligation": {k: metas[-1][k] for k in ("kinds", "shapes", "link_type", "sk")}})
    failing = [metas[i] for i in bad]
    # counterexample valuations for failing skeletons
    cex = []
    if failing:
        terms2 = [f"({d['lt']}, {d['natoms']}, {d['ns']}, {d['rules']}, {d['sk']})" for d in failing[:12]]
        txt = HEADER + f"Definition cs := {coq_list(terms2)}.\n" + \
            "Eval vm_compute in (map (fun c => match c with (lt, na, ns, rules, sk) => skeleton_cex lt na ns rules sk end) cs).\n"
        ok, out = ctx.coqc_text("C01_cex", txt, where=None)
        cex = parse_cex(out)
    return failing, cex


def split_stage(ctx: Ctx):
    """Shapes around the blocking SQL: vertical concatenation (UNION ALL ...), the two-dataset
    split (min/max) and the guards of its call sites (exactly two tables and link_only) - the
    hypotheses of C01_two_dataset_split_equiv."""
    from translators import c01_split as S
    names, terms = [], []
    try:
        for n, t in S.split_terms():
            names.append(n); terms.append(f"split_ok {t}")
        for n, t in S.guard_terms():
            names.append(n); terms.append(f"split_guard_ok {t}")
        for n, t in S.concat_terms():
            names.append(n); terms.append(f"concat_ok {t}")
    except S.Untranslatable as e:
        ctx.obligation("translate concat/split shapes", False, str(e))
        ctx.violation("vertical concatenation / two-dataset split no longer has a shape the translator understands: " + str(e),
                      {"broken": "translators/c01_split.py"}, {"untranslatable": True}, found_input=False)
        return
    bad, errs = ctx.eval_cases("C01_split", HEADER, terms, "fun b : bool => b", shard=100)
    ctx.obligations += len(terms)
    ctx.discharged += len(terms) - len(bad) if not errs else 0
    ctx.cov["split_concat_obligations"] = names
    for e in errs:
        ctx.obligation("split/concat shard evaluation", False, e)
    ctx.split_broken = [names[i] for i in bad]
    if bad:
        ctx.log("split/concat obligations failing:", ctx.split_broken)


def parse_cex(out: str):
    import re
    flat = " ".join(out.split())
    res = []
    for m in re.finditer(r"v_atoms := \[([^\]]*)\]; v_parts := (\[[^\]]*\]|nil); v_idlt := (\w+); v_sdsne := (\w+); v_sdslt := (\w+)", flat):
        atoms = [a.strip() for a in m.group(1).split(";") if a.strip()]
        parts = re.findall(r"\((\d+), (\d+)\)", m.group(2))
        res.append({"atoms": atoms, "parts": [(int(a), int(b)) for a, b in parts],
                    "idlt": m.group(3) == "true", "sdsne": m.group(4) == "true", "sdslt": m.group(5) == "true"})
    return res


def run(ctx: Ctx):
    ctx.untranslatable = []
    ctx.cov["rule"] = ("T: one skeleton obligation per (rule kinds in {plain,salted2,salted3,exploding}^n, n<=4; placeholder "
                       "shape atom / top-level OR; link type), each decided over all valuations. X: seeded tables x rule "
                       "lists; a case is non-trivial when it has >=2 rules, some pair satisfied by >=2 rules and some NULL outcome; "
                       "distinct by (table, rules, link type).")
    ctx.trusted += [
        "translators/c01_skeleton.py (sqlglot 30.18 parse of the emitted SQL; placeholder rule shapes atom and top-level OR)",
        "harness X: DuckDB/SQLite evaluate each rule on each candidate pair (outcome matrix fed to the Gallina model)",
        "modelled not verified: SQL engines' join/UNION ALL/EXISTS semantics, random() salt in (0,1]",
    ]
    if ctx.replay:
        return replay(ctx)
    ok = ctx.proof_stage("Properties/C01.v")
    if not ok:
        ctx.violation("theorems of Properties/C01.v no longer check", {"broken": "Properties/C01.v"}, found_input=False)
    split_stage(ctx)
    failing, cex = skeleton_stage(ctx)
    from harness import c01_x
    c01_x.report_skeleton_failures(ctx, failing, cex)
    nviol = len(ctx.violations)
    c01_x.correspondence(ctx)
    if getattr(ctx, "split_broken", None) and len(ctx.violations) == nviol:
        ctx.violation("shape obligations around the blocking SQL fail: " + ", ".join(ctx.split_broken),
                      {"broken": ctx.split_broken}, {"split_concat": True}, found_input=False)


def replay(ctx: Ctx):
    """./check C01 --replay f : re-run one replay file's input against the current tree."""
    import json as _json
    from harness import c01_x
    r = _json.load(open(ctx.replay))
    if "case" in r:
        case, entry = r["case"], r.get("entry", "predict")
        rows, mats = c01_x.outcome_matrices(case)
        impl = c01_x.run_impl(case, entry)
        term, expd = c01_x.case_term(case, rows, mats, impl)
        bad, errs = ctx.eval_cases("C01_replay", c01_x.HEADER, [term], "run_case", shard=1)
        ctx.count_case("replay", True, {"replay": ctx.replay})
        ctx.obligation("replayed case: implementation = Gallina block", not bad and not errs)
        if bad or errs:
            ctx.violation("replayed input still fails: blocking output differs from specification",
                          {"case": case, "entry": entry, "implementation": expd,
                           "specification": c01_x.py_model(case, rows, mats)}, c01_x.features_of(case))
        else:
            ctx.log("replayed input agrees with the specification on the current tree")
    elif "obligation" in r and "kinds" in r["obligation"]:
        o = r["obligation"]
        d = T.skeleton_for(tuple(o["kinds"]), tuple(o["shapes"]), o["link_type"])
        term = f"({d['lt']}, {d['natoms']}, {d['ns']}, {d['rules']}, {d['sk']})"
        runner = "fun c => match c with (lt, na, ns, rules, sk) => skeleton_ok lt na ns rules sk end"
        bad, errs = ctx.eval_cases("C01_replay", HEADER, [term], runner, shard=1)
        ctx.count_case("replay", True, {"replay": ctx.replay})
        ctx.obligation("replayed skeleton obligation", not bad and not errs)
        if bad or errs:
            ctx.violation("replayed skeleton obligation still fails", {"obligation": o}, {"skeleton": True}, found_input=False)
    else:
        ctx.log("replay file has no re-runnable case; running the full check instead")
        ctx.replay = None
        return run(ctx)
