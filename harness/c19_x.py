"""C19 correspondence: the real `linker.clustering.compute_graph_metrics` on DuckDB / SQLite vs
the Gallina model (Model/GraphMetrics.v) evaluated inside Coq on the same prediction table,
clustering and threshold.  Exact rationals on the model side; engine floats are converted
exactly (Fraction) and compared with tolerance 1e-9 inside Coq.  igraph is trusted for
nothing: the model's own `is_bridge_b` decides the bridge flags."""
from __future__ import annotations

import json
from fractions import Fraction

import pandas as pd

from harness import splink_util as su
from harness.common import Ctx, coq_list, coq_Q, coq_Z, coq_bool, coq_opt

SEP = "-__-"
DEN = 1024

HEADER = """From Coq Require Import List Bool ZArith QArith Qabs.
From Splinkv Require Import Model.GraphMetrics.
Import ListNotations.
Open Scope Z_scope.
Definition qclose (a b : Q) : bool := Qle_bool (Qabs (a - b)) (1 # 1000000000).
Definition oqclose (a b : option Q) : bool :=
  match a, b with Some x, Some y => qclose x y | None, None => true | _, _ => false end.
Definition node_eqb (a b : nmrow) : bool :=
  (nm_uid a =? nm_uid b) && (nm_cid a =? nm_cid b) && (nm_deg a =? nm_deg b) && qclose (nm_cen a) (nm_cen b).
(* the implementation's flag is carried as option bool: NULL is not FALSE *)
Definition obool_eqb (a b : option bool) : bool :=
  match a, b with Some x, Some y => Bool.eqb x y | None, None => true | _, _ => false end.
Definition edge_eqb (a b : Z * Z * option bool) : bool :=
  (fst (fst a) =? fst (fst b)) && (snd (fst a) =? snd (fst b)) && obool_eqb (snd a) (snd b).
Definition some_flag (r : Z * Z * bool) : Z * Z * option bool := (fst r, Some (snd r)).
Definition cl_eqb (a : clrow) (b : Z * Z * Q * option Q * option Q) : bool :=
  match b with (cid, n, ne, den, cen) =>
    (cl_cid a =? cid) && (cl_n_nodes a =? n) && qclose (cl_n_edges a) ne
    && oqclose (cl_density a) den && oqclose (cl_centralisation a) cen end.
Definition cnt {A : Type} (eqb : A -> A -> bool) (x : A) (l : list A) : nat := length (filter (eqb x) l).
Definition bag_eqb {A : Type} (eqb : A -> A -> bool) (a b : list A) : bool :=
  Nat.eqb (length a) (length b) && forallb (fun x => Nat.eqb (cnt eqb x a) (cnt eqb x b)) (a ++ b).
(* case: threshold, df_clustered, df_predict, implementation's nodes / edges / clusters tables *)
Definition run_case (c : Q * list crow * list pedge * list nmrow * list (Z * Z * option bool)
                         * list (Z * Z * Q * option Q * option Q)) : bool :=
  match c with (thr, C, P, inodes, iedges, iclusters) =>
    let TE := truncated_edges thr P in
    let NM := graph_metrics_nodes C TE in
    let CL := graph_metrics_clusters NM in
    bag_eqb node_eqb NM inodes
    && bag_eqb edge_eqb (map some_flag (graph_metrics_edges TE)) iedges
    && Nat.eqb (length CL) (length iclusters)
    && forallb (fun a => existsb (cl_eqb a) iclusters) CL
    && forallb (fun b => existsb (fun a => cl_eqb a b) CL) iclusters
  end.
"""


# --------------------------------------------------------------------------------------------
def gen_component(rng, kind, ids):
    n = len(ids)
    e = []
    if kind == "tree":
        for k in range(1, n):
            e.append((ids[rng.randrange(k)], ids[k]))
    elif kind == "path":
        e = [(ids[k], ids[k + 1]) for k in range(n - 1)]
    elif kind == "cycle":
        e = [(ids[k], ids[(k + 1) % n]) for k in range(n)] if n >= 3 else [(ids[0], ids[-1])] if n == 2 else []
    elif kind == "clique":
        e = [(ids[a], ids[b]) for a in range(n) for b in range(a + 1, n)]
    elif kind == "star":
        e = [(ids[0], ids[k]) for k in range(1, n)]
    elif kind == "barbell":
        h = n // 2
        e = [(ids[a], ids[b]) for a in range(h) for b in range(a + 1, h)]
        e += [(ids[a], ids[b]) for a in range(h, n) for b in range(a + 1, n)]
        if h >= 1 and n > h:
            e.append((ids[h - 1], ids[h]))
    elif kind == "random":
        allp = [(ids[a], ids[b]) for a in range(n) for b in range(a + 1, n)]
        rng.shuffle(allp)
        e = allp[:rng.randint(0, len(allp))]
    return e


def gen_case(rng, backend, fixed=None, thr=None):
    """fixed = (link, names, nodes) re-uses the records of an earlier call on the same linker;
    thr forces the threshold (k/1024)."""
    if fixed is not None:
        link, names, nodes = fixed
        nodes = list(nodes)
    else:
        link = rng.choice(["dedupe_only", "link_only", "link_only", "link_and_dedupe"])
        names = ["a"] if link == "dedupe_only" else rng.sample(["a", "b", "c", "ds_x"], rng.choice([2, 3]))
        n = rng.randint(2, 12)
        uids = rng.sample(range(1, 40), n)
        if link != "dedupe_only" and rng.random() < 0.5:       # same unique_id in several datasets
            uids = [rng.choice(uids[:max(1, n // 2)]) for _ in range(n)]
        nodes, seen = [], set()
        for u in uids:
            ds = rng.choice(names)
            if (ds, u) in seen:
                continue
            seen.add((ds, u))
            nodes.append((ds, u))
        if len(nodes) < 2:
            return gen_case(rng, backend, fixed, thr)
    n = len(nodes)
    order = list(range(n))
    rng.shuffle(order)
    comps, k = [], 0
    while k < n:
        sz = rng.choice([1, 1, 2, 3, 3, 4, 5, 6])
        comps.append(order[k:k + sz])
        k += sz
    edges = []
    kinds = []
    for comp in comps:
        kind = rng.choice(["tree", "path", "cycle", "clique", "star", "barbell", "random"])
        kinds.append(kind if len(comp) > 1 else "isolated")
        edges += gen_component(rng, kind, comp)
    if rng.random() < 0.25 and n >= 2:                     # an edge between components
        a, b = rng.sample(range(n), 2)
        if (a, b) not in edges and (b, a) not in edges:
            edges.append((a, b))
    if thr is None:
        thr = rng.choice([0, 256, 512, 700, rng.randint(1, DEN - 1)])
    rows = []
    for a, b in edges:
        p = rng.choice([thr, rng.randint(thr, DEN), rng.randint(thr, DEN), rng.randint(0, DEN)])
        if rng.random() < 0.5:
            a, b = b, a
        rows.append((a, b, p))
    multigraph = False
    if rng.random() < 0.12 and rows:                       # parallel edge / self loop
        multigraph = True
        a, b, p = rng.choice(rows)
        rows.append(rng.choice([(a, b, p), (b, a, min(DEN, p + 1)), (a, a, DEN)]))
    if not any(p >= thr for _, _, p in rows):
        a, b = rng.sample(range(n), 2)
        rows.append((a, b, DEN))
    rng.shuffle(rows)
    # clustering: connected components at the threshold, or an arbitrary partition
    mode = rng.choice(["components", "components", "arbitrary", "real"])
    if link == "link_and_dedupe" and mode == "real":
        mode = "components"
    cl = clustering(nodes, rows, thr)
    if mode == "arbitrary":
        labels = [rng.randrange(max(1, n // 2)) for _ in range(n)]
        rep = {}
        for v, l in enumerate(labels):
            rep.setdefault(l, v)
        cl = [rep[l] for l in labels]
    return {"backend": backend, "link": link, "names": names, "nodes": nodes, "edges": rows, "thr": thr,
            "clusters": cl, "mode": mode, "kinds": kinds, "multigraph": multigraph}


def clustering(nodes, rows, thr):
    n = len(nodes)
    parent = list(range(n))

    def find(x):
        while parent[x] != x:
            parent[x] = parent[parent[x]]
            x = parent[x]
        return x
    for a, b, p in rows:
        if p >= thr:
            ra, rb = find(a), find(b)
            if ra != rb:
                parent[max(ra, rb)] = min(ra, rb)
    return [find(v) for v in range(n)]


def comp_id(case, v):
    ds, u = case["nodes"][v]
    return u if case["link"] == "dedupe_only" else f"{ds}{SEP}{u}"


# --------------------------------------------------------------------------------------------
def run_impl(case):
    from splink import Linker, SettingsCreator
    nodes, link = case["nodes"], case["link"]
    dedupe = link == "dedupe_only"
    api = su.make_api(case["backend"])
    s = SettingsCreator(link_type=link, comparisons=[], blocking_rules_to_generate_predictions=[])
    if dedupe:
        df = pd.DataFrame({"unique_id": [u for _, u in nodes]})
    else:
        df = pd.DataFrame({"unique_id": [u for _, u in nodes], "source_dataset": [ds for ds, _ in nodes]})
    lk = Linker(df, s, api)
    su.quiet()
    e = case["edges"]
    pred = {"unique_id_l": [nodes[a][1] for a, _, _ in e], "unique_id_r": [nodes[b][1] for _, b, _ in e]}
    if not dedupe:
        pred["source_dataset_l"] = [nodes[a][0] for a, _, _ in e]
        pred["source_dataset_r"] = [nodes[b][0] for _, b, _ in e]
    pred["match_probability"] = [p / DEN for _, _, p in e]
    dp = lk.table_management.register_table_predict(pd.DataFrame(pred), overwrite=True)
    thr = case["thr"] / DEN
    if case["mode"] == "real":
        dc = lk.clustering.cluster_pairwise_predictions_at_threshold(dp, threshold_match_probability=thr)
        recs = dc.as_record_dict()
        key = {(r.get("source_dataset", nodes[0][0]), r["unique_id"]): r["cluster_id"] for r in recs}
        idx = {comp_id(case, v): v for v in range(len(nodes))}
        case["clusters"] = [idx[key[nodes[v]]] for v in range(len(nodes))]
        gm = lk.clustering.compute_graph_metrics(dp, dc) if case.get("thr_from_metadata") else \
            lk.clustering.compute_graph_metrics(dp, dc, threshold_match_probability=thr)
    else:
        cl = {"cluster_id": [comp_id(case, c) for c in case["clusters"]], "unique_id": [u for _, u in nodes]}
        if not dedupe:
            cl["source_dataset"] = [ds for ds, _ in nodes]
        dc = lk.table_management.register_table(pd.DataFrame(cl), "__splink__df_clustered_verif", overwrite=True)
        gm = lk.clustering.compute_graph_metrics(dp, dc, threshold_match_probability=thr)
    return {"nodes": gm.nodes.as_record_dict(), "edges": gm.edges.as_record_dict(), "clusters": gm.clusters.as_record_dict()}


# --------------------------------------------------------------------------------------------
# histories: several compute_graph_metrics calls on ONE linker (different thresholds, different
# prediction / clustering tables, the same inputs twice), thresholds incl. the boundaries 0.0 and
# 1.0, threshold passed explicitly / read from the clustering metadata / passed explicitly while
# the metadata carries another value.  Every call has its own expected tables.
def gen_shared_clustering_history(rng, backend):
    """ONE df_clustered object that carries threshold metadata, used by every call of the history:
    explicit X (different from the clustering threshold) then implicit, or implicit - explicit -
    implicit.  An implicit call must use the threshold the clustering was made at."""
    base = gen_case(rng, backend)
    top = max(p for _, _, p in base["edges"])
    meta = rng.choice([0, top, rng.randint(0, top), rng.randint(0, top)])
    others = [t for t in {0, top, rng.randint(0, top), rng.randint(0, top), max(0, top - 1)} if t != meta]
    if not others:
        return gen_shared_clustering_history(rng, backend)
    source = rng.choice(["registered", "real"]) if base["link"] != "link_and_dedupe" else "registered"
    clusters = clustering(base["nodes"], base["edges"], meta) if source == "real" or rng.random() < 0.6 else base["clusters"]
    order = rng.choice([["explicit_over_metadata", "metadata"], ["explicit_over_metadata", "metadata"],
                        ["metadata", "explicit_over_metadata", "metadata"],
                        ["explicit_over_metadata", "explicit_over_metadata", "metadata"]])
    calls = []
    for k, how in enumerate(order):
        calls.append({"edges": base["edges"], "thr": meta if how == "metadata" else rng.choice(others), "clusters": clusters,
                      "kinds": base["kinds"], "multigraph": base["multigraph"], "kind": "first" if k == 0 else "same_clustering_object",
                      "cluster_source": source, "pass": how, "meta_thr": meta, "reuse_dc": None if k == 0 else 0})
    return {"backend": backend, "link": base["link"], "names": base["names"], "nodes": base["nodes"], "calls": calls}


def gen_history(rng, backend):
    if rng.random() < 0.35:
        return gen_shared_clustering_history(rng, backend)
    base = gen_case(rng, backend)
    fixed = (base["link"], base["names"], base["nodes"])
    calls = []
    for k in range(rng.choice([2, 2, 3])):
        kind = "first" if k == 0 else rng.choice(["repeat", "new_threshold", "new_threshold", "new_predictions", "new_predictions"])
        if kind == "first":
            c = base
        elif kind == "repeat":
            c = dict(calls[rng.randrange(k)])
        elif kind == "new_threshold":
            prev = calls[rng.randrange(k)]
            c = dict(prev)
            top = max(p for _, _, p in prev["edges"])
            c["thr"] = rng.choice([0, top, rng.randint(0, top), rng.randint(0, top)])
            c["clusters"] = clustering(base["nodes"], c["edges"], c["thr"]) if rng.random() < 0.5 else prev["clusters"]
        else:
            c = gen_case(rng, backend, fixed=fixed, thr=rng.choice([None, None, 0, DEN]))
        c = {x: c[x] for x in ("edges", "thr", "clusters", "kinds", "multigraph")}
        c["kind"] = kind
        # how the clustering table and the threshold reach compute_graph_metrics
        c["cluster_source"] = rng.choice(["registered", "registered", "real"]) if base["link"] != "link_and_dedupe" else "registered"
        c["pass"] = rng.choice(["explicit", "explicit", "metadata", "explicit_over_metadata"])
        if rng.random() < 0.3 and c["pass"] != "metadata" and kind != "repeat":
            c["thr"] = 0                                   # boundary: explicit 0.0 (every edge counts)
        if c["pass"] == "explicit" and c["cluster_source"] == "registered":
            c["meta_thr"] = None                           # df_clustered without threshold metadata
        elif c["pass"] == "metadata":
            c["meta_thr"] = c["thr"]
        else:
            others = [t for t in (0, 300, 512, 900, DEN) if t != c["thr"]]
            c["meta_thr"] = rng.choice(others)             # metadata says something else: explicit wins
        if c["cluster_source"] == "real":
            # the real clusterer decides the clusters (components at its own threshold = the metadata)
            c["clusters"] = clustering(base["nodes"], c["edges"], c["meta_thr"])
        calls.append(c)
    return {"backend": backend, "link": base["link"], "names": base["names"], "nodes": base["nodes"], "calls": calls}


def call_case(hist, k):
    """The single-call view of call k (what the model is asked about)."""
    c = hist["calls"][k]
    return {"backend": hist["backend"], "link": hist["link"], "names": hist["names"], "nodes": hist["nodes"],
            "edges": c["edges"], "thr": c["thr"], "clusters": c["clusters"], "mode": c["cluster_source"],
            "kinds": c["kinds"], "multigraph": c["multigraph"]}


def run_history(hist):
    """Returns one entry per call: the three tables, or {'raised': ...} when the call raises."""
    from splink import Linker, SettingsCreator
    nodes, link = hist["nodes"], hist["link"]
    dedupe = link == "dedupe_only"
    api = su.make_api(hist["backend"])
    s = SettingsCreator(link_type=link, comparisons=[], blocking_rules_to_generate_predictions=[])
    df = pd.DataFrame({"unique_id": [u for _, u in nodes]}) if dedupe else \
        pd.DataFrame({"unique_id": [u for _, u in nodes], "source_dataset": [ds for ds, _ in nodes]})
    lk = Linker(df, s, api)
    su.quiet()
    out, tables, dcs = [], {}, {}
    for k, c in enumerate(hist["calls"]):
        try:
            e = c["edges"]
            key = json.dumps(e)
            if key not in tables:                          # the same predictions -> the same table object
                pred = {"unique_id_l": [nodes[a][1] for a, _, _ in e], "unique_id_r": [nodes[b][1] for _, b, _ in e]}
                if not dedupe:
                    pred["source_dataset_l"] = [nodes[a][0] for a, _, _ in e]
                    pred["source_dataset_r"] = [nodes[b][0] for _, b, _ in e]
                pred["match_probability"] = [p / DEN for _, _, p in e]
                tables[key] = lk.table_management.register_table(pd.DataFrame(pred), f"__splink__df_predict_verif_{k}", overwrite=True)
            dp = tables[key]
            if c.get("reuse_dc") is not None and c["reuse_dc"] in dcs:
                dc = dcs[c["reuse_dc"]]                    # the SAME df_clustered object as an earlier call
            elif c["cluster_source"] == "real":
                dc = lk.clustering.cluster_pairwise_predictions_at_threshold(dp, threshold_match_probability=c["meta_thr"] / DEN)
            else:
                cl = {"cluster_id": [comp_id(hist, x) for x in c["clusters"]], "unique_id": [u for _, u in nodes]}
                if not dedupe:
                    cl["source_dataset"] = [ds for ds, _ in nodes]
                dc = lk.table_management.register_table(pd.DataFrame(cl), f"__splink__df_clustered_verif_{k}", overwrite=True)
                if c["meta_thr"] is not None:
                    dc.metadata["threshold_match_probability"] = c["meta_thr"] / DEN
            dcs[k] = dc
            if c["pass"] == "metadata":
                gm = lk.clustering.compute_graph_metrics(dp, dc)
            else:
                gm = lk.clustering.compute_graph_metrics(dp, dc, threshold_match_probability=c["thr"] / DEN)
            out.append({"nodes": gm.nodes.as_record_dict(), "edges": gm.edges.as_record_dict(), "clusters": gm.clusters.as_record_dict()})
        except Exception as ex:  # noqa: BLE001
            out.append({"raised": f"{type(ex).__name__}: {str(ex)[:400]}", "type": type(ex).__name__})
    return out


def effective_case(hist, k, res):
    """call_case, with the clusters the real clusterer actually produced (its cluster id is the
    least composite id, not the least row index)."""
    cc = call_case(hist, k)
    if hist["calls"][k]["cluster_source"] == "real" and "raised" not in res:
        idx = {comp_id(hist, v): v for v in range(len(hist["nodes"]))}
        got = {idx[x["composite_unique_id"]]: idx[x["cluster_id"]] for x in res["nodes"]}
        cc["clusters"] = [got.get(v, v) for v in range(len(hist["nodes"]))]
    return cc


def history_fails(hist):
    """Does the LAST call of the history raise or differ from the definitions?"""
    res = run_history(hist)[-1]
    if "raised" in res:
        return True
    return bool(py_diff(effective_case(hist, len(hist["calls"]) - 1, res), res))


def minimise_history(hist, k):
    """Smallest sub-history (call k alone, or one earlier call + call k) that still fails."""
    cands = [[k]] + [[j, k] for j in range(k)] + [list(range(k + 1))]
    for idx in cands:
        calls = []
        for i in idx:
            c = dict(hist["calls"][i])
            r = c.get("reuse_dc")
            c["reuse_dc"] = idx.index(r) if r is not None and r in idx and idx.index(r) < len(calls) else None
            calls.append(c)
        h = dict(hist, calls=calls)
        try:
            if history_fails(h):
                return h
        except Exception:  # noqa: BLE001
            pass
    return dict(hist, calls=hist["calls"][:k + 1])


def report_history(ctx, hist, k, reported):
    small = minimise_history(hist, k)
    res = run_history(small)
    last = len(small["calls"]) - 1
    cc = effective_case(small, last, res[last])
    c = small["calls"][last]
    f = {"calls_on_linker": len(small["calls"]), "backend": small["backend"], "threshold_passed": c["pass"],
         "threshold_zero": c["thr"] == 0, "metadata_present": c["meta_thr"] is not None}
    replay = {"history": small, "failing_call": last,
              "note": "ids are row indexes into history.nodes; thresholds and probabilities are k/1024"}
    sn, se, sc = py_spec(cc, definition=True)
    replay["specification"] = {"nodes": jsonable(sn), "edges": jsonable(se), "clusters": jsonable(sc)}
    if "raised" in res[last]:
        f["raises"] = res[last]["type"]
        replay["implementation"] = {"raised": res[last]["raised"]}
        what = (f"compute_graph_metrics raises {res[last]['type']} on an input with a defined answer "
                f"(threshold {c['thr'] / DEN} passed {c['pass']}, metadata {'present' if c['meta_thr'] is not None else 'absent'}, "
                f"call {last + 1} on the linker, {small['backend']})")
    else:
        which = py_diff(cc, res[last])
        f["tables"] = which
        nodes, edges, clusters = canon(cc, res[last])
        replay["implementation"] = {"nodes": jsonable(nodes), "edges": jsonable(edges), "clusters": jsonable(clusters)}
        what = (f"compute_graph_metrics call {last + 1} of {len(small['calls'])} on one linker differs from the graph-theoretic "
                f"definitions in {which or 'model comparison'} ({small['backend']})")
    key = json.dumps(f, sort_keys=True)
    if key in reported or len(reported) >= 6:
        return
    reported.add(key)
    ctx.violation(what, replay, f)


def frac(x):
    return None if x is None else Fraction(x)


def canon(case, impl):
    idx = {comp_id(case, v): v for v in range(len(case["nodes"]))}
    nodes = sorted((idx[r["composite_unique_id"]], idx[r["cluster_id"]], int(r["node_degree"]), frac(r["node_centrality"])) for r in impl["nodes"])
    edges = sorted(((idx[r["composite_unique_id_l"]], idx[r["composite_unique_id_r"]], None if r["is_bridge"] is None else bool(r["is_bridge"]))
                    for r in impl["edges"]), key=lambda t: (t[0], t[1], {None: 0, False: 1, True: 2}[t[2]]))
    clusters = sorted(((idx[r["cluster_id"]], int(r["n_nodes"]), frac(r["n_edges"]), frac(r["density"]), frac(r["cluster_centralisation"]))
                       for r in impl["clusters"]), key=lambda t: t[0])
    return nodes, edges, clusters


# --------------------------------------------------------------------------------------------
def py_spec(case, definition=False):
    """The definitions, computed directly (independent of the model): used to describe a
    failure and to classify it."""
    n = len(case["nodes"])
    te = [(a, b) for a, b, p in case["edges"] if p >= case["thr"]]
    deg = [0] * n
    for a, b in te:
        deg[a] += 1
        deg[b] += 1
    cl = case["clusters"]
    members = {}
    for v in range(n):
        members.setdefault(cl[v], []).append(v)
    nodes = sorted((v, cl[v], deg[v], Fraction(deg[v], len(members[cl[v]]) - 1) if len(members[cl[v]]) > 1 else Fraction(0)) for v in range(n))

    def connected_without(k, s, t):
        adj = {}
        for i, (a, b) in enumerate(te):
            if i != k:
                adj.setdefault(a, []).append(b)
                adj.setdefault(b, []).append(a)
        seen, todo = {s}, [s]
        while todo:
            x = todo.pop()
            for y in adj.get(x, ()):
                if y not in seen:
                    seen.add(y)
                    todo.append(y)
        return t in seen
    edges = sorted((a, b, not connected_without(k, a, b)) for k, (a, b) in enumerate(te))
    clusters = []
    for c, ms in sorted(members.items()):
        m = len(ms)
        sd = sum(deg[v] for v in ms)
        ne = Fraction(sd, 2)
        if definition:      # the graph-theoretic definition: edges with both ends in the cluster (not SUM(degree)/2)
            ne = Fraction(sum(1 for a, b in te if cl[a] == c and cl[b] == c))
        dens = ne / Fraction(m * (m - 1), 2) if m > 1 else None
        cen = Fraction(sum(max(deg[v] for v in ms) - deg[v] for v in ms), (m - 1) * (m - 2)) if m > 2 else None
        clusters.append((c, m, ne, dens, cen))
    return nodes, edges, clusters


def close(a, b):
    if a is None or b is None:
        return a is b
    return abs(a - b) <= Fraction(1, 10 ** 9)


def py_diff(case, impl):
    nodes, edges, clusters = canon(case, impl)
    sn, se, sc = py_spec(case)
    out = []
    if len(nodes) != len(sn) or any(a[:3] != b[:3] or not close(a[3], b[3]) for a, b in zip(nodes, sn)):
        out.append("nodes")
    if edges != se:
        out.append("edges")
    if len(clusters) != len(sc) or any(a[:2] != b[:2] or not all(close(x, y) for x, y in zip(a[2:], b[2:])) for a, b in zip(clusters, sc)):
        out.append("clusters")
    return out


def case_term(case, impl):
    nodes, edges, clusters = canon(case, impl)
    n = len(case["nodes"])
    C = coq_list([f"({coq_Z(v)}, {coq_Z(case['clusters'][v])})" for v in range(n)], "crow")
    P = coq_list([f"({coq_Z(a)}, {coq_Z(b)}, {coq_Q(Fraction(p, DEN))})" for a, b, p in case["edges"]], "pedge")
    N = coq_list([f"({coq_Z(v)}, {coq_Z(c)}, {coq_Z(d)}, {coq_Q(q)})" for v, c, d, q in nodes], "nmrow")
    E = coq_list([f"({coq_Z(a)}, {coq_Z(b)}, {coq_opt(f, coq_bool)})" for a, b, f in edges], "(Z * Z * option bool)")
    K = coq_list([f"({coq_Z(c)}, {coq_Z(m)}, {coq_Q(ne)}, {coq_opt(d, coq_Q)}, {coq_opt(z, coq_Q)})" for c, m, ne, d, z in clusters],
                 "(Z * Z * Q * option Q * option Q)")
    return f"({coq_Q(Fraction(case['thr'], DEN))}, {C}, {P}, {N}, {E}, {K})"


def jsonable(t):
    return [[str(x) if isinstance(x, Fraction) else x for x in row] for row in t]


def shrink(case, fails):
    changed = True
    while changed:
        changed = False
        for k in range(len(case["edges"])):
            c2 = json.loads(json.dumps(case))
            c2["nodes"] = [tuple(x) for x in c2["nodes"]]
            c2["edges"] = [tuple(x) for x in c2["edges"]]
            del c2["edges"][k]
            if not any(p >= c2["thr"] for _, _, p in c2["edges"]):
                continue
            try:
                if fails(c2):
                    case, changed = c2, True
                    break
            except Exception:
                pass
    return case


def fails(case):
    c = dict(case)
    if c["mode"] == "real":
        c["mode"] = "components"
    return bool(py_diff(c, run_impl(c)))


def report(ctx, case, reported):
    base = dict(case, mode="components" if case["mode"] == "real" else case["mode"])
    try:
        which0 = py_diff(base, run_impl(dict(base)))
    except Exception as e:                      # the implementation raises on this input
        which0 = ["raises:" + type(e).__name__]
    key = json.dumps([which0, case["backend"]])
    if key in reported or len(reported) >= 4:
        return
    reported.add(key)
    small = base
    try:
        if which0 and not which0[0].startswith("raises"):
            small = shrink(base, fails)
    except Exception:
        pass
    impl = run_impl(dict(small))
    which = py_diff(small, impl)
    f = {"tables": which, "multigraph": bool(small.get("multigraph")), "backend": small["backend"]}
    nodes, edges, clusters = canon(small, impl)
    sn, se, sc = py_spec(small, definition=True)
    ctx.violation(f"compute_graph_metrics differs from the graph-theoretic definitions in {which or 'model comparison'} ({small['backend']})",
                  {"case": small,
                   "implementation": {"nodes": jsonable(nodes), "edges": jsonable(edges), "clusters": jsonable(clusters)},
                   "specification": {"nodes": jsonable(sn), "edges": jsonable(se), "clusters": jsonable(sc)},
                   "note": "ids are row indexes into case.nodes; cluster ids are the index of the cluster's representative record"},
                  f)


def count(ctx, case):
    te = [e for e in case["edges"] if e[2] >= case["thr"]]
    n = len(case["nodes"])
    sizes = {}
    for c in case["clusters"]:
        sizes[c] = sizes.get(c, 0) + 1
    touched = {a for a, _, _ in te} | {b for _, b, _ in te}
    nontrivial = len(te) >= 2 and max(sizes.values()) >= 3 and len(touched) < n or len(te) >= 4
    ctx.count_case(json.dumps(case, sort_keys=True), nontrivial,
                   {"backend": case["backend"], "link": case["link"], "nodes": n, "edges_at_threshold": len(te),
                    "clusters": len(sizes), "mode": case["mode"], "components": case["kinds"]})
    ctx.hist("backend", case["backend"])
    ctx.hist("link_type", case["link"])
    ctx.hist("clustering", case["mode"])
    ctx.hist("n_nodes", n)
    ctx.hist("isolated_nodes", n - len(touched))
    ctx.hist("multigraph", bool(case.get("multigraph")))
    for k in case["kinds"]:
        ctx.hist("component_kind", k)


def correspondence(ctx: Ctx):
    plan = [("duckdb", 150 if ctx.quick else 2000), ("sqlite", 150 if ctx.quick else 2000)]
    terms, cases = [], []
    reported = set()
    for backend, cnt in plan:
        for i in range(cnt):
            case = gen_case(ctx.rng, backend)
            if case["mode"] == "real" and i % 2:
                case["thr_from_metadata"] = True
            try:
                impl = run_impl(case)
            except Exception as ex:  # noqa: BLE001
                count(ctx, case)
                f = {"raises": type(ex).__name__, "backend": backend, "calls_on_linker": 1}
                if json.dumps(f, sort_keys=True) not in reported:
                    reported.add(json.dumps(f, sort_keys=True))
                    ctx.violation(f"compute_graph_metrics raises {type(ex).__name__} on an input with a defined answer ({backend})",
                                  {"case": case, "implementation": {"raised": f"{type(ex).__name__}: {str(ex)[:400]}"}}, f)
                continue
            count(ctx, case)
            terms.append(case_term(case, impl))
            cases.append(case)
    # histories of 2-3 calls on one linker
    hist_terms, hist_meta = [], []
    raised = []
    for backend, cnt in (("duckdb", 110 if ctx.quick else 1200), ("sqlite", 110 if ctx.quick else 1200)):
        for _ in range(cnt):
            hist = gen_history(ctx.rng, backend)
            res = run_history(hist)
            ctx.hist("calls_per_linker", len(hist["calls"]))
            for k, (c, r) in enumerate(zip(hist["calls"], res)):
                cc = call_case(hist, k)
                count(ctx, cc)
                ctx.hist("history_call_kind", c["kind"])
                ctx.hist("threshold_passed", c["pass"] + ("" if c["meta_thr"] is not None else "/no-metadata"))
                ctx.hist("threshold_boundary", "0.0" if c["thr"] == 0 else "1.0" if c["thr"] == DEN else "inner")
                if "raised" in r:
                    raised.append((hist, k))
                    continue
                cc = effective_case(hist, k, r)
                hist_terms.append(case_term(cc, r))
                hist_meta.append((hist, k))
    ctx.obligation(f"no call raises on an input with a defined answer ({len(raised)} raised)", not raised)
    for hist, k in raised:
        report_history(ctx, hist, k, reported)
    hbad, herrs = ctx.eval_cases("C19_h", HEADER, hist_terms, "run_case", shard=80)
    for e in herrs:
        ctx.obligation("history shard evaluation", False, e)
    ctx.obligation(f"correspondence: every call of {len(hist_meta)} calls in multi-call histories = Gallina model", not hbad and not herrs)
    for i in hbad:
        report_history(ctx, hist_meta[i][0], hist_meta[i][1], reported)
    if herrs and not hbad:
        ctx.violation("correspondence C19_h could not be evaluated", {"broken": "C19_h", "errors": herrs}, found_input=False)
    bad, errs = ctx.eval_cases("C19_x", HEADER, terms, "run_case", shard=80)
    for e in errs:
        ctx.obligation("correspondence shard evaluation", False, e)
    ctx.obligation(f"correspondence: nodes / edges / clusters tables = Gallina model on {len(terms)} runs", not bad and not errs)
    for i in bad:
        report(ctx, cases[i], reported)
    if errs and not bad:
        ctx.violation("correspondence C19_x could not be evaluated", {"broken": "C19_x", "errors": errs}, found_input=False)
    known_witnesses(ctx)


def known_witnesses(ctx: Ctx):
    """KF-C19-crossing-edges (C19_n_edges_crossing_refuted on the real code), replayed on every run."""
    hit = []
    for backend in ("duckdb", "sqlite"):
        reproduced, details = crossing_edges_witness(backend)
        ctx.cov["evaluations"] += 1
        if reproduced:
            hit.append(backend)
            ctx.violation("compute_graph_metrics: n_edges = SUM(node_degree)/2 counts an edge leaving the cluster as one half "
                          f"(clusters {{0,1}},{{2,3}}, edges 0-1, 1-2, 2-3: n_edges 1.5, density 1.5; {backend})",
                          {"case": {"records": [0, 1, 2, 3], "clusters": {"0": [0, 1], "2": [2, 3]},
                                    "predictions": [[0, 1, 0.9], [1, 2, 0.9], [2, 3, 0.9]], "threshold": 0.5},
                           "implementation": details["clusters_table"],
                           "specification": {"edges_inside_each_cluster": details["edges_inside_each_cluster"]}},
                          {"kind": "crossing_edges_n_edges", "backend": backend})
    if not hit:
        ctx.expect_known("KF-C19-crossing-edges", False, "n_edges now equals the number of edges inside each cluster on the witness")


def replay(ctx: Ctx):
    d = json.loads(open(ctx.replay).read())
    if "history" in d:
        hist = d["history"]
        hist["nodes"] = [tuple(x) for x in hist["nodes"]]
        for c in hist["calls"]:
            c["edges"] = [tuple(x) for x in c["edges"]]
        k = len(hist["calls"]) - 1
        count(ctx, call_case(hist, k))
        failing = history_fails(hist)
        ctx.obligation("replayed history: last call agrees with the definitions", not failing)
        if failing:
            report_history(ctx, hist, k, set())
        return
    case = d["case"]
    case["nodes"] = [tuple(x) for x in case["nodes"]]
    case["edges"] = [tuple(x) for x in case["edges"]]
    count(ctx, case)
    try:
        impl = run_impl(case)
    except Exception as ex:  # noqa: BLE001
        ctx.obligation("replayed case does not raise", False, repr(ex))
        ctx.violation(f"replay: compute_graph_metrics raises {type(ex).__name__} on an input with a defined answer",
                      {"case": case, "implementation": {"raised": f"{type(ex).__name__}: {str(ex)[:400]}"}},
                      {"raises": type(ex).__name__, "backend": case["backend"], "calls_on_linker": 1})
        return
    bad, errs = ctx.eval_cases("C19_replay", HEADER, [case_term(case, impl)], "run_case", shard=1)
    ctx.obligation("replayed case agrees with the model", not bad and not errs)
    if bad or errs:
        report(ctx, case, set())


def crossing_edges_witness(backend):
    """C19_n_edges_crossing_refuted on the real code: clusters {0,1},{2,3}, edges 0-1, 1-2, 2-3 at 0.9,
    threshold 0.5.  Returns (reproduced, details); reproduced iff some cluster's n_edges differs from
    the number of thresholded edges inside it."""
    from splink import Linker, SettingsCreator
    lk = Linker(pd.DataFrame({"unique_id": [0, 1, 2, 3]}),
                SettingsCreator(link_type="dedupe_only", comparisons=[], blocking_rules_to_generate_predictions=[]), su.make_api(backend))
    su.quiet()
    dp = lk.table_management.register_table(pd.DataFrame({"unique_id_l": [0, 1, 2], "unique_id_r": [1, 2, 3],
                                                          "match_probability": [0.9, 0.9, 0.9]}), "__splink__df_predict_verif_w", overwrite=True)
    dc = lk.table_management.register_table(pd.DataFrame({"cluster_id": [0, 0, 2, 2], "unique_id": [0, 1, 2, 3]}),
                                            "__splink__df_clustered_verif_w", overwrite=True)
    gm = lk.clustering.compute_graph_metrics(dp, dc, threshold_match_probability=0.5)
    rows = sorted((int(r["cluster_id"]), int(r["n_nodes"]), float(r["n_edges"]), None if r["density"] is None else float(r["density"]))
                  for r in gm.clusters.as_record_dict())
    inside = {0: 1, 2: 1}
    reproduced = any(ne != inside[c] for c, _, ne, _ in rows)
    return reproduced, {"backend": backend, "clusters_table": rows, "edges_inside_each_cluster": inside,
                        "model_predicts": [[0, 2, 1.5, 1.5], [2, 2, 1.5, 1.5]]}
