"""C07 realtime part: realtime.compare_records and its module-level SQLCache.

 T  translators/c07_realtime.py reads the key ingredients off the source (fail-closed) and observes them on the real
    SQLCache; `rt_params_ok` is evaluated in Coq on the extracted parameters.
 X  event sequences over SettingsCreator objects (created, garbage collected, new ones allocated until an id() is
    reused), settings dicts with plain values, settings dicts holding creator objects that differ only in
    ComparisonCreator.configure(), both flags and both cache modes.  Every call's answer is compared with an uncached
    reference computed for a settings object of its own (oracle) and (own SQL?, flag, cached path) with `rt_run` of
    Model/Cache.v evaluated in Coq on the same events; `rt_wf` is evaluated on every sequence.
"""
from __future__ import annotations

import gc

from harness import c07_x as X
from harness import splink_util as su
from harness.common import Ctx, coq_bool, coq_list, coq_nat
from translators import c07_realtime as T

RECS = [{"unique_id": 1, "first_name": "ann", "surname": "x", "city": "l", "tf_first_name": 0.125},
        {"unique_id": 2, "first_name": "ann", "surname": "x", "city": "m", "tf_first_name": 0.125},
        {"unique_id": 3, "first_name": "ann", "surname": "y", "city": "l", "tf_first_name": 0.125},
        {"unique_id": 4, "first_name": "bob", "surname": "x", "city": "l", "tf_first_name": 0.25}]
N_MODELS = 6          # configure() variants: conf = model % 6, base = model // 6 (0 or 1)

RT_HEADER = X.HEADER + """
Definition rt_obs_eqb (a b : bool * bool * bool) : bool :=
  match a, b with (a1, a2, a3), (b1, b2, b3) => Bool.eqb a1 b1 && Bool.eqb a2 b2 && Bool.eqb a3 b3 end.
(* per event: None for a collection, Some (own SQL used, flag of the SQL used, cached path) for a call *)
Definition rt_project (ev : rt_event) (o : option (sqlid * bool * bool)) : option (bool * bool * bool) :=
  match ev, o with
  | RtCall s _ _, Some (q, f, c) => Some (sqlid_eqb q (rt_sql s), f, c)
  | _, _ => None
  end.
Definition rt_opt_eqb (a b : option (bool * bool * bool)) : bool :=
  match a, b with Some x, Some y => rt_obs_eqb x y | None, None => true | _, _ => false end.
Definition rt_case (c : rt_params * option bool * list rt_event * list (option (bool * bool * bool))) : bool :=
  match c with (P, expect_wf, evs, obsv) =>
    match expect_wf with Some b => Bool.eqb (rt_wf ([], []) evs) b | None => true end &&
    lst_eqb rt_opt_eqb (map (fun eo => rt_project (fst eo) (snd eo)) (combine evs (rt_run P ([], []) evs))) obsv end.
"""


SHAPES = ("full", "no_tf", "extra", "reordered")


def shaped(rec: dict, shape: str) -> dict:
    """The same record with another column set: without its term-frequency column, with a column the model does not use,
    with the columns in the opposite order."""
    if shape == "no_tf":
        return {k: v for k, v in rec.items() if not k.startswith("tf_")}
    if shape == "extra":
        return {**rec, "note": "n/a", "zz_score": 1.5}
    if shape == "reordered":
        return dict(reversed(list(rec.items())))
    return dict(rec)


def settings_of(model: int):
    """SettingsCreator for a model id (its comparisons carry the configure() values of the model)."""
    from splink import SettingsCreator
    return SettingsCreator(**T.creators_dict(model % N_MODELS, model // N_MODELS))


def plain_dict(model: int, dialect: str) -> dict:
    d = settings_of(model).create_settings_dict(dialect)
    d.pop("linker_uid", None)
    return d


def result_rows(res):
    rows = su.records(res)
    for r in rows:
        r.pop("match_key", None)
    return rows


class RtWorld:
    """Keeps the live SettingsCreator objects, assigns model-side identities and records the event list."""

    def __init__(self, backend: str, params: dict):
        import splink.internals.realtime as R
        R._sql_cache = R.SQLCache()
        self.api = su.make_api(backend)
        self.backend = backend
        self.params = params
        self.objs: dict[int, object] = {}        # gen -> live SettingsCreator
        self.info: dict[int, tuple] = {}         # gen -> (address token, model)
        self.addr_tokens: dict[int, int] = {}
        self.next_gen = 0
        self.events: list[str] = []
        self.obs: list[str] = []
        self.log: list = []
        self.problems: list[dict] = []
        self.mutated = False
        self.expect_not_wf = False
        self.outside_model = None                # why this world has no Coq case (file rewritten / second DatabaseAPI)
        self.tmp = None
        self.file_model: dict[int, int] = {}     # slot -> model the file describes now
        self.other_api = None

    # ---- settings files: <tmp>/d<slot>/model.json, the same basename in every directory
    def path_of(self, slot: int) -> str:
        import os, tempfile
        if self.tmp is None:
            self.tmp = tempfile.mkdtemp(prefix="c07rt_")
        d = os.path.join(self.tmp, f"d{slot}")
        os.makedirs(d, exist_ok=True)
        return os.path.join(d, "model.json")

    def write_file(self, slot: int, model: int):
        import json
        if slot in self.file_model and self.file_model[slot] != model:
            self.outside_model = "settings file rewritten between calls (Model/Cache.v: RStr p stands for one fixed content)"
        with open(self.path_of(slot), "w") as f:
            json.dump(plain_dict(model, self.api.sql_dialect.sql_dialect_str), f)
        self.file_model[slot] = model
        self.log.append(("write_file", slot, model))

    def second_api(self):
        """A second DatabaseAPI of the other dialect in the same process (the SQL cache is module-global)."""
        if self.other_api is None:
            self.other_api = su.make_api("sqlite" if self.backend == "duckdb" else "duckdb")
            self.outside_model = "second DatabaseAPI of another dialect (the model has no dialect component)"
        return self.other_api

    def close(self):
        import shutil
        if self.tmp:
            shutil.rmtree(self.tmp, ignore_errors=True)

    # ---- objects
    def token(self, obj) -> int:
        return self.addr_tokens.setdefault(id(obj), len(self.addr_tokens))

    def new_object(self, model: int, want_addr: int | None = None, tries: int = 400):
        """Allocates a SettingsCreator; with want_addr keeps allocating (holding the misses) until the address is reused."""
        keep = []
        obj = None
        for _ in range(tries if want_addr is not None else 1):
            obj = settings_of(model)
            if want_addr is None or id(obj) == want_addr:
                break
            keep.append(obj)
            obj = None
        reused = obj is not None and want_addr is not None
        if obj is None:
            obj = keep.pop()
        del keep
        g = self.next_gen
        self.next_gen += 1
        self.objs[g] = obj
        self.info[g] = (self.token(obj), model)
        return g, reused

    def mutate(self, g: int, model: int):
        """The caller changes the comparisons of a live SettingsCreator object (same object, same id(), other model)."""
        self.objs[g].comparisons = T.creators_dict(model % N_MODELS, model // N_MODELS)["comparisons"]
        self.info[g] = (self.info[g][0], model)
        self.mutated = True
        self.log.append(("mutate", g, model))

    def delete(self, g: int) -> int:
        addr = id(self.objs[g])
        del self.objs[g]
        gc.collect()
        self.events.append(f"(RtDel {coq_nat(g)})")
        self.obs.append("None")
        self.log.append(("del", g))
        return addr

    # ---- calls
    def call(self, kind: str, ident, use_cache: bool, flag: bool, pair=(0, 1), reference: bool = True, other: bool = False,
             shape: str = "full"):
        """kind: 'obj' (ident = gen), 'dict' (ident = model, plain values), 'cdict' (ident = model, creator objects),
        'str' / 'path' (ident = file slot; the settings argument is the file name as str / pathlib.Path).
        other=True runs the call (and its reference) on the second DatabaseAPI."""
        from pathlib import Path
        from splink.internals.realtime import compare_records
        import splink.internals.realtime as R
        a, b = shaped(RECS[pair[0]], shape), shaped(RECS[pair[1]], shape)
        api = self.second_api() if other else self.api
        dialect = api.sql_dialect.sql_dialect_str
        if kind in ("str", "path"):
            settings, model = (self.path_of(ident) if kind == "str" else Path(self.path_of(ident))), self.file_model[ident]
            term = f"(RStr {coq_nat(ident)})"
        elif kind == "obj":
            settings, model = self.objs[ident], self.info[ident][1]
            term = f"(RObj {coq_nat(self.info[ident][0])} {coq_nat(ident)} {coq_nat(model)})"
        elif kind == "dict":
            settings, model = plain_dict(ident, dialect), ident
            term = f"(RDict {coq_nat(100 + ident)} 0)"
        else:
            settings, model = T.creators_dict(ident % N_MODELS, ident // N_MODELS), ident
            term = f"(RDict {coq_nat(ident // N_MODELS)} {coq_nat(ident % N_MODELS)})"
        # reference: the same arguments on a settings object of its own, no SQL cache; it is an event like any other
        ref_rows, ref_err, err = None, None, None
        if reference or shape != "full":
            rg, _ = self.new_object(model)
            try:
                ref_rows = result_rows(compare_records(a, b, self.objs[rg], api, use_sql_from_cache=False,
                                                       include_found_by_blocking_rules=flag))
            except Exception as e:  # noqa: BLE001
                ref_err = f"{type(e).__name__}: {e}"[:200]
            if ref_err is None:       # a call that raises stores nothing (checked below for the call itself): not an event
                self.events.append(f"(RtCall (RObj {coq_nat(self.info[rg][0])} {coq_nat(rg)} {coq_nat(model)}) false {coq_bool(flag)})")
                self.obs.append(f"(Some (true, {coq_bool(flag)}, false))")
                self.log.append(("ref", rg, model, flag))
            self.delete(rg)
        keys_before = set(R._sql_cache._cache)
        try:
            res = compare_records(a, b, settings, api, use_sql_from_cache=use_cache, include_found_by_blocking_rules=flag)
        except Exception as e:  # noqa: BLE001
            err = f"{type(e).__name__}: {e}"[:200]
        if err is not None or ref_err is not None:
            # records the model cannot score (a needed column is missing): cached and uncached call must fail alike and the
            # failing call must leave the SQL cache alone
            if (err is None) != (ref_err is None) or set(R._sql_cache._cache) != keys_before:
                self.problems.append({"call": (kind, ident, use_cache, flag), "model": model, "cached_path": None, "dialect": dialect,
                                      "difference": {"why": "raised", "records": shape, "cached": err, "uncached": ref_err,
                                                     "cache_keys_changed": set(R._sql_cache._cache) != keys_before},
                                      "events_so_far": list(self.log)})
            self.log.append(("failed_call", kind, ident, use_cache, flag, shape))
            if err is None:
                self.outside_model = "a call succeeded although its uncached reference raised"
            return False
        rows = result_rows(res)
        cached_path = res.physical_name.startswith("__splink__realtime_compare_records_")
        has_flag = bool(rows) and "found_by_blocking_rules" in rows[0]
        own = True
        if ref_rows is not None and rows and ref_rows:
            common = sorted(set(rows[0]) & set(ref_rows[0]))
            d_vals = X.table_diff([{c: r[c] for c in common} for r in rows], [{c: r[c] for c in common} for r in ref_rows])
            own = d_vals is None                       # the SQL of another model gives other weights
            d = d_vals
            if d is None and set(rows[0]) != set(ref_rows[0]):
                d = {"why": "columns", "cached": sorted(set(rows[0]) - set(ref_rows[0])), "uncached": sorted(set(ref_rows[0]) - set(rows[0]))}
            if d is not None:
                self.problems.append({"call": (kind, ident, use_cache, flag), "model": model, "cached_path": cached_path,
                                      "dialect": dialect,
                                      "difference": d, "events_so_far": list(self.log)})
        self.events.append(f"(RtCall {term} {coq_bool(use_cache)} {coq_bool(flag)})")
        self.obs.append(f"(Some ({coq_bool(own)}, {coq_bool(has_flag)}, {coq_bool(cached_path)}))")
        self.log.append(("call", kind, ident, use_cache, flag, {"cached_path": cached_path, "own": own, "dialect": dialect,
                                                                 "records": shape}))
        return cached_path

    def coq_case(self) -> str:
        p = self.params
        P = (f"{{| rp_flag_in_key := {coq_bool(p['rp_flag_in_key'])}; rp_configured_in_key := {coq_bool(p['rp_configured_in_key'])}; "
             f"rp_liveness_called := {coq_bool(p['rp_liveness_called'])}; rp_content_in_key := {coq_bool(p['rp_content_in_key'])} |}}")
        wf = "(Some true)" if not self.mutated else ("(Some false)" if self.expect_not_wf else "None")
        return (f"({P}, {wf}, {coq_list(self.events, 'rt_event')}, "
                f"{coq_list(self.obs, '(option (bool * bool * bool))')})")


# ------------------------------------------------------------------------------------------ scenarios
def scenario_id_reuse(ctx: Ctx, backend: str, params: dict, attempts: int):
    """A batch of SettingsCreator objects is used through the cache and collected; new objects with a DIFFERENT model are
    allocated until some of them land on the addresses of collected ones (CPython reuses freed blocks readily)."""
    w = RtWorld(backend, params)
    reused_any = False
    for k in range(attempts):
        m_old = k % N_MODELS
        m_new = (m_old + 1 + k // N_MODELS) % N_MODELS
        if m_new == m_old:
            m_new = (m_new + 1) % N_MODELS
        batch = [w.new_object(m_old)[0] for _ in range(24)]
        for g in batch:
            w.call("obj", g, True, False, reference=False)          # fills the cache under id(object)
        w.call("obj", batch[0], True, False, reference=False)       # ... and is served from it while the object lives
        freed = {w.delete(g) for g in batch}
        hits, keep = [], []
        for _ in range(300):
            o = settings_of(m_new)
            if id(o) in freed and len(hits) < 3:
                hits.append(o)
                freed.discard(id(o))
            else:
                keep.append(o)
            if len(hits) == 3:
                break
        del keep
        for o in hits:
            g = w.next_gen
            w.next_gen += 1
            w.objs[g] = o
            w.info[g] = (w.token(o), m_new)
            w.call("obj", g, True, False)
        del hits, o
        reused_any = reused_any or any(True for e in w.log if e[0] == "call" and e[1] == "obj" and w.info[e[2]][1] == m_new)
        ctx.hist("realtime_id_reused", reused_any)
        if reused_any and ctx.quick:
            break
    return w, reused_any


def scenario_mutation(ctx: Ctx, backend: str, params: dict):
    """One SettingsCreator object whose comparisons are replaced between cached calls."""
    w = RtWorld(backend, params)
    g, _ = w.new_object(0)
    w.call("obj", g, True, False)
    w.call("obj", g, True, False)
    for m in ([1, 4] if ctx.quick else [1, 4, 2, 0]):
        w.mutate(g, m)
        w.call("obj", g, True, False)
        w.call("obj", g, True, True)
    w.expect_not_wf = True          # the same object carries different models: exactly what rt_wf excludes
    return w


def scenario_creator_dicts(ctx: Ctx, backend: str, params: dict):
    """Settings dicts holding creator objects that differ only in ComparisonCreator.configure(...)."""
    w = RtWorld(backend, params)
    order = [0, 1, 0, 2, 3, 1, 5, 0] if not ctx.quick else [0, 1, 0, 3, 1]
    for i, m in enumerate(order):
        w.call("cdict", m, True, False, pair=(0, 1 + i % 3))
    w.call("cdict", N_MODELS + 1, True, False)             # another base with the same configure() values as model 1
    w.call("cdict", 1, True, True)
    return w


def scenario_paths(ctx: Ctx, backend: str, params: dict):
    """Settings given as file names (str and pathlib.Path): two files with the same basename in different directories
    describe different models; str and Path of one file share an entry.  Inside the model (RStr p, p = the file)."""
    w = RtWorld(backend, params)
    w.write_file(0, 0)
    w.write_file(1, 4)
    w.write_file(2, 0 + N_MODELS)
    for kind, slot, flag in [("str", 0, False), ("str", 1, False), ("path", 0, False), ("path", 1, False), ("str", 2, False),
                             ("path", 2, True), ("str", 1, True), ("str", 0, False)]:
        w.call(kind, slot, True, flag, pair=(0, 1 + slot))
    return w


def scenario_file_rewritten(ctx: Ctx, backend: str, params: dict):
    """The settings file is replaced by another model between two cached calls with the same file name.  Outside the
    model (no Coq case): judged by the uncached reference only."""
    w = RtWorld(backend, params)
    w.write_file(0, 0)
    w.call("str", 0, True, False)
    w.call("path", 0, True, False)
    w.write_file(0, 4)
    w.call("str", 0, True, False)
    w.call("path", 0, True, False)
    return w


def scenario_two_apis(ctx: Ctx, backend: str, params: dict):
    """The same settings (object, plain dict, creator dict, file) used on a DuckDBAPI and a SQLiteAPI in one process: the
    module-global SQL cache is shared; only the object branch of _cache_id looks at the dialect.  Outside the model (no
    Coq case): judged by the uncached reference on the same DatabaseAPI."""
    w = RtWorld(backend, params)
    w.second_api()
    w.write_file(0, 2)
    g, _ = w.new_object(2)
    for kind, ident in [("obj", g), ("dict", 2), ("cdict", 2), ("str", 0), ("path", 0)]:
        for other in (False, True, False, True):
            w.call(kind, ident, True, False, other=other)
        w.call(kind, ident, True, True, other=True)
    return w


def scenario_record_shapes(ctx: Ctx, backend: str, params: dict):
    """The same settings, records with different column sets from call to call (without the tf column - the model cannot
    score those on the unchanged code, both modes raise -, with unused extra columns, columns reordered): the cached SQL
    belongs to the settings, not to the records it was generated for."""
    w = RtWorld(backend, params)
    g, _ = w.new_object(2)
    w.write_file(0, 2)
    for kind, ident in [("obj", g), ("cdict", 3), ("str", 0)]:
        for shape in ("no_tf", "full", "extra", "full", "reordered", "no_tf", "full"):
            w.call(kind, ident, True, False, pair=(0, 3), shape=shape)
        w.call(kind, ident, True, True, pair=(0, 3), shape="extra")
    return w


def scenario_random(ctx: Ctx, backend: str, params: dict, n: int):
    rng = ctx.rng
    w = RtWorld(backend, params)
    live: list[int] = []
    freed: list[int] = []
    for _ in range(n):
        k = rng.choices(["obj", "new", "del", "dict", "cdict", "mut"], [5, 2, 2, 2, 3, 2 if params["rp_content_in_key"] else 0])[0]
        if k == "mut":
            if live:
                w.mutate(rng.choice(live), rng.randrange(2 * N_MODELS))
            continue
        flag = rng.random() < 0.4
        uc = rng.random() < 0.75
        if k == "new" or (k == "obj" and not live):
            g, _ = w.new_object(rng.randrange(2 * N_MODELS), want_addr=freed.pop() if freed and rng.random() < 0.7 else None, tries=60)
            live.append(g)
            k = "obj"
        if k == "del" and live:
            g = live.pop(rng.randrange(len(live)))
            freed.append(w.delete(g))
            continue
        if k == "del":
            continue
        shape = rng.choice(SHAPES) if rng.random() < 0.35 else "full"
        if k == "obj":
            w.call("obj", rng.choice(live), uc, flag, pair=tuple(rng.sample(range(4), 2)), shape=shape)
        else:
            w.call(k, rng.randrange(2 * N_MODELS), uc, flag, pair=tuple(rng.sample(range(4), 2)), shape=shape)
    return w


def realtime_stage(ctx: Ctx, fixes: dict):
    # ---- T
    params, problems, details = T.params()
    ctx.cov["realtime_key_ingredients"] = {"params": params, "details": details}
    ctx.obligation("T realtime: SQLCache.get / _cache_id / compare_records have a recognised shape and the behavioural probes agree",
                   not problems, "; ".join(problems))
    if params["rp_flag_in_key"] is None:
        params["rp_flag_in_key"] = bool(fixes["fx78"])
    txt = (RT_HEADER + f"\nEval vm_compute in (rt_params_ok {{| rp_flag_in_key := {coq_bool(params['rp_flag_in_key'])}; "
           f"rp_configured_in_key := {coq_bool(params['rp_configured_in_key'])}; "
           f"rp_liveness_called := {coq_bool(params['rp_liveness_called'])}; "
           f"rp_content_in_key := {coq_bool(params['rp_content_in_key'])} |}}).\n")
    ok, out = ctx.coqc_text("C07_rt_T", txt)
    good = ok and "= true" in " ".join(out.split())
    ctx.obligation("T realtime: the extracted key ingredients are those C07_realtime_cache_transparent needs (rt_params_ok)", good,
                   str(params))
    if problems or not good:
        ctx.log(f"realtime key ingredients: {params} problems: {problems}")
    # ---- X
    worlds = []
    for backend in ("duckdb", "sqlite"):
        w, reused = scenario_id_reuse(ctx, backend, params, attempts=4 if ctx.quick else 12)
        worlds.append(("id_reuse", backend, w))
        ctx.cov[f"realtime_id_reuse_achieved_{backend}"] = reused
        worlds.append(("creator_dicts", backend, scenario_creator_dicts(ctx, backend, params)))
        worlds.append(("mutation", backend, scenario_mutation(ctx, backend, params)))
        worlds.append(("paths", backend, scenario_paths(ctx, backend, params)))
        worlds.append(("record_shapes", backend, scenario_record_shapes(ctx, backend, params)))
        worlds.append(("file_rewritten", backend, scenario_file_rewritten(ctx, backend, params)))
        worlds.append(("two_apis", backend, scenario_two_apis(ctx, backend, params)))
        for _ in range((3 if backend == "duckdb" else 1) if ctx.quick else (24 if backend == "duckdb" else 8)):
            worlds.append(("random", backend, scenario_random(ctx, backend, params, ctx.rng.randint(6, 10 if ctx.quick else 18))))
    ctx.obligation("realtime: a SettingsCreator address was reused after collection in at least one scenario (else the id() scenario is vacuous)",
                   any(ctx.cov.get(f"realtime_id_reuse_achieved_{b}") for b in ("duckdb", "sqlite")))
    reported = 0
    per_kind: dict[str, int] = {}
    for kind, backend, w in worlds:
        ncalls = sum(1 for e in w.log if e[0] == "call")
        ctx.count_case(("realtime", kind, backend, tuple(map(str, w.log))), ncalls >= 3,
                       {"realtime_scenario": kind, "backend": backend, "events": len(w.log)})
        ctx.hist("realtime_scenario", kind)
        for e in w.log:
            if e[0] == "failed_call":
                ctx.hist("realtime_records", e[5] + " (raises)")
            if e[0] == "call":
                ctx.hist("realtime_records", e[5].get("records", "full"))
                ctx.hist("realtime_cached_path", e[5]["cached_path"])
                ctx.hist("realtime_settings_kind", e[1])
        for pb in w.problems:
            reported += 1
            per_kind[kind] = per_kind.get(kind, 0) + 1
            if per_kind[kind] > 2:                  # at most two reports per scenario kind; every kind gets its own
                break
            feats = {"scenario": "realtime_cache", "settings_kind": pb["call"][0]}
            if kind == "file_rewritten" and pb["call"][0] in ("str", "path") and pb["cached_path"]:
                feats = {"scenario": "realtime_settings_file_rewritten", "settings_kind": pb["call"][0],
                         "served": "sql_of_previous_file_content"}
            if pb["difference"].get("why") == "raised" or (kind == "record_shapes" and pb["cached_path"]):
                feats = {"scenario": "realtime_cache_sql_depends_on_records", "settings_kind": pb["call"][0]}
            if kind == "two_apis":
                feats = {"scenario": "realtime_two_database_apis", "settings_kind": pb["call"][0], "dialect": pb["dialect"]}
            if kind == "mutation" and not params["rp_content_in_key"]:
                feats = {"scenario": "realtime_mutated_settings_object"}
            if not params["rp_flag_in_key"] and pb["difference"].get("why") == "columns":
                feats = {"scenario": "realtime_flag_after_cached_call"}
            ctx.violation("compare_records served from the realtime SQL cache differs from the uncached answer for the same settings "
                          f"({kind})",
                          {"case": pb["events_so_far"] + [("call",) + tuple(pb["call"])], "backend": backend, "implementation": pb["difference"],
                           "specification": "identical to compare_records(..., use_sql_from_cache=False) on a settings object of its own",
                           "key_ingredients": params}, feats)
    ctx.obligation("oracle realtime: every call equals its uncached reference", reported == 0)
    for _, _, w in worlds:
        w.close()
    ctx.cov["realtime_worlds_outside_model"] = sorted({f"{k}: {w.outside_model}" for k, _, w in worlds if w.outside_model})
    worlds = [x for x in worlds if x[2].outside_model is None]
    terms = [w.coq_case() for _, _, w in worlds]
    bad, errs = ctx.eval_cases("C07_rt", RT_HEADER, terms, "rt_case", shard=20)
    ctx.obligation("correspondence realtime: (own SQL, flag, cached path) of every call equals rt_run on the extracted key ingredients; "
                   "every sequence is rt_wf", not bad and not errs, "; ".join(errs)[:800])
    for i in bad[:2]:
        kind, backend, w = worlds[i]
        ctx.violation("realtime SQL cache behaves differently from the model",
                      {"case": w.log, "backend": backend, "implementation": w.obs, "specification": "rt_run of Model/Cache.v",
                       "key_ingredients": params}, {"model_mismatch": True, "scenario": "realtime_cache"})
    if errs and not bad:
        ctx.violation("realtime model evaluation failed", {"broken": "C07_rt", "errors": errs[:2]}, found_input=False)
    if (problems or not good) and reported == 0 and not bad:
        ctx.violation("the key ingredients of realtime.SQLCache are not those the transparency theorem needs",
                      {"broken": "T realtime (translators/c07_realtime.py)", "params": params, "problems": problems},
                      found_input=False)
