"""C16 correspondence (X): the real SQL of every level / comparison evaluated on DuckDB and SQLite on
crafted value pairs, compared with the Gallina model (`sem` under `std_fenv`, inside Coq) or, for
leaves that stay abstract in Coq, with the Python oracle (labelled test)."""
from __future__ import annotations

import datetime as dt
import json
import math
from fractions import Fraction

import duckdb

from harness import c16_oracle as O
from harness import splink_util as su
from harness.common import Ctx, coq_list, coq_string
from translators import c16_levels as T

HEADER = """From Coq Require Import String Ascii Bool ZArith QArith List.
From Splinkv Require Import Base.TV Model.SqlExpr Model.Levels.
Import ListNotations. Open Scope string_scope.
Definition prof (n : nat) : profile := match n with 0%nat => duckdb_profile | 1%nat => sqlite_profile | _ => spark_profile end.
Definition tvc (n : nat) : tv := match n with 0%nat => F | 1%nat => T | _ => U end.
Fixpoint mkenv (hdr : list (bool * string)) (vs : list val) (s : bool) (c : string) : val :=
  match hdr, vs with
  | (s', c') :: h, x :: v => if (Bool.eqb s s' && String.eqb c c')%bool then x else mkenv h v s c
  | _, _ => VNull
  end.
Definition run_batch (c : nat * expr * list (bool * string) * list (list val * list orow * nat)) : bool :=
  match c with (p, e, hdr, rows) =>
    forallb (fun r => match r with (vs, orc, ex) => tv_eqb (sem (prof p) (std_fenv orc) (mkenv hdr vs) e) (tvc ex) end) rows
  end.
Definition run_pick (c : list nat * list Z * Z) : bool :=
  match c with (outs, gammas, got) => Z.eqb (nth (pick (map tvc outs)) gammas (-99)%Z) got end.
"""
PROF = {"duckdb": 0, "sqlite": 1, "spark": 2}
TVC = {False: 0, True: 1, None: 2}

STR_POOL = ["", "a", "ab", "ba", "abc", "ca", "smith", "smyth", "smiht", "Smith", "SMITH", "smithe", "martha", "marhta",
            "dixon", "dicksonx", "kitten", "sitting", "male", "x", "jones", "johnson", "jonhson", "aaaaaaaaab", "aaaaaaaaac",
            "ab cd", "abcd", "abdc", "dwayne", "duane", "crate", "trace", "smith ", "3", "2.5"]
STR_CRAFTED = [("", ""), ("a", ""), ("", "abc"), ("smith", "smith"), ("smith", "smyth"), ("smith", "smiht"), ("Smith", "smith"),
               ("martha", "marhta"), ("dixon", "dicksonx"), ("ab", "ba"), ("ca", "abc"), ("kitten", "sitting"), ("abcd", "abdc"),
               ("jones", "johnson"), ("johnson", "jonhson"), ("aaaaaaaaab", "aaaaaaaaac"), ("male", "male"), ("male", "x"), ("x", "male"),
               ("abc", "abd"), ("abcd", "ab"), ("crate", "trace"), ("dwayne", "duane"), ("smith", "smithe"), ("smith", "smith "),
               ("abcdefgh", "abcdexyz"), ("abcdefgh", "abcdefgh"), ("ab", "abab")]
NUM_POOL = [0, 1, -1, 3, 9, 10, 10.5, 100, 95, 90, -2, -4, 5, 2.25, 0.5, 27, 30, 7.75, 2.5, 12.25, 1000000]
NUM_CRAFTED = [(0, 0), (1, 0), (0, -1), (-2, -4), (3, 9), (10, 10.5), (100, 95), (9, 10), (10, 9), (90, 100), (5, 10), (10, 5), (27, 30),
               (2.5, 2.5), (3, 3), (-1, 1), (0, 5), (7.75, 10), (10, 12.25), (0.5, 1), (1, 1.5), (100, 75), (3, 2.5), (1000000, 999999)]
DATE_STR = ["2000-01-01", "2000-01-02", "2000-01-31", "2000-02-01", "2000-01-30", "1999-12-31", "2001-01-01", "2000-12-31", "2010-01-01",
            "2009-12-31", "1990-06-15", "2000-03-01"]
DATE_BAD = ["2000-13-45", "", "31/01/2000", "not a date", "2000-02-30"]
TS_STR = ["2000-01-01T00:00:00Z", "2000-01-01T02:00:00Z", "2000-01-01T02:00:01Z", "2000-01-31T10:30:00Z", "2000-01-31T10:30:01Z",
          "2000-01-01T00:01:30Z", "2000-01-01T12:00:00Z", "2000-12-31T06:00:00Z", "2001-01-01T00:00:00Z", "1999-12-31T23:59:59Z"]
COORDS = [(0.0, 0.0), (0.0, 180.0), (90.0, 0.0), (-90.0, 0.0), (29.7517, -95.4054), (51.5074, -0.1278), (48.8566, 2.3522), (0.0, 0.1),
          (51.5, -0.1278), (0.0, -180.0), (45.0, 45.0), (-45.0, -135.0), (0.0, 0.009), (51.5074, -0.12)]
ARRS = [[], ["a"], ["a", "b"], ["b", "c"], ["a", "a", "b"], ["a", "b", "a"], ["a", "b", "c"], ["c", "b", "a"], ["smith", "smyth"],
        ["jones"], ["smith"], ["smiht", "jonse"], ["b"], ["a", "b", "c", "d"]]
EMBS = [[1.0, 0.0, 0.0], [0.0, 1.0, 0.0], [1.0, 1.0, 0.0], [2.0, 0.0, 0.0], [-1.0, 0.0, 0.0], [1.0, 2.0, 2.0], [3.0, 4.0, 0.0], [1.0, 1.0, 1.0]]


def with_nulls(pairs, null_val="x"):
    return pairs + [(None, null_val), (null_val, None), (None, None)]


def mutate(rng, s):
    if not s:
        return rng.choice("abc")
    k = rng.randrange(len(s))
    op = rng.choice(["del", "sub", "ins", "swap"])
    if op == "del":
        return s[:k] + s[k + 1:]
    if op == "sub":
        return s[:k] + rng.choice("abxyz") + s[k + 1:]
    if op == "ins":
        return s[:k] + rng.choice("abxyz") + s[k:]
    if k + 1 < len(s):
        return s[:k] + s[k + 1] + s[k] + s[k + 2:]
    return s


def str_pairs(rng, n):
    ps = list(STR_CRAFTED)
    for _ in range(n):
        a = rng.choice(STR_POOL)
        r = rng.random()
        b = rng.choice(STR_POOL) if r < 0.4 else mutate(rng, a) if r < 0.8 else mutate(rng, mutate(rng, a))
        ps.append((a, b))
    return with_nulls(ps)


def num_pairs(rng, n, ints):
    ps = [p for p in NUM_CRAFTED if not ints or all(float(v).is_integer() for v in p)]
    pool = [v for v in NUM_POOL if not ints or float(v).is_integer()]
    for _ in range(n):
        ps.append((rng.choice(pool), rng.choice(pool)))
    return with_nulls(ps, 1)


# ------------------------------------------------------------------------------------------
# tables: kind -> (column sql types, rows).  A row maps column -> (left, right) python values.
# ------------------------------------------------------------------------------------------
def tables(ctx: Ctx):
    rng = ctx.rng
    n = 25 if ctx.quick else 120
    sp = str_pairs(rng, n)
    t = {}
    t["str"] = ({"name": "VARCHAR"}, [{"name": p} for p in sp])
    codes = ["00123", "123", "0123", "AB12", "ab12", "0", "00", "1e3", "1000", "007", "7", "12.0", "12", " 5", "5", "0x10", "16", "A1", "-1", "+1", "1"]
    cps = [(a, b) for a in codes for b in codes if a <= b][: (90 if ctx.quick else 400)] + [(rng.choice(codes), rng.choice(codes)) for _ in range(n)]
    t["code"] = ({"code": "VARCHAR"}, [{"code": p} for p in with_nulls(cps, "00123")])
    t["num"] = ({"amount": "DOUBLE"}, [{"amount": p} for p in num_pairs(rng, n, False)])
    t["int"] = ({"amount": "BIGINT"}, [{"amount": p} for p in num_pairs(rng, n // 2, True)])
    two = []
    pool2 = ["smith", "jones", "smyth", "jonse", "john", "jon", None, "smith"]
    for _ in range(40 if ctx.quick else 150):
        two.append({"fn": (rng.choice(pool2), rng.choice(pool2)), "sn": (rng.choice(pool2), rng.choice(pool2)),
                    "name": (rng.choice(pool2), rng.choice(pool2))})
    two += [{"fn": ("john", "smith"), "sn": ("smith", "john"), "name": ("a", "a")}, {"fn": ("john", "smith"), "sn": ("smith", "jon"), "name": ("a", "b")},
            {"fn": ("john", "john"), "sn": ("smith", "smyth"), "name": (None, "a")}, {"fn": (None, "john"), "sn": ("smith", "smith"), "name": ("a", "a")},
            {"fn": (None, None), "sn": (None, "x"), "name": (None, None)}]
    t["two"] = ({"fn": "VARCHAR", "sn": "VARCHAR", "name": "VARCHAR"}, two)
    ds = DATE_STR + DATE_BAD
    dps = [(a, b) for a in DATE_STR[:6] for b in DATE_STR] + [(rng.choice(ds), rng.choice(ds)) for _ in range(n)] + [(b, DATE_STR[0]) for b in DATE_BAD]
    t["date"] = ({"dob": "VARCHAR"}, [{"dob": p} for p in with_nulls(dps, "2000-01-01")])
    t["date_dmy"] = ({"dob": "VARCHAR"}, [{"dob": p} for p in with_nulls(
        [("01/01/2000", "31/01/2000"), ("01/01/2000", "01/02/2000"), ("31/01/2000", "2000-01-01"), ("15/06/1990", "15/06/1990"), ("01/01/2000", "32/01/2000")], "01/01/2000")])
    tps = [(a, b) for a in TS_STR[:4] for b in TS_STR] + [(rng.choice(TS_STR), rng.choice(TS_STR + ["bad", "2000-01-01"])) for _ in range(n)]
    t["tsstr"] = ({"dob": "VARCHAR"}, [{"dob": p} for p in with_nulls(tps, TS_STR[0])])
    tsv = [dt.datetime.strptime(s, "%Y-%m-%dT%H:%M:%SZ") for s in TS_STR]
    t["ts"] = ({"ts": "TIMESTAMP"}, [{"ts": p} for p in with_nulls([(a, b) for a in tsv[:4] for b in tsv] + [(rng.choice(tsv), rng.choice(tsv)) for _ in range(n)], tsv[0])])
    dts = [dt.date(2000, 1, 31), dt.date(2000, 1, 30), dt.date(2000, 2, 1), dt.date(1999, 1, 31), dt.date(2000, 1, 31)]
    t["dated"] = ({"dob": "DATE"}, [{"dob": p} for p in with_nulls([(a, b) for a in dts for b in dts], dts[0])])
    cps = [(a, b) for a in COORDS[:7] for b in COORDS] + [(rng.choice(COORDS), rng.choice(COORDS)) for _ in range(n)]
    rows = [{"lat": (a[0], b[0]), "lng": (a[1], b[1])} for a, b in cps]
    rows += [{"lat": (None, 1.0), "lng": (1.0, 1.0)}, {"lat": (1.0, 1.0), "lng": (1.0, None)}, {"lat": (None, None), "lng": (None, None)}]
    t["coord"] = ({"lat": "DOUBLE", "lng": "DOUBLE"}, rows)
    aps = [(a, b) for a in ARRS for b in ARRS[:8]] + [(rng.choice(ARRS), rng.choice(ARRS)) for _ in range(n)]
    t["arr"] = ({"arr": "VARCHAR[]"}, [{"arr": p} for p in with_nulls(aps, ["a"])])
    eps = [(a, b) for a in EMBS for b in EMBS]
    t["emb"] = ({"emb": "DOUBLE[3]"}, [{"emb": p} for p in with_nulls(eps, EMBS[0])])
    return t


KIND_TABLE = {"null": None, "exact": None, "null_pattern": "str", "literal": None, "reversed": "two", "metric": "str", "distance_function": "str",
              "cosine": "emb", "absdiff": None, "pctdiff": None, "timediff": None, "km": "coord", "arr_intersect": "arr", "arr_subset": "arr",
              "pairwise": "arr", "compose": "two"}


def tables_for(inst: T.LevelInst, d: str):
    k = inst.kind
    if inst.cols and inst.cols[0].name == "code":
        return ["code"]
    if k in ("null", "exact"):
        return ["num", "int"] if inst.cols[0].name == "amount" else ["str"]
    if k == "literal":
        ty = inst.meta["type"]
        return ["str"] if ty == "string" else ["dated"] if ty == "date" else ["num", "int"]
    if k == "absdiff":
        return ["num", "int"]
    if k == "pctdiff":
        # INTEGER columns too, on every backend (integer division on SQLite was fixed by splink 89a1dbc7; a regression shows
        # up here with features integer_columns and in the dedicated witness of c16.pctdiff_sqlite_integer_witness)
        return ["num", "int"]
    if k == "timediff":
        m = inst.meta
        if not m["is_string"]:
            return ["ts"]
        if m["fmt"]:
            return ["date_dmy"]
        return ["date"] if m["is_date"] else ["tsstr"]
    return [KIND_TABLE[k]]


class Engine:
    def __init__(self, d: str):
        self.d = d
        if d == "duckdb":
            self.con = duckdb.connect()
        else:
            self.con = su.sqlite_api().con
        self.made = set()

    def make_table(self, name, spec):
        if name in self.made:
            return
        types, rows = spec
        if self.d == "sqlite" and any("[" in ty for ty in types.values()):
            raise RuntimeError("arrays unsupported on sqlite")
        cols = []
        for c, ty in types.items():
            ty2 = ty if self.d == "duckdb" else {"VARCHAR": "TEXT", "DOUBLE": "REAL", "BIGINT": "INTEGER", "TIMESTAMP": "TEXT", "DATE": "TEXT"}[ty]
            cols += [f'"{c}_l" {ty2}', f'"{c}_r" {ty2}']
        self.con.execute(f"CREATE TABLE t_{name} (id INTEGER, {', '.join(cols)})")
        ph = ", ".join(["?"] * (1 + 2 * len(types)))
        data = []
        for i, r in enumerate(rows):
            vals = [i]
            for c in types:
                for v in r[c]:
                    if self.d == "sqlite" and isinstance(v, dt.datetime):
                        v = v.isoformat(sep=" ")
                    elif self.d == "sqlite" and isinstance(v, dt.date):
                        v = v.isoformat()
                    vals.append(v)
            data.append(vals)
        self.con.executemany(f"INSERT INTO t_{name} VALUES ({ph})", data)
        self.made.add(name)

    def eval(self, table, exprs: list[str]):
        """returns list (per row id order) of tuples of python True/False/None per expr"""
        sel = ", ".join(f"({e}) AS v{i}" for i, e in enumerate(exprs))
        cur = self.con.execute(f"SELECT id, {sel} FROM t_{table} ORDER BY id")
        out = []
        for row in cur.fetchall():
            vals = list(row.values()) if isinstance(row, dict) else list(row)
            out.append(vals[1:])
        return out


def tvl(v):
    if v is None:
        return None
    if isinstance(v, float) and math.isnan(v):
        return None
    return bool(v)


# ------------------------------------------------------------------------------------------
# python-side value transforms (documented meaning of ColumnExpression ops)
# ------------------------------------------------------------------------------------------
def apply_ops(v, ops):
    for op in ops:
        if v is None:
            return None
        if op[0] == "lower":
            v = v.lower()
        elif op[0] == "substr":
            v = v[op[1] - 1: op[1] - 1 + op[2]]
        elif op[0] == "nullif":
            v = None if v == op[1] else v
        elif op[0] == "regex":
            v = O.regex_extract_nullif(v, op[1])
        elif op[0] == "cast_str":
            v = str(v)
    return v


def qv(x):
    return Fraction(x) if not isinstance(x, float) else Fraction(x)


def doc_level(inst: T.LevelInst, row: dict, d: str):
    """documented predicate (three-valued) of the level on a row; 'undef' if the documentation does not
    determine it (division by zero, metric conventions on empty strings)"""
    k, m = inst.kind, inst.meta
    cs = inst.cols

    def lrv(c):
        a, b = row[c.name]
        return apply_ops(a, c.ops), apply_ops(b, c.ops)
    if k == "null":
        a, b = lrv(cs[0])
        return a is None or b is None
    if k == "null_pattern":
        a, b = row["name"]
        return O.regex_extract_nullif(a, m["pattern"]) is None or O.regex_extract_nullif(b, m["pattern"]) is None
    if k == "exact":
        return O.eq3(*lrv(cs[0]))
    if k == "literal":
        a, b = lrv(cs[0])
        if m["type"] == "date":     # native DATE column (ISO text on SQLite) against the date literal
            a, b = (None if v is None else v.isoformat() for v in (a, b))
        x = m["value"] if m["type"] in ("string", "date") else Fraction(m["value"])
        cv = (lambda v: v) if m["type"] in ("string", "date") else (lambda v: None if v is None else Fraction(v))
        l, r = O.eq3(cv(a), x), O.eq3(cv(b), x)
        return {"left": l, "right": r, "both": O.and3([l, r])}[m["side"]]
    if k == "reversed":
        a1, b1 = row["fn"]
        a2, b2 = row["sn"]
        return O.and3([O.eq3(a1, b2), O.eq3(b1, a2)]) if m["symmetrical"] else O.eq3(a1, b2)
    if k in ("metric", "distance_function"):
        a, b = lrv(cs[0])
        if a is None or b is None:
            return None
        role = m.get("role") or O.SQL_FN.get(m["function"])
        if role is None:
            return "undef"
        if role in ("jaro", "jaro_winkler") and a == "" and b == "":
            return "undef"
        if role == "jaccard" and (a == "" or b == ""):
            return "undef"
        return O.thresh(Fraction(O.METRICS[role](a, b)), m["threshold"], m["higher"])
    if k == "absdiff":
        a, b = row["amount"]
        if a is None or b is None:
            return None
        return abs(qv(a) - qv(b)) <= Fraction(repr(m["threshold"]))
    if k == "pctdiff":
        a, b = row["amount"]
        if a is None or b is None:
            return None
        mx = max(qv(a), qv(b))
        if mx == 0:
            return "undef"
        return abs(qv(a) - qv(b)) / mx < Fraction(repr(m["threshold"]))
    if k == "timediff":
        ea, eb = epochs(inst, row, d)
        if ea is None or eb is None:
            return None
        return abs(ea - eb) <= Fraction(repr(m["threshold"])) * O.FACTOR[m["metric"]]
    if k == "km":
        (la, lb), (ga, gb) = row["lat"], row["lng"]
        if None in (la, lb, ga, gb):
            return False if (m["not_null"]) else None
        dist = O.km(la, ga, lb, gb)
        if abs(dist - m["threshold"]) < 1e-6:
            return "undef"
        return dist <= m["threshold"]
    if k == "cosine":
        a, b = row["emb"]
        if a is None or b is None:
            return None
        c = O.cosine(a, b)
        if abs(c - m["threshold"]) < 1e-9:
            return "undef"
        return c >= m["threshold"]
    if k == "arr_intersect":
        a, b = row["arr"]
        if a is None or b is None:
            return None
        return len(set(a) & set(b)) >= m["threshold"]
    if k == "arr_subset":
        a, b = row["arr"]
        if a is None or b is None:
            return None
        if len(set(a)) != len(a) or len(set(b)) != len(b):
            return "undef"          # duplicates: "subset" of bags is not documented
        small, big = (a, b) if len(a) <= len(b) else (b, a)
        if not small:
            return bool(m["empty_is_subset"])
        return set(small) <= set(big)
    if k == "pairwise":
        a, b = row["arr"]
        if a is None or b is None or not a or not b:
            return None
        f = O.METRICS[m["function"]]
        higher = m["function"] in ("jaro", "jaro_winkler")
        vals = [Fraction(f(x, y)) for x in a for y in b]
        if any((x == "" and y == "") for x in a for y in b):
            return "undef"
        return O.thresh(max(vals) if higher else min(vals), m["threshold"], higher)
    if k == "compose":
        return doc_shape(m["shape"], row)
    raise KeyError(k)


def doc_shape(shape, row):
    op = shape[0]
    if op == "and":
        return O.and3([doc_shape(s, row) for s in shape[1]])
    if op == "or":
        return O.or3([doc_shape(s, row) for s in shape[1]])
    if op == "not":
        return O.not3(doc_shape(shape[1], row))
    a, b = row[shape[1]]
    if op == "exact":
        return O.eq3(a, b)
    if op == "null":
        return a is None or b is None
    if op == "lev":
        return None if a is None or b is None else O.lev(a, b) <= shape[2]
    raise KeyError(op)


def epochs(inst, row, d):
    m = inst.meta
    if not m["is_string"]:
        a, b = row["ts"]
        return O.native_epoch(a), O.native_epoch(b)
    a, b = row["dob"]
    fmt = m["fmt"] or ("%Y-%m-%d" if m["is_date"] else "%Y-%m-%dT%H:%M:%SZ")
    return O.parse_epoch(a, fmt), O.parse_epoch(b, fmt)


# ------------------------------------------------------------------------------------------
# Coq side
# ------------------------------------------------------------------------------------------
# array / embedding levels: engines disagree on NULL lists (DuckDB list_intersect(x, NULL) = []); the property quantifies non-null
# levels over non-NULL values only
NO_NULL_ROWS = {"arr_intersect", "arr_subset", "cosine", "pairwise"}
COQ_KINDS = {"null", "exact", "literal", "reversed", "metric", "distance_function", "absdiff", "pctdiff", "timediff",
             "arr_intersect", "arr_subset", "compose", "pairwise"}
BUILTIN_FNS = {"levenshtein", "damerau_levenshtein", "jaccard", "jaro_similarity", "jaro_sim", "jaro_winkler_similarity", "jaro_winkler"}


def pyval(v):
    if v is None:
        return T.v_null()
    if isinstance(v, bool):
        return ("bool", v)
    if isinstance(v, int):
        return T.v_int(v)
    if isinstance(v, float):
        return T.v_num(Fraction(v))
    if isinstance(v, str):
        return T.v_str(v)
    if isinstance(v, list):
        return T.v_arr(v)
    if isinstance(v, dt.datetime):
        return T.v_str("ts:" + v.isoformat())
    raise TypeError(v)


def coqable(v):
    if isinstance(v, str):
        return all(32 <= ord(c) < 127 for c in v)
    if isinstance(v, list):
        return all(isinstance(x, str) and coqable(x) for x in v)
    return True


def epoch_sql(inst, d, side):
    """SQL of the epoch sub-expression of a date/time-difference level (the part the generator term calls
    epoch(parse(col, fmt)) / epoch(col)); evaluated by the engine, its value is passed to Coq as an input"""
    m = inst.meta
    ep = T.FN[d]["epoch"]
    if not m["is_string"]:
        return f'{ep}("ts_{side}")'
    pf = T.FN[d]["parse_date" if m["is_date"] else "parse_ts"]
    fmt = m["fmt"] or T.FN[d]["date_fmt" if m["is_date"] else "ts_fmt"]
    return f"{ep}({pf}(\"dob_{side}\", '{fmt}'))"


def oracle_rows(inst, row, d, table, engine_epochs=None):
    """entries of the per-case table for named functions without an executable meaning in Coq.  For the date levels the
    epochs are the ENGINE's own values (exact rationals of its doubles): Coq then checks the abs/minus/<= arithmetic and the
    seconds conversion; the python epoch is only the independent documented reference (doc_level)."""
    k, m = inst.kind, inst.meta
    rows = []
    if k == "timediff":
        ea, eb = engine_epochs
        if m["is_string"]:
            pf = T.FN[d]["parse_date" if m["is_date"] else "parse_ts"]
            fmt = m["fmt"] or T.FN[d]["date_fmt" if m["is_date"] else "ts_fmt"]
            for s_, e in zip(row["dob"], (ea, eb)):
                if s_ is None:
                    continue
                parsed = T.v_null() if e is None else T.v_str("ts:" + s_)
                rows.append((pf, [pyval(s_), T.v_str(fmt)], parsed))
                if e is not None:
                    rows.append((T.FN[d]["epoch"], [parsed], T.v_num(Fraction(e))))
        else:
            for s_, e in zip(row["ts"], (ea, eb)):
                if s_ is not None and e is not None:
                    rows.append((T.FN[d]["epoch"], [pyval(s_)], T.v_num(Fraction(e))))
    return rows


def coq_orow(r):
    f, args, res = r
    return f"({coq_string(f)}, {coq_list([T.coq_val(a) for a in args], 'val')}, {T.coq_val(res)})"


def level_stage(ctx: Ctx, insts, tabs, dialects):
    """X1: every level instance on every row of its tables"""
    engines = {}
    batches, metas = [], []
    n_oracle_only = 0
    for d in dialects:
        try:
            engines[d] = Engine(d)
        except Exception as e:  # pragma: no cover
            ctx.obligation(f"engine {d} available", False, str(e))
            continue
    for inst in insts:
        for d in dialects:
            if d not in engines:
                continue
            try:
                sql = T.current_sql(inst, d)
            except (ValueError, NotImplementedError) as e:
                ctx.hist("level_unsupported_on_dialect", f"{d}:{inst.family}")
                continue
            try:
                gen = inst.gen(d)
            except (T.Unsupported, T.Untranslatable):
                gen = None
            for tname in tables_for(inst, d):
                eng = engines[d]
                if not all(c.name in tabs[tname][0] for c in inst.cols):
                    ctx.hist("x_skipped_column_not_in_value_table", inst.key)
                    continue
                try:
                    eng.make_table(tname, tabs[tname])
                except RuntimeError:
                    continue
                rows = tabs[tname][1]
                if inst.kind == "distance_function" and inst.meta["function"] not in ENGINE_FNS[d]:
                    ctx.hist("x_skipped_user_function_absent_in_engine", f"{d}:{inst.meta['function']}")
                    continue
                docs = [doc_level(inst, r, d) for r in rows]
                try:
                    got = [tvl(x[0]) for x in eng.eval(tname, [sql])]
                    errs = {}
                except Exception as e:
                    # isolate failing rows
                    got, errs = [], {}
                    for i in range(len(rows)):
                        try:
                            cur = eng.con.execute(f"SELECT ({sql}) AS v FROM t_{tname} WHERE id = {i}")
                            rr = cur.fetchall()[0]
                            got.append(tvl(list(rr.values())[0] if isinstance(rr, dict) else rr[0]))
                        except Exception as e2:
                            got.append("error")
                            errs[i] = str(e2)[:200]
                hdr = [(s, c) for c in tabs[tname][0] for s in (True, False)]
                eng_epochs = None
                if inst.kind == "timediff":
                    try:
                        eng_epochs = eng.eval(tname, [epoch_sql(inst, d, "l"), epoch_sql(inst, d, "r")])
                        for i2, (ee, r2) in enumerate(zip(eng_epochs, rows)):
                            pe = epochs(inst, r2, d)
                            for x_, y_ in zip(ee, pe):
                                ctx.hist("engine_epoch_vs_python_epoch", "equal" if (x_ is None and y_ is None) or (x_ is not None and y_ is not None and float(x_) == float(y_)) else "DIFFERENT")
                    except Exception as e:
                        ctx.obligation(f"engine epochs for {inst.key} on {d}", False, str(e)[:300])
                        eng_epochs = None
                coq_rows, idx = [], []
                use_coq = gen is not None and inst.kind in COQ_KINDS and not (inst.kind == "distance_function" and inst.meta["function"] not in BUILTIN_FNS) \
                    and not (inst.kind == "literal" and inst.meta["type"] == "date")      # date literals: python oracle only
                for i, r in enumerate(rows):
                    doc = docs[i]
                    key = (d, inst.key, tname, i)
                    nontrivial = doc is True or (doc is False and i % 2 == 0)
                    if inst.kind in NO_NULL_ROWS and any(v is None for p in r.values() for v in p):
                        ctx.hist("skipped_null_row_for_array_level", f"{d}:{inst.family}")
                        continue
                    if got[i] == "error":
                        if doc == "undef":
                            ctx.hist("skipped_engine_error_outside_documented_domain", f"{d}:{inst.family}")
                            continue
                        report_level(ctx, inst, d, tname, r, sql, "error: " + errs.get(i, ""), doc, None)
                        continue
                    if doc == "undef" and not (use_coq and inst.kind == "pctdiff"):
                        ctx.hist("skipped_convention_or_float_boundary", f"{d}:{inst.family}")
                        continue
                    if near_boundary(inst, r, d):
                        ctx.hist("skipped_convention_or_float_boundary", f"{d}:{inst.family}")
                        continue
                    ctx.count_case(key[:3] + (json.dumps(r, default=str),), bool(nontrivial),
                                   {"dialect": d, "level": inst.key, "sql": " ".join(sql.split())[:160], "row": r, "engine": got[i]})
                    ctx.hist("level_family_x_dialect", f"{d}:{inst.family}")
                    ctx.hist("engine_outcome", str(got[i]))
                    if use_coq and all(coqable(v) for c in r.values() for v in c):
                        types = tabs[tname][0]
                        vs = [T.coq_val(pyval(float(r[c][0 if s else 1]) if types[c] == "DOUBLE" and isinstance(r[c][0 if s else 1], int)
                                              else r[c][0 if s else 1])) for s, c in hdr]
                        if inst.kind == "timediff" and eng_epochs is None:
                            continue
                        orc = coq_list([coq_orow(o) for o in oracle_rows(inst, r, d, tname, eng_epochs[i] if eng_epochs else None)], "orow")
                        coq_rows.append(f"({coq_list(vs, 'val')}, {orc}, {TVC[got[i]]}%nat)")
                        idx.append(i)
                        # the python oracle is a second, independent reference
                        if doc != "undef" and doc != got[i]:
                            report_level(ctx, inst, d, tname, r, sql, got[i], doc, None)
                    else:
                        n_oracle_only += 1
                        ctx.hist("oracle_only_family", f"{d}:{inst.family}")
                        if doc != got[i]:
                            report_level(ctx, inst, d, tname, r, sql, got[i], doc, None)
                if coq_rows:
                    hdr_c = coq_list([f"({'true' if s else 'false'}, {coq_string(c)})" for s, c in hdr])
                    for lo in range(0, len(coq_rows), 60):
                        batches.append(f"({PROF[d]}%nat, {gen}, {hdr_c}, {coq_list(coq_rows[lo:lo + 60])})")
                        metas.append((inst, d, tname, sql, idx[lo:lo + 60], gen, hdr_c, coq_rows[lo:lo + 60], got))
    ctx.cov["x_level_rows_checked_in_coq"] = sum(len(m[4]) for m in metas)
    ctx.cov["x_level_rows_checked_by_python_oracle_only"] = n_oracle_only
    bad, errs = ctx.eval_cases("C16_x1", HEADER, batches, "run_batch", shard=25, timeout=900)
    ok = ctx.obligation("X1 level correspondence evaluated in Coq (all shards compiled)", not errs, "; ".join(errs)[:1500])
    if bad:
        # second pass: one row per case for failing batches
        singles, smeta = [], []
        for b in bad[:40]:
            inst, d, tname, sql, idx, gen, hdr_c, rows_c, got = metas[b]
            for i, rc in zip(idx, rows_c):
                singles.append(f"({PROF[d]}%nat, {gen}, {hdr_c}, [{rc}])")
                smeta.append((inst, d, tname, sql, i, got[i]))
        bad2, errs2 = ctx.eval_cases("C16_x1b", HEADER, singles, "run_batch", shard=200, timeout=900)
        for k in bad2[:25]:
            inst, d, tname, sql, i, g = smeta[k]
            r = tabs[tname][1][i]
            report_level(ctx, inst, d, tname, r, sql, g, doc_level(inst, r, d), "model (Coq sem of gen_X args) disagrees")
        if not bad2:
            ctx.violation("X1 batch failed but no single row reproduces", {"broken": "C16_x1 batch"}, found_input=False)
    ctx.obligation("X1 levels: engines agree with the Gallina model on every row", ok and not bad)
    return engines


def near_boundary(inst, r, d):
    """metric value within 1e-9 of the threshold but not exactly representable (float noise)"""
    k, m = inst.kind, inst.meta
    if k == "pairwise" and m["function"] in ("jaro", "jaro_winkler"):
        a, b = r["arr"]
        if not a or not b:
            return False
        v = max(Fraction(O.METRICS[m["function"]](x, y)) for x in a for y in b)
        t = Fraction(repr(m["threshold"])) if isinstance(m["threshold"], float) else Fraction(m["threshold"])
        return (v == t and v.denominator & (v.denominator - 1) != 0) or (v != t and abs(v - t) < Fraction(1, 10 ** 9))
    if k in ("metric", "distance_function"):
        role = m.get("role") or O.SQL_FN.get(m.get("function"))
        if role in ("jaro", "jaro_winkler", "jaccard"):
            c = inst.cols[0]
            a, b = (apply_ops(x, c.ops) for x in r[c.name])
            if a is None or b is None or (role == "jaccard" and (not a or not b)):
                return False
            v = Fraction(O.METRICS[role](a, b))
            t = Fraction(repr(m["threshold"])) if isinstance(m["threshold"], float) else Fraction(m["threshold"])
            if v == t:
                den = v.denominator
                return den & (den - 1) != 0          # exact tie is kept only for dyadic values
            return abs(v - t) < Fraction(1, 10 ** 9)
    return False


ENGINE_FNS = {"duckdb": {"levenshtein", "damerau_levenshtein", "jaro_similarity", "jaro_winkler_similarity", "jaccard", "hamming"},
              "sqlite": {"levenshtein", "damerau_levenshtein", "jaro_sim", "jaro_winkler", "jaro"}}
_REPORTED: dict = {}


def uses_udf(inst):
    return inst.kind in ("metric", "distance_function") or (inst.kind == "compose" and "lev" in json.dumps(inst.meta.get("shape")))


def near_boundary_value(inst: T.CompInst, row):
    """float noise guard for whole comparisons: a Jaro / Jaro-Winkler value within 1e-9 of a library threshold"""
    ths = [Fraction(x) for x in ("0.92", "0.88", "0.7", "0.9", "0.95", "0.8", "0.5", "0.6")]
    for c, kind in inst.cols.items():
        if kind in ("str", "email"):
            a, b = row[c]
            if isinstance(a, str) and isinstance(b, str) and a and b:
                for f in (O.jaro, O.jaro_winkler):
                    v = Fraction(f(a, b))
                    if any((v == t and v.denominator & (v.denominator - 1) != 0) or (v != t and abs(v - t) < Fraction(1, 10 ** 9)) for t in ths):
                        return True
            if isinstance(a, str) and isinstance(b, str) and (a == "" and b == ""):
                return True      # Jaro convention on two empty strings differs between engines
    return False


def report_level(ctx, inst, d, tname, row, sql, got, doc, note):
    feats = {"dialect": d, "level": inst.family}
    if inst.kind == "pctdiff" and tname == "int":
        feats["integer_columns"] = True
    if d == "sqlite" and uses_udf(inst) and any(v is None for p in row.values() for v in p):
        feats["udf_null_argument"] = True
    k = (id(ctx), json.dumps(feats, sort_keys=True))
    rk = (d, inst.key, tname, json.dumps(row, default=str))
    seen = _REPORTED.setdefault(k, set())
    if rk in seen or len(seen) >= 3:
        seen.add(rk)
        return
    seen.add(rk)
    ctx.violation(f"{inst.family} on {d}: engine result {got!r} but documented predicate gives {doc!r}" + (f" ({note})" if note else ""),
                  {"case": {"dialect": d, "level": inst.key, "constructor_meta": inst.meta, "table": tname, "row": row, "sql": sql},
                   "implementation": got, "specification": doc}, feats)


# ------------------------------------------------------------------------------------------
# X2: whole comparisons - CASE assignment
# ------------------------------------------------------------------------------------------
COL_TABLE = {"str": "str", "arr": "arr", "emb": "emb", "date": "date", "tsstr": "tsstr", "ts": "ts", "date_dmy": "date_dmy"}
PCS = ["AB1 2CD", "AB1 2CE", "AB1 3CD", "AB12 9ZZ", "AC1 2CD", "B1 1AA", "b1 1aa", "zz", "", None, "AB1 2CD", "UNKNOWN", "SW1A1AA", "SW1A 1AA",
       "AB1 2C", "1AB 2CD", "AB1  2CD"]
EMAILS = ["john@a.com", "john@b.com", "jon@a.com", "john.smith@a.com", "john.smyth@a.com", "mary@a.com", "nodomain", "", None, "john@a.com", "@a.com"]


def comp_oracle_rows(inst: T.CompInst, row, d):
    """per-row table for the named functions of the DOCUMENTED level terms that have no executable meaning in Coq:
    regexp_extract (python `re`), date parsing + epoch (python strptime).  Independent of the implementation."""
    out = []
    for cs in inst.meta.get("ocols", []):
        for v0 in row[cs.name]:
            if not isinstance(v0, str):
                continue
            for k_, op in enumerate(cs.ops):
                v = apply_ops(v0, cs.ops[:k_])       # value the op is applied to (after the preceding transforms)
                if v is None:
                    break
                if op[0] == "regex":
                    import re
                    m = re.search(op[1], v)
                    out.append(("regexp_extract", [T.v_str(v), T.v_str(op[1]), T.v_int(op[2])], T.v_str(m.group(0) if m else "")))
                elif op[0] in ("date", "ts"):
                    pyfmt = op[1] or ("%Y-%m-%d" if op[0] == "date" else "%Y-%m-%dT%H:%M:%SZ")
                    dfmt = op[1] or T.FN[d]["date_fmt" if op[0] == "date" else "ts_fmt"]
                    e = O.parse_epoch(v, pyfmt)
                    parsed = T.v_null() if e is None else T.v_str("ts:" + v)
                    out.append((T.FN[d]["parse_date" if op[0] == "date" else "parse_ts"], [T.v_str(v), T.v_str(dfmt)], parsed))
                    if e is not None:
                        out.append((T.FN[d]["epoch"], [parsed], T.v_int(e)))
    for c, kind in inst.cols.items():
        if kind == "ts":
            for v in row[c]:
                if v is not None:
                    out.append((T.FN[d]["epoch"], [pyval(v)], T.v_int(O.native_epoch(v))))
    return out


def comp_rows(ctx, inst: T.CompInst, tabs):
    """rows for a comparison: independent draws per column from the single-column tables"""
    rng = ctx.rng
    n = 40 if ctx.quick else 150
    types, rows = {}, []
    src = {}
    for c, kind in inst.cols.items():
        if kind in ("lat", "lng"):
            types[c] = "DOUBLE"
            src[c] = [r[c] for r in tabs["coord"][1]]
        elif kind == "postcode":
            types[c] = "VARCHAR"
            src[c] = [(rng.choice(PCS), rng.choice(PCS)) for _ in range(n)] + [("UNKNOWN", "AB1 2CD"), ("AB1 2CD", "SW1A1AA"), ("UNKNOWN", "UNKNOWN"),
                                                                              ("SW1A1AA", "SW1A1AA"), ("zz", "zz"), (None, "AB1 2CD"), ("AB1 2CD", "AB1 2CE")]
        elif kind == "email":
            types[c] = "VARCHAR"
            src[c] = [(rng.choice(EMAILS), rng.choice(EMAILS)) for _ in range(n)]
        else:
            tn = COL_TABLE[kind]
            col0 = next(iter(tabs[tn][0]))
            types[c] = tabs[tn][0][col0]
            src[c] = [r[col0] for r in tabs[tn][1]]
    if set(inst.cols.values()) >= {"lat", "lng"}:
        k = len(src["lat"])
        for i in range(min(n, k)):
            j = rng.randrange(k)
            row = {c: (src[c][j] if inst.cols[c] in ("lat", "lng") else (src[c][-1 - i] if i < 7 and inst.cols[c] == "postcode" else rng.choice(src[c])))
                   for c in inst.cols}
            rows.append(row)
    else:
        for i in range(n):
            rows.append({c: rng.choice(src[c]) for c in inst.cols})
        if len(inst.cols) == 1:
            c = next(iter(inst.cols))
            rows = [{c: p} for p in src[c][: (60 if ctx.quick else 400)]] + rows
    return types, rows


def comparison_stage(ctx: Ctx, comps, tabs, dialects, structures):
    cases, metas = [], []
    dbatches, dmetas = [], []
    for inst in comps:
        for d in dialects:
            st = structures.get((inst.key, d))
            if st is None or d not in inst.meta.get("engines", [d]):
                continue
            eng = Engine(d)
            types, rows = comp_rows(ctx, inst, tabs)
            tname = "c"
            try:
                eng.make_table(tname, (types, rows))
            except RuntimeError:
                continue
            conds = [l["sql"] for l in st["levels"] if not l["else"]]
            gammas = [l["gamma"] for l in st["levels"] if not l["else"]]
            gelse = [l["gamma"] for l in st["levels"] if l["else"]]
            exprs = conds + [st["case_sql"]]
            try:
                res = eng.eval(tname, exprs)
                skip = set()
            except Exception:
                res, skip = [], set()
                for i in range(len(rows)):
                    try:
                        sel = ", ".join(f"({e}) AS v{j}" for j, e in enumerate(exprs))
                        rr = eng.con.execute(f"SELECT {sel} FROM t_c WHERE id = {i}").fetchall()[0]
                        res.append(list(rr.values()) if isinstance(rr, dict) else list(rr))
                    except Exception as e2:
                        res.append(None)
                        skip.add(i)
                if len(skip) > len(rows) // 2:
                    ctx.violation(f"comparison {inst.key} cannot be evaluated on {d}", {"case": {"comparison": inst.key, "dialect": d, "case_sql": st["case_sql"]},
                                  "implementation": "engine error on most rows", "specification": "CASE evaluates"}, {"dialect": d, "comparison": inst.name})
                    continue
            # documented level terms (built from the constructor arguments, not from the implementation) evaluated in Coq on
            # the rows, against the engine's outcome of the corresponding emitted level
            exp = [e for e in st.get("expected", []) if e[1] is not None]
            if len(exp) == len(conds):
                hdr = [(sd, c) for c in types for sd in (True, False)]
                hdr_c = coq_list([f"({'true' if sd else 'false'}, {coq_string(c)})" for sd, c in hdr])
                pick_rows = [i for i, r in enumerate(rows) if i not in skip and all(coqable(v) for p in r.values() for v in p)]
                special = [i for i in pick_rows if any(v is None for p in rows[i].values() for v in p) or i >= len(rows) - 12]
                pick_rows = sorted(set(pick_rows[:45] + special[:40]))
                orcs = {i: coq_list([coq_orow(o) for o in comp_oracle_rows(inst, rows[i], d)], "orow") for i in pick_rows}
                vals = {i: coq_list([T.coq_val(pyval(float(rows[i][c][0 if sd else 1]) if types[c] == "DOUBLE" and isinstance(rows[i][c][0 if sd else 1], int)
                                                      else rows[i][c][0 if sd else 1])) for sd, c in hdr], "val") for i in pick_rows}
                for li, (isnull, term, ev) in enumerate(exp):
                    if not ev:
                        ctx.hist("documented_level_not_evaluable_in_coq", f"{d}:{inst.name}")
                        continue
                    rws, idx = [], []
                    for i in pick_rows:
                        o = tvl(res[i][li])
                        if o == "error":
                            continue
                        if near_boundary_value(inst, rows[i]):
                            continue
                        if li > 0 and any(inst.cols[c] in ("arr", "emb") and any(v is None for v in rows[i][c]) for c in inst.cols):
                            continue        # NULL arrays: engine-specific (DuckDB list_intersect(x, NULL) = []), outside the property
                        rws.append(f"({vals[i]}, {orcs[i]}, {TVC[o]}%nat)")
                        idx.append(i)
                    if rws:
                        dbatches.append(f"({PROF[d]}%nat, {term}, {hdr_c}, {coq_list(rws)})")
                        dmetas.append((inst, d, li, term, hdr_c, rws, idx, rows, res, st))
                        ctx.cov["x_documented_level_rows"] = ctx.cov.get("x_documented_level_rows", 0) + len(rws)
            for i, r in enumerate(rows):
                if i in skip:
                    ctx.hist("skipped_engine_error_outside_documented_domain", f"{d}:{inst.name}")
                    continue
                outs = [tvl(x) for x in res[i][:-1]]
                g = res[i][-1]
                n_true = sum(1 for o in outs if o is True)
                ctx.count_case((d, inst.key, json.dumps(r, default=str)), n_true >= 1 or any(o is None for o in outs),
                               {"dialect": d, "comparison": inst.key, "row": r, "level_outcomes": outs, "gamma": g})
                ctx.hist("comparison_x_dialect", f"{d}:{inst.name}")
                ctx.hist("levels_true_per_row", n_true)
                cases.append(f"({coq_list([str(TVC[o]) + '%nat' for o in outs], 'nat')}, "
                             f"{coq_list(['(%d)%%Z' % x for x in gammas + gelse], 'Z')}, ({int(g) if g is not None else -98})%Z)")
                metas.append((inst, d, r, outs, g, st))
    bad, errs = ctx.eval_cases("C16_x2", HEADER, cases, "run_pick", shard=400, timeout=600)
    ctx.obligation("X2 comparison CASE assignment evaluated in Coq", not errs, "; ".join(errs)[:1000])
    for k in bad[:10]:
        inst, d, r, outs, g, st = metas[k]
        ctx.violation(f"{inst.key} on {d}: gamma {g} is not the first TRUE level (else ELSE)",
                      {"case": {"comparison": inst.key, "dialect": d, "row": r, "case_sql": st["case_sql"]},
                       "implementation": {"level_outcomes": outs, "gamma": g},
                       "specification": "gamma of first level whose condition is TRUE, else the ELSE value"},
                      {"dialect": d, "comparison": inst.name})
    ctx.obligation("X2 comparisons: engine gamma = pick over the engine's own level outcomes", not bad and not errs)
    ctx.cov["x_comparison_rows"] = len(cases)
    bad3, errs3 = ctx.eval_cases("C16_x3", HEADER, dbatches, "run_batch", shard=20, timeout=900)
    ctx.obligation("X3 documented levels evaluated in Coq", not errs3, "; ".join(errs3)[:1000])
    reported = set()
    if bad3:
        singles, smeta = [], []
        for b in bad3[:30]:
            inst, d, li, term, hdr_c, rws, idx, rows, res, st = dmetas[b]
            for i, rc in zip(idx, rws):
                singles.append(f"({PROF[d]}%nat, {term}, {hdr_c}, [{rc}])")
                smeta.append((inst, d, li, i, rows, res, st, term))
        bad4, _ = ctx.eval_cases("C16_x3b", HEADER, singles, "run_batch", shard=150, timeout=900)
        for k in bad4:
            inst, d, li, i, rows, res, st, term = smeta[k]
            if (inst.key, d, li) in reported or len([x for x in reported if x[0] == inst.key]) >= 2:
                continue
            reported.add((inst.key, d, li))
            lv = [l for l in st["levels"] if not l["else"]][li]
            got = tvl(res[i][li])
            feats = {"dialect": d, "comparison": inst.name, "level_index": li, **inst.meta.get("tags", {})}
            if li == 0:
                feats["null_level"] = True
            ctx.violation(f"{inst.key} on {d}: level {li} ({' '.join(lv['sql'].split())[:70]}) gives {got!r} on a record pair where the documented level "
                          f"gives the opposite; engine gamma {res[i][-1]}",
                          {"case": {"comparison": inst.key, "dialect": d, "row": rows[i], "level_index": li, "level_sql": lv["sql"], "documented_level": term,
                                    "case_sql": st["case_sql"]},
                           "implementation": {"level_outcome": got, "gamma": res[i][-1]},
                           "specification": "sem of the documented level term (Coq) differs; e.g. an invalid value must fall in the null level (gamma -1) "
                                            "when invalid_*_as_null is set"}, feats)
        if not bad4:
            ctx.violation("X3 batch failed but no single row reproduces", {"broken": "C16_x3 batch"}, found_input=False)
    ctx.obligation("X3 comparisons: every emitted level agrees with the documented level on every row", not bad3 and not errs3)
