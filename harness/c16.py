"""C16  Library comparison levels mean what their documentation says.

 P  theorems in Properties/C16.v: per creator family `sem (gen_X args) = doc_X args values`, NULL
    level, And/Or/Not = SQL 3VL, CASE assigns exactly one level, levels_ok soundness.
 T  translators/c16_levels.py instantiates every level creator on a grid of constructor arguments for
    every dialect executable here, calls the real get_comparison_level(d).sql_condition, parses it
    with sqlglot and Coq evaluates `same_expr current (gen_X args)`; every comparison creator's
    level list is checked by `levels_ok` and its real CASE statement against `gen_case`.
 X  the real SQL runs on DuckDB and SQLite on crafted value pairs and is compared inside Coq with
    `sem` of the generator term under the executable `std_fenv` (python oracle for abstract leaves).
"""
from __future__ import annotations

from harness.common import REPO, Ctx, coq_list, git_blob
from translators import c16_levels as T

HEADER = """From Coq Require Import String Ascii Bool ZArith QArith List.
From Splinkv Require Import Base.TV Model.SqlExpr Model.Levels.
Import ListNotations. Open Scope string_scope.
"""
SOURCES = ["splink/internals/comparison_level_library.py", "splink/internals/comparison_library.py",
           "splink/internals/comparison_level_composition.py", "splink/internals/comparison_level_sql.py",
           "splink/internals/column_expression.py", "splink/internals/dialects.py", "splink/internals/comparison.py",
           "splink/internals/comparison_level.py", "splink/internals/sqlite/database_api.py"]


def dialects(ctx):
    return ["duckdb", "sqlite"] + ([] if ctx.quick else ["spark"])


def level_obligations(ctx: Ctx, insts):
    terms, metas = [], []
    not_modelled, unsupported = {}, {}
    for inst in insts:
        for d in dialects(ctx):
            try:
                sql = T.current_sql(inst, d)
            except (ValueError, NotImplementedError) as e:
                # the creator refuses this dialect; the documented metric must indeed be absent there
                try:
                    g = inst.gen(d)
                    expected_supported = g is not None and inst.family not in SQLITE_DECLARED_UNSUPPORTED.get(d, ())
                except T.Unsupported:
                    expected_supported = False
                except T.Untranslatable:
                    expected_supported = False
                unsupported.setdefault(d, set()).add(inst.family)
                if expected_supported:
                    ctx.obligation(f"{inst.key} supported on {d}", False, str(e))
                    ctx.violation(f"{inst.family} raises on {d} although the dialect has the documented function",
                                  {"case": {"level": inst.key, "dialect": d}, "implementation": repr(e), "specification": "level available"},
                                  {"dialect": d, "level": inst.family, "raises": True})
                continue
            try:
                g = inst.gen(d)
                if g is None:
                    raise T.Untranslatable("creator family outside the modelled fragment (lambda)")
                cur = T.parse_sql(sql, d)
            except (T.Untranslatable, T.Unsupported) as e:
                not_modelled.setdefault(f"{d}:{inst.family}", str(e)[:120])
                continue
            terms.append(f"({T.coq_expr(cur)}, {g})")
            metas.append((inst, d, sql, g))
    bad, errs = ctx.eval_cases("C16_t1", HEADER, terms, "fun c => same_expr (fst c) (snd c)", shard=120, timeout=600)
    for e in errs:
        ctx.obligation("level obligation shard", False, e)
    ctx.obligations += len(terms)
    ctx.discharged += (len(terms) - len(bad)) if not errs else 0
    ctx.cov["t_level_obligations"] = len(terms)
    ctx.cov["t_levels_not_modelled"] = not_modelled
    # every creator family of the library is inside the modelled fragment on the unchanged tree (the lambda-based pairwise
    # levels through the dedicated EPairwise node): a family that stops translating is a broken tie, not a silent downgrade
    ctx.obligation("every level creator x dialect translates into the modelled fragment", not not_modelled, str(not_modelled)[:600])
    if not_modelled:
        k0 = sorted(not_modelled)[0]
        ctx.violation(f"level SQL left the modelled fragment: {k0}: {not_modelled[k0]}",
                      {"broken": "translation of " + k0, "detail": not_modelled},
                      {"dialect": k0.split(":")[0], "level": k0.split(":")[1], "untranslatable": True}, found_input=False)
    ctx.cov["t_levels_unsupported_by_dialect"] = {k: sorted(v) for k, v in unsupported.items()}
    if metas:
        inst, d, sql, g = metas[len(metas) // 2]
        ctx.cov["samples"].append({"level_obligation": {"dialect": d, "level": inst.key, "sql": " ".join(sql.split())[:200], "generator": g[:300]}})
    return [metas[i] for i in bad], bool(errs)


# dialects on which a creator is *declared* unsupported by the library although the functions exist
SQLITE_DECLARED_UNSUPPORTED = {"sqlite": ("AbsoluteTimeDifferenceLevel", "AbsoluteDateDifferenceLevel", "ArrayIntersectLevel", "ArraySubsetLevel",
                                          "PairwiseStringDistanceFunctionLevel")}


# declared unsupported by the library although the named functions exist (unsupported_splink_dialects decorator)
PINNED_UNSUPPORTED_COMPARISONS = {("sqlite", "PairwiseStringDistanceFunctionAtThresholds")}


def completeness_obligation(ctx: Ctx, insts, comps):
    """AUDIT_2 B5: the grids are hand-written; every public creator class of the library must be in them"""
    import inspect

    import splink.comparison_level_library as cll
    import splink.comparison_library as cl
    from splink.internals.comparison_creator import ComparisonCreator
    from splink.internals.comparison_level_creator import ComparisonLevelCreator
    lev = {n for n, o in vars(cll).items() if inspect.isclass(o) and issubclass(o, ComparisonLevelCreator) and not n.startswith("_")
           and o is not ComparisonLevelCreator}
    cmpn = {n for n, o in vars(cl).items() if inspect.isclass(o) and issubclass(o, ComparisonCreator) and not n.startswith("_")
            and o is not ComparisonCreator}
    # ElseLevel / CustomLevel are covered as members of every comparison / of CustomComparison, not as grid families
    miss_l = sorted(lev - {"ElseLevel", "CustomLevel"} - {i.family for i in insts})
    miss_c = sorted(cmpn - {c.name for c in comps})
    ctx.cov["library_level_creators"] = sorted(lev)
    ctx.cov["library_comparison_creators"] = sorted(cmpn)
    ok = ctx.obligation("every public level / comparison creator class of the library is in the grids", not miss_l and not miss_c, f"{miss_l} {miss_c}")
    if not ok:
        ctx.violation(f"creator classes outside the checked grids: levels {miss_l}, comparisons {miss_c}",
                      {"broken": "grid completeness", "levels": miss_l, "comparisons": miss_c}, {"grid_incomplete": True}, found_input=False)


def comparison_obligations(ctx: Ctx, comps):
    terms, metas, structures = [], [], {}
    unsupported = []
    for inst in comps:
        for d in dialects(ctx):
            try:
                st = T.comparison_structure(inst, d)
            except (ValueError, NotImplementedError) as e:
                # a creator may refuse a dialect only where the documented function is absent there (the documented level list
                # cannot be built: T.Unsupported) or where the library declares it unsupported (pinned table); anything else -
                # in particular a creator that starts raising on DuckDB - is an alarm, not less coverage
                try:
                    inst.meta["expected"](d)
                    expected_unsupported = (d, inst.name) in PINNED_UNSUPPORTED_COMPARISONS
                except T.Unsupported:
                    expected_unsupported = True
                if expected_unsupported:
                    unsupported.append(f"{d}:{inst.key}")
                else:
                    ctx.obligation(f"comparison {inst.key} available on {d}", False, repr(e)[:200])
                    ctx.violation(f"{inst.key} raises on {d} although every documented function exists there: {e!r}"[:300],
                                  {"case": {"comparison": inst.key, "dialect": d}, "implementation": repr(e)[:300], "specification": "comparison available"},
                                  {"dialect": d, "comparison": inst.name, "raises": True})
                continue
            except T.Untranslatable as e:
                ctx.obligation(f"translate comparison {inst.key} on {d}", False, str(e))
                continue
            structures[(inst.key, d)] = st
            ls = T.coq_levels(st)
            try:
                exp = inst.meta["expected"](d)
            except T.Unsupported as e:
                ctx.obligation(f"documented level list of {inst.key} on {d}", False, f"creator accepts the dialect but the documented function is absent: {e}")
                continue
            st["expected"] = exp
            terms.append(f"({ls}, {T.coq_expr(st['case_tree'])}, {T.coq_expected(exp)})")
            metas.append((inst, d, st))
            ctx.hist("comparison_levels", len(st["levels"]))
    runner = ("fun c => match c with (ls, cs, ex) => (levels_ok ls && same_expr cs (gen_case ls) && levels_match ls ex)%bool end")
    bad, errs = ctx.eval_cases("C16_t2", HEADER, terms, runner, shard=40, timeout=600)
    for e in errs:
        ctx.obligation("comparison obligation shard", False, e)
    ctx.obligations += len(terms)
    ctx.discharged += (len(terms) - len(bad)) if not errs else 0
    ctx.cov["t_comparison_obligations"] = len(terms)
    ctx.cov["t_comparisons_unsupported_by_dialect"] = unsupported
    if metas:
        inst, d, st = metas[-1]
        ctx.cov["samples"].append({"comparison_obligation": {"dialect": d, "comparison": inst.key,
                                                              "levels": [(l["null"], " ".join(l["sql"].split())[:80]) for l in st["levels"]]}})
    return [metas[i] for i in bad], structures, bool(errs)


def explain_comparison_failure(ctx: Ctx, inst, d, st):
    """which clause of levels_ok / gen_case fails (computed in Coq)"""
    ls = T.coq_levels(st)
    txt = HEADER + f"Definition ls := {ls}.\nDefinition cs := {T.coq_expr(st['case_tree'])}.\nDefinition ex := {T.coq_expected(st['expected'])}.\n" + \
        "Eval vm_compute in (levels_ok ls, ordered_ok ls, same_expr cs (gen_case ls), levels_match ls ex, first_mismatch ls ex 0).\n"
    ok, out = ctx.coqc_text("C16_explain", txt)
    flat = " ".join(out.split())
    import re
    m = re.search(r"Some (\d+)", flat)
    st["mismatch_level"] = int(m.group(1)) if m else None
    return "(levels_ok, ordered_ok, case = gen_case, levels_match documented, first mismatching level) " + flat[-160:]


def pctdiff_sqlite_integer_witness(ctx: Ctx):
    """Regression witness of the former finding KF-C16-pctdiff-sqlite-integer-division (fixed by splink 89a1dbc7, theorem
    C16_percentage_difference_old_term_sqlite_integers_refuted): INTEGER columns 3 vs 9 at threshold 0.1 on the real SQLiteAPI
    must NOT satisfy the level (documented percentage difference 2/3)."""
    import splink.comparison_level_library as cll
    from harness import splink_util as su
    sql = cll.PercentageDifferenceLevel("amount", 0.1).get_comparison_level("sqlite").sql_condition
    con = su.sqlite_api().con
    con.execute('CREATE TABLE w ("amount_l" INTEGER, "amount_r" INTEGER)')
    con.execute("INSERT INTO w VALUES (3, 9)")
    got = list(con.execute(f"SELECT ({sql}) AS v FROM w").fetchall()[0].values())[0]
    ctx.cov["pctdiff_sqlite_integer_witness"] = {"sql": sql, "row": [3, 9], "engine": got, "documented": False}
    ctx.count_case(("pctdiff_witness", sql), True, None)
    ctx.obligation("PercentageDifferenceLevel on SQLite INTEGER columns 3 vs 9 @ 0.1 is not satisfied (real division)", not got)
    if got:
        ctx.violation("PercentageDifferenceLevel on SQLite with INTEGER columns: integer division makes 3 vs 9 pass a 10% threshold",
                      {"case": {"dialect": "sqlite", "level": "PercentageDifferenceLevel:0.1", "row": {"amount": [3, 9]}, "column_type": "INTEGER", "sql": sql},
                       "implementation": True, "specification": False},
                      {"dialect": "sqlite", "level": "PercentageDifferenceLevel", "integer_columns": True})


def damerau_variant_probe(ctx: Ctx):
    """which Damerau-Levenshtein the engines implement: the unrestricted distance gives dl('ca','abc') = 2, the restricted
    (optimal string alignment) variant gives 3.  The Gallina `dam_lev` is the unrestricted one."""
    import duckdb

    from harness import splink_util as su
    got = {"duckdb": duckdb.connect().execute("select damerau_levenshtein('ca','abc')").fetchall()[0][0],
           "sqlite": list(su.sqlite_api().con.execute("select damerau_levenshtein('ca','abc') v").fetchall()[0].values())[0]}
    ctx.cov["damerau_levenshtein_variant"] = {d: ("unrestricted" if v == 2 else "restricted (OSA)" if v == 3 else f"other ({v})") for d, v in got.items()}
    ctx.obligation("DuckDB and rapidfuzz damerau_levenshtein are the unrestricted variant modelled by dam_lev", all(v == 2 for v in got.values()), str(got))


def replay_one(ctx: Ctx, insts):
    """re-run just the level / row of a replay file on the real engine against the documented predicate"""
    import json

    from harness import c16_x
    rp = json.load(open(ctx.replay))
    case = rp.get("case") or {}
    if "level" not in case or "row" not in case or "dialect" not in case:
        return False
    inst = next((i for i in T.level_grid("thorough") if i.key == case["level"]), None)
    if inst is None:
        return False
    d = case["dialect"]
    row = {c: tuple(v) for c, v in case["row"].items()}
    tname = case.get("table") or c16_x.tables_for(inst, d)[0]
    tabs = c16_x.tables(ctx)
    types = dict(tabs[tname][0]) if tname in tabs else {c: "VARCHAR" for c in row}
    if case.get("column_type") == "INTEGER":
        types = {c: "BIGINT" for c in row}
    eng = c16_x.Engine(d)
    eng.make_table("replay", (types, [row]))
    sql = T.current_sql(inst, d)
    got = c16_x.tvl(eng.eval("replay", [sql])[0][0])
    doc = c16_x.doc_level(inst, row, d)
    ctx.count_case(("replay", case["level"], d), True, {"replay": case, "engine": got, "documented": doc})
    ctx.log(f"replay {case['level']} on {d}: engine {got!r}, documented {doc!r}")
    if doc != "undef" and got != doc:
        c16_x.report_level(ctx, inst, d, "int" if case.get("column_type") == "INTEGER" else tname, row, sql, got, doc, "replay")
    return True


def run(ctx: Ctx):
    ctx.cov["rule"] = ("T: one `same_expr` obligation per (level creator x constructor-argument grid x dialect) and one "
                       "`levels_ok && same_expr case (gen_case ls)` obligation per (comparison creator x threshold lists x dialect). "
                       "X1: every level x every row of its crafted value table (NULLs, empty strings/arrays, equal values, values on a "
                       "threshold, invalid dates, antipodal/identical coordinates, negatives, zeros + seeded mutations); a row is "
                       "non-trivial when the documented predicate is TRUE or (every other row) FALSE; distinct by (dialect, level, row). "
                       "X2: every comparison x rows; non-trivial when some level is TRUE or NULL.")
    ctx.trusted += [
        "translators/c16_levels.py: sqlglot 30.18 parse (FUNCTIONS table emptied so function names are kept as written); function names "
        "compared case-insensitively; column side taken from the _l/_r suffix; table of engine function names per documented metric",
        "X: DuckDB 1.5 / SQLite 3.40 (+rapidfuzz UDFs registered by SQLiteAPI) evaluate the emitted SQL; engine floats vs exact rationals "
        "(pairs within 1e-9 of a threshold are skipped unless the tie is dyadic)",
        "python oracle (harness/c16_oracle.py) for leaves abstract in Coq: Damerau-Levenshtein values, date parsing/epoch, haversine, "
        "cosine, regex validity pattern, pairwise array levels (labelled test, not proof)",
        "modelled not verified: engines' built-in metric functions beyond the explored pairs; SQL CASE / 3VL semantics of the engines",
    ]
    ok = ctx.proof_stage("Properties/C16.v")
    if not ok:
        ctx.violation("theorems of Properties/C16.v no longer check", {"broken": "Properties/C16.v"}, found_input=False)
    ctx.cov["translated_sources"] = {p: git_blob(REPO / p) for p in SOURCES}
    insts = T.level_grid(ctx.tier)
    comps = T.comparison_grid(ctx.tier)
    if ctx.replay:
        if replay_one(ctx, insts):
            return
    for i in insts:
        ctx.hist("level_grid_family", i.family)
    completeness_obligation(ctx, insts, comps)
    failing_levels, err1 = level_obligations(ctx, insts)
    failing_comps, structures, err2 = comparison_obligations(ctx, comps)

    from harness import c16_x
    tabs = c16_x.tables(ctx)
    before = len(ctx.violations) + len(ctx.known_hits)
    c16_x.level_stage(ctx, insts, tabs, ["duckdb", "sqlite"])
    c16_x.comparison_stage(ctx, comps, tabs, ["duckdb", "sqlite"], structures)
    found_concrete = len(ctx.violations) + len(ctx.known_hits) > before
    pctdiff_sqlite_integer_witness(ctx)
    damerau_variant_probe(ctx)

    # failed translator obligations: X above normally exhibits the concrete failing pair; report what is left
    seen = {(v.get("what") or "") for v in ctx.violations}
    for inst, d, sql, g in failing_levels[:8]:
        if any(inst.family in w and d in w for w in seen):
            continue
        ctx.violation(f"{inst.family} on {d}: emitted SQL is not the documented generator term",
                      {"broken": f"same_expr obligation {inst.key} on {d}", "sql": sql, "generator": g},
                      {"dialect": d, "level": inst.family, "obligation": True}, found_input=False)
    for inst, d, st in failing_comps[:8]:
        if any(v.get("what", "").startswith(f"{inst.key} on {d}:") for v in ctx.violations) or \
                any(h.get("matcher", {}).get("comparison") == inst.name for h in ctx.known_hits):
            continue            # X already exhibited a concrete failing record pair for this comparison
        why = explain_comparison_failure(ctx, inst, d, st)
        k = st.get("mismatch_level")
        ctx.violation(f"{inst.key} on {d}: emitted level list is not the documented one / fails levels_ok / CASE shape: {why}",
                      {"case": {"comparison": inst.key, "dialect": d, "levels": [(l["null"], l["sql"]) for l in st["levels"]], "case_sql": st["case_sql"],
                                "first_mismatching_level": k, "documented_level": st["expected"][k][1] if k is not None and k < len(st["expected"]) else None},
                       "implementation": "levels_ok && same_expr case (gen_case ls) && levels_match ls documented = false  " + why,
                       "specification": "the documented level list: null level first (with the configured validity pattern / date parsing), ELSE last, "
                                        "thresholds strict-to-loose, CASE maps levels to -1, n-1..1, 0"},
                      {"comparison": inst.name, "dialect": d, "levels_ok": False}, found_input=False)
    if err1 or err2:
        ctx.violation("translator obligations could not be evaluated", {"broken": "C16_t1/C16_t2 shards"}, found_input=False)
