"""C13 identifier layer: `run_idents(ctx)` (called from harness/c13.py).

 P  Properties/C13_idents.v: the name-level decisions (EM deactivation, exact-match levels for the
    training rule, derived column names, InputColumn quoting) commute with admissible renamings
    for every table of string operations accepted by `ops_good`; refutations of the historical
    defects.
 T  translators/c13_idents.py regenerates the table of string operations from the source;
    `ops_good ops_current` and `ops_eqb ops_current ops_modelled` are evaluated in Coq.
 X  the real functions are called on a pool of tricky column names x spellings of the training
    rule; (i) every result is compared, inside Coq, with the Gallina functions under ops_current;
    (ii) property oracle on the implementation alone: the decisions for a column called n equal
    the decisions for the same problem with the column called `surname`.
"""
from __future__ import annotations

import contextlib
import io
import re

from harness.common import Ctx, REPO, coq_list, git_blob
from translators import c13_idents as T

SOURCES = ["splink/internals/em_training_session.py", "splink/internals/settings.py", "splink/internals/comparison_level.py",
           "splink/internals/comparison.py", "splink/internals/input_column.py", "splink/internals/parse_sql.py"]

NAMES = [
    # plain
    "surname", "first_name", "dob", "a", "ab", "x1", "tf_x", "gamma_x", "bf_x",
    # _l / _r inside or at the end
    "name_last", "address_line_1", "fn_l", "fn_r", "a_l_r", "name_l_", "my_lr", "_l", "_r", "l_", "x_r_l",
    "surname_registered", "surname_legal_form", "date_registered", "first_language", "dob_raw", "col_l_l",
    # upper / mixed case (also in the suffix position)
    "Surname", "SURNAME", "FirstName", "x_L", "COL_R", "x_R_l", "Name_Last", "ADDRESS_LINE_1",
    # spaces and punctuation (need quoting)
    "first name", "Sur Name", "sur-name", "d.o.b", "home city_l", "a b c", "col#1", "what?", "x+y",
    # SQL keywords
    "group", "index", "Group", "INDEX", "order", "select", "from", "table", "where", "Order",
    # digits first
    "1st", "2nd col", "9", "123abc",
    # already quoted by the user
    '"quoted name"', '"Quoted_l"', '"group"',
]
BAD_NAMES = ['sur"name']       # the real InputColumn refuses these; counted, not compared


def name_class(n):
    if n[:1].isdigit():
        return "digit_leading"
    if n.strip('"').lower() in ("group", "index"):
        return "quoted_keyword"
    if re.search(r"_[lrLR](?=.)", n) or re.search(r"_[lrLR]$", n):
        return "suffix_like"
    if n != n.lower():
        return "upper_case"
    if not re.fullmatch(r"[A-Za-z_][A-Za-z0-9_]*", n.strip('"')):
        return "needs_quoting"
    if n.lower() in ("order", "select", "from", "table", "where"):
        return "keyword"
    return "plain"


def cstr(s):
    return T.cstr(s)


def copt(x, f):
    return "None" if x is None else f"(Some {f(x)})"


def clist(xs, f=cstr, ty="string"):
    return coq_list([f(x) for x in xs], ty)


# ------------------------------------------------------------------------- the real side
def quiet():
    return contextlib.redirect_stdout(io.StringIO())


def q_ident(name):
    return '"' + name.replace('"', '""') + '"'


def levels_for(ic):
    return [{"sql_condition": f"{ic.name_l} IS NULL OR {ic.name_r} IS NULL", "label_for_charts": "null", "is_null_level": True},
            {"sql_condition": f"{ic.name_l} = {ic.name_r}", "label_for_charts": "exact"},
            {"sql_condition": "ELSE", "label_for_charts": "else"}]


def both_levels(ic, io):
    return [{"sql_condition": f"{ic.name_l} IS NULL OR {ic.name_r} IS NULL OR {io.name_l} IS NULL OR {io.name_r} IS NULL",
             "label_for_charts": "null", "is_null_level": True},
            {"sql_condition": f"{ic.name_l} = {ic.name_r} AND {io.name_l} = {io.name_r}", "label_for_charts": "exact both"},
            {"sql_condition": "ELSE", "label_for_charts": "else"}]


class Real:
    """decisions of the real code for a column called `raw`"""

    def __init__(self, raw, api, with_both):
        from splink import SettingsCreator
        from splink.internals.input_column import InputColumn
        self.raw = raw
        self.api = api
        ic = InputColumn(raw, sqlglot_dialect_str="duckdb")
        io = InputColumn("zz_other", sqlglot_dialect_str="duckdb")
        self.ic = ic
        self.colname = ic.col_builder.column_name
        self.attrs = [ic.col_builder.column_name, ic.input_name, ic.name_l, ic.name_r, ic.unquote().name_l,
                      ic.tf_name_l, ic.tf_name_r]
        comps = [{"comparison_levels": levels_for(io)}, {"comparison_levels": levels_for(ic)}]
        if with_both:
            comps.append({"output_column_name": "both", "comparison_levels": both_levels(ic, io)})
        self.with_both = with_both
        self.settings = SettingsCreator(link_type="dedupe_only", comparisons=comps).get_settings("duckdb")
        cmp = self.settings.comparisons[1]
        self.exact_flags = [bool(lv._is_exact_match) for lv in cmp.comparison_levels]
        try:
            self.colnames = list(cmp.comparison_levels[1]._exact_match_colnames)
        except Exception:
            self.colnames = None
        self.cc = [c.col_builder.column_name for c in cmp._input_columns_used_by_case_statement]
        self.out = cmp.output_column_name
        self.gamma = cmp._gamma_column_name
        self.bf = cmp._bf_column_name

    def rule(self, spelled, both=False):
        sql = f"l.{q_ident(spelled)} = r.{q_ident(spelled)}"
        if both:
            sql += ' AND l."zz_other" = r."zz_other"'
        return sql

    def decide(self, rule_sql):
        from splink.internals.blocking import BlockingRule
        from splink.internals.em_training_session import EMTrainingSession
        from splink.internals.parse_sql import get_columns_used_from_sql
        from splink.internals.settings import Settings
        s = self.settings
        br_cols = sorted(get_columns_used_from_sql(rule_sql, "duckdb"))
        try:
            found = Settings._get_comparison_levels_corresponding_to_training_blocking_rule(rule_sql, "duckdb", s.comparisons)
            lv = []
            for d in found:
                ci = next(i for i, c in enumerate(s.comparisons) if c is d["comparison"])
                li = next(i for i, x in enumerate(d["comparison"].comparison_levels) if x is d["level"])
                lv.append((ci, li))
        except Exception:
            lv = None
        try:
            with quiet():
                ses = EMTrainingSession(None, self.api, BlockingRule(rule_sql, "duckdb"), s.core_model_settings,
                                        s.training_settings, s.column_info_settings.unique_id_input_columns)
            gone = {id(c) for c in ses._comparisons_that_cannot_be_estimated}
            names = {c.output_column_name for c in ses._comparisons_that_cannot_be_estimated}
            deact = [c.output_column_name in names for c in s.comparisons]
        except Exception:
            deact = None
        return br_cols, lv, deact


# ------------------------------------------------------------------------- Coq side
HEADER = """From Coq Require Import List Bool Arith String Ascii.
From Splinkv Require Import Model.Idents.
From SplinkGen Require Import %(gen)s.
Import ListNotations.
Open Scope string_scope.
Open Scope list_scope.
Definition dq : ascii := \"\"\"\"%%char.
Definition one (c : string) : acomparison := [ANull [c]; AExact [c]; AElse].
Definition both (c d : string) : acomparison := [ANull [c; d]; AExact [c; d]; AElse].
Definition pairs_eqb (a b : list (nat * nat)) : bool :=
  Nat.eqb (List.length a) (List.length b) &&
  forallb (fun xy => Nat.eqb (fst (fst xy)) (fst (snd xy)) && Nat.eqb (snd (fst xy)) (snd (snd xy))) (combine a b).
Definition opt_eqb {A} (f : A -> A -> bool) (a b : option A) : bool :=
  match a, b with Some x, Some y => f x y | None, None => true | _, _ => false end.
Definition bools_eqb (a b : list bool) : bool :=
  Nat.eqb (List.length a) (List.length b) && forallb (fun xy => Bool.eqb (fst xy) (snd xy)) (combine a b).
Definition set_eqb (a b : list string) : bool := subset a b && subset b a.
(* name case: raw name, the seven InputColumn strings, flags of the three levels, exact column names,
   columns used, output / gamma / bf names *)
Definition name_case (c : string * list string * list bool * option (list string) * list string * (string * string * string)) : bool :=
  match c with (raw, attrs, flags, cn, cc, (out, gam, bf)) =>
    let o := ops_current in
    let col := column_name_of dq raw in
    let cmp := render (fun x => x) (one col) in
    strs_eqb attrs [col; input_name o dq raw; name_l o dq raw; name_r o dq raw; unquoted_name_l o dq raw;
                    tf_name_l o dq "tf_" raw; tf_name_r o dq "tf_" raw] &&
    bools_eqb flags (map (level_is_exact o) cmp) &&
    opt_eqb strs_eqb cn (level_colnames o dq (nth 1 cmp {| lv_clauses := []; lv_else := true |})) &&
    set_eqb cc (cc_cols o cmp) &&
    opt_eqb String.eqb (Some out) (default_output_name o dq cmp) &&
    String.eqb gam (gamma_name o "gamma_" out) && String.eqb bf (bf_name o "bf_" out)
  end.
(* rule case: raw name, with the two-column comparison?, rule columns, levels found, deactivation *)
Definition rule_case (c : string * bool * list string * option (list (nat * nat)) * option (list bool)) : bool :=
  match c with (raw, wb, br, lv, de) =>
    let o := ops_current in
    let col := column_name_of dq raw in
    let cs := [one "zz_other"; one col] ++ (if wb then [both col "zz_other"] else []) in
    let rcs := map (render (fun x => x)) cs in
    opt_eqb pairs_eqb lv (levels_for_rule o dq br rcs) &&
    match de with Some d => bools_eqb d (deactivated o dq br rcs) | None => true end
  end.
Definition run_case (c : (string * list string * list bool * option (list string) * list string * (string * string * string))
                         + (string * bool * list string * option (list (nat * nat)) * option (list bool))) : bool :=
  match c with inl x => name_case x | inr y => rule_case y end.
Notation length := List.length.
"""


def pairs(lv):
    return coq_list([f"({a}%nat, {b}%nat)" for a, b in lv], "(nat * nat)%type")


def bools(bs):
    return coq_list(["true" if b else "false" for b in bs], "bool")


def run_idents(ctx: Ctx):
    from splink import DuckDBAPI
    ctx.cov.setdefault("idents", {})
    cov = ctx.cov["idents"]
    ctx.trusted += [
        "identifier layer: translators/c13_idents.py (ast shape recognition of the string operations; unknown shapes fail closed)",
        "identifier layer: the SQL parser (sqlglot) is outside the Gallina model - a condition is given by the identifiers found "
        "in it; the tie is X (real parse + real functions vs the model on the expected identifiers)",
        "identifier layer: ASCII names; Python str.lower() = ASCII lower on them",
    ]
    ok = ctx.proof_stage("Properties/C13_idents.v")
    if not ok:
        ctx.violation("theorems of Properties/C13_idents.v no longer check", {"broken": "Properties/C13_idents.v"},
                      {"layer": "idents"}, found_input=False)
    # ---------------------------------------------------------------- T
    gen = f"{ctx.pid}_idents_gen"
    ops = None
    t_ok = {"good": False, "modelled": False}
    try:
        ops = T.current_ops()
    except T.Untranslatable as e:
        ctx.obligation("translate the identifier-handling functions", False, str(e))
        cov["untranslatable"] = str(e)
    cov["translated_sources"] = {p: git_blob(REPO / p) for p in SOURCES}
    if ops is not None:
        cov["ops_current"] = {k: (v if not isinstance(v, list) else list(v)) for k, v in ops.items()}
        okc, out = ctx.coqc_text(gen, T.gen_text(ops))
        m = re.search(r"=\s*\((true|false),\s*(true|false),\s*(true|false)\)", out.replace("\n", " ")) if okc else None
        if m:
            t_ok["good"] = m.group(1) == "true"
            t_ok["modelled"] = m.group(2) == "true"
            t_ok["modelled_requoting"] = m.group(3) == "true"
        ctx.obligation("ops_good ops_current = true (commutation theorems apply to the current string operations)",
                       t_ok["good"], str({k: ops[k] for k in ops if ops[k] != T.MODELLED.get(k)}))
        ctx.obligation("ops_eqb ops_current (ops_modelled IdName) = true (current operations are the modelled ones)",
                       t_ok["modelled"], str({k: ops[k] for k in ops if ops[k] != T.MODELLED.get(k)}))
    cov["t_obligations"] = dict(t_ok)
    # ---------------------------------------------------------------- X
    api = DuckDBAPI()
    terms, metas = [], []
    canon = {}
    found_input = False
    skipped = 0
    reported = set()
    pool = list(NAMES)
    if not ctx.quick:
        pool += [n.upper() for n in NAMES if n.upper() not in NAMES and '"' not in n][:25]
    for bi, raw in enumerate(["surname"] + [n for n in pool if n != "surname"] + BAD_NAMES):
        with_both = bi % 3 == 0
        try:
            r = Real(raw, api, with_both)
        except Exception as e:
            skipped += 1
            ctx.hist("idents_names", "refused by InputColumn / Settings")
            if raw not in BAD_NAMES:
                ctx.notes.append(f"idents: name {raw!r} refused by the real code: {e!r}"[:160])
            continue
        ctx.hist("idents_names", name_class(raw))
        col = r.colname
        if ops is not None:
            terms.append("(inl (%s, %s, %s, %s, %s, (%s, %s, %s)))" % (
                cstr(raw), clist(r.attrs), bools(r.exact_flags), copt(r.colnames, clist), clist(r.cc),
                cstr(r.out), cstr(r.gamma), cstr(r.bf)))
            metas.append({"kind": "name", "name": raw, "real": {"attrs": r.attrs, "exact_flags": r.exact_flags,
                                                               "colnames": r.colnames, "cc": r.cc, "out": r.out,
                                                               "gamma": r.gamma, "bf": r.bf}})
        spellings = [("same", col)]
        if col.upper() != col:
            spellings.append(("upper", col.upper()))
        if col.lower() != col:
            spellings.append(("lower", col.lower()))
        for sk, sp in spellings:
            for bothrule in ([False, True] if with_both else [False]):
                rule = r.rule(sp, bothrule)
                try:
                    br_cols, lv, deact = r.decide(rule)
                except Exception as e:
                    skipped += 1
                    ctx.notes.append(f"idents: rule {rule!r} could not be evaluated: {e!r}"[:160])
                    continue
                expected_br = sorted([sp] + (["zz_other"] if bothrule else []))
                nontrivial = lv is not None and deact is not None
                ctx.count_case(("idents", raw, sk, bothrule), nontrivial, {"name": raw, "rule": rule, "levels": lv, "deactivated": deact})
                if br_cols != expected_br:
                    ctx.violation(f"idents: get_columns_used_from_sql({rule!r}) = {br_cols}, expected {expected_br}",
                                  {"case": {"name": raw, "rule": rule}, "implementation": br_cols, "specification": expected_br},
                                  {"layer": "idents", "decision": "rule_columns", "name_class": name_class(raw)})
                    found_input = True
                if ops is not None:
                    terms.append("(inr (%s, %s, %s, %s, %s))" % (
                        cstr(raw), "true" if with_both else "false", clist(br_cols), copt(lv, pairs), copt(deact, bools)))
                    metas.append({"kind": "rule", "name": raw, "rule": rule, "real": {"levels": lv, "deactivated": deact}})
                # property oracle on the implementation alone: same decisions as for `surname`
                if raw == "surname" and sk == "same":
                    canon[("same", bothrule, with_both)] = (lv, deact)      # the canonical presentation
                    continue
                ref = canon.get(("same", bothrule, with_both))
                if ref is None:
                    rs = Real("surname", api, with_both)
                    ref = rs.decide(rs.rule("surname", bothrule))[1:]
                    canon[("same", bothrule, with_both)] = ref
                if (lv, deact) != tuple(ref):
                    dec = "exact_levels" if lv != ref[0] else "deactivation"
                    rk = (dec, name_class(raw))
                    found_input = True
                    if rk in reported:
                        ctx.hist("idents_rename_differences", f"{dec}:{name_class(raw)}")
                        continue
                    reported.add(rk)
                    ctx.violation(
                        f"idents: calling the column {raw!r} (rule spelled {sp!r}) instead of 'surname' changes the {dec} decision: "
                        f"levels {lv} vs {ref[0]}, deactivated {deact} vs {ref[1]}",
                        {"case": {"name": raw, "rule": rule, "two_column_comparison": with_both},
                         "implementation": {"levels_for_rule": lv, "deactivated": deact},
                         "specification": {"levels_for_rule": ref[0], "deactivated": ref[1],
                                           "meaning": "same decisions as for the presentation that calls the column surname"}},
                        {"layer": "idents", "decision": dec, "name_class": name_class(raw)})
    cov["names"] = len(pool)
    cov["skipped"] = skipped
    # ---------------------------------------------------------------- model vs implementation inside Coq
    if ops is not None and terms:
        bad, errs = ctx.eval_cases(f"{ctx.pid}_idents_x", HEADER % {"gen": gen}, terms, "run_case", shard=150)
        cov["coq_evaluated_cases"] = len(terms)
        ctx.obligation("idents correspondence: Gallina functions under ops_current = real functions on the name pool",
                       not bad and not errs, "; ".join(errs)[:400])
        for e in errs[:1]:
            ctx.violation("idents correspondence cases could not be evaluated in Coq", {"broken": "idents_x", "error": e[:1200]},
                          {"layer": "idents"}, found_input=False)
        seen = set()
        for b in bad:
            m = metas[b]
            k = (m["kind"], name_class(m["name"]))
            if k in seen:
                continue
            seen.add(k)
            found_input = True
            ctx.violation(f"idents: the Gallina model under the extracted operations disagrees with the real code for the name "
                          f"{m['name']!r} ({m['kind']} case)",
                          {"case": m, "specification": "model functions evaluated in Coq on the same name / rule"},
                          {"layer": "idents", "decision": "model_mismatch", "kind": m["kind"], "name_class": name_class(m["name"])})
    # failed T obligation and nothing concrete found
    if ops is None or not (t_ok["good"] and t_ok["modelled"]):
        if not found_input:
            ctx.violation("idents: the current string operations are not the modelled ones and no name from the pool shows a "
                          "difference: " + str(cov.get("untranslatable") or {k: ops[k] for k in ops if ops[k] != T.MODELLED.get(k)}),
                          {"broken": "ops_current obligations", "ops": cov.get("ops_current")},
                          {"layer": "idents", "unconfirmed": True}, found_input=False)
