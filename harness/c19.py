"""C19  Graph metrics equal their graph-theoretic definitions.

 P  theorems in Properties/C19.v about the statement-by-statement Gallina model of
    graph_metrics.py / edge_metrics.py: degree = incidence count, handshake, density and
    centralisation formulae with their guards, one row per record / edge / cluster, and the
    executable bridge test = the inductive definition.
 X  the real linker.clustering.compute_graph_metrics on DuckDB and SQLite vs the model
    evaluated inside Coq (harness/c19_x.py); igraph's answer is compared with the model's own
    bridge decision.
"""
from __future__ import annotations

from harness.common import Ctx, REPO, git_blob


def run(ctx: Ctx):
    ctx.cov["rule"] = ("seeded prediction tables: 2-12 records split into components drawn from tree / path / cycle / clique / star / "
                       "barbell / random / isolated, optional inter-component edge, probabilities k/1024 incl. exactly the threshold "
                       "and below it, both orientations, shuffled rows, ~12% multigraphs (parallel edge or self loop); dedupe_only "
                       "(plain ids) and link types with composite ids (same unique_id in several datasets); clustering = components at "
                       "the threshold, an arbitrary partition (edges crossing clusters), or the real "
                       "cluster_pairwise_predictions_at_threshold output (threshold from metadata every other time); always >= 1 edge at "
                       "the threshold. Plus histories of 2-3 calls on ONE linker (same inputs again / new threshold / new prediction table), "
                       "thresholds incl. 0.0 and 1.0, passed explicitly, read from the clustering metadata, or passed explicitly over a "
                       "different metadata value, with and without metadata; every call is compared with the model and a call that raises "
                       "is reported with its history as replay. Non-trivial: >= 4 thresholded edges, or >= 2 with a cluster of >= 3 and an isolated record.")
    ctx.trusted += [
        "modelled not verified: SQL engines' join / group by / window semantics",
        "the integer relabelling for igraph (__splink__nodes_integer_mapping and back) is not modelled; X compares the final edge table",
        "engine floats compared with the model's exact rationals with tolerance 1e-9 (inside Coq)",
    ]
    ok = ctx.proof_stage("Properties/C19.v")
    if not ok:
        ctx.violation("theorems of Properties/C19.v no longer check", {"broken": "Properties/C19.v"}, found_input=False)
    ctx.cov["sources"] = {p: git_blob(REPO / p) for p in
                          ["splink/internals/graph_metrics.py", "splink/internals/edge_metrics.py",
                           "splink/internals/linker_components/clustering.py"]}
    from harness import c19_x
    if ctx.replay:
        c19_x.replay(ctx)
        return
    c19_x.correspondence(ctx)
