"""C07/C18 shared driver: runs histories of public operations on a real Linker (DuckDB / SQLite),
records for every operation the executed templated names, the cache hits and the cache content,
and renders the history as a Coq term for Model/Cache.v."""
from __future__ import annotations

import json
import math
import re
import sqlite3

import duckdb
import pandas as pd

from harness import splink_util as su
from harness.common import coq_bool, coq_list, coq_nat, coq_string

TF_COLS = ["first_name", "surname"]
HASH_RE = re.compile(r"_[0-9a-f]{9}$")
UID_RE = re.compile(r"_[a-z0-9]{8}$")
# tables of data-dependent loops (EM iterations, connected-components iterations); they are
# created and dropped inside one operation and are not part of the model's trace.  The cache
# listing after every operation shows that none of them survives.
TRANSIENT = re.compile(
    r"^__splink__(m_u_counts|agreement_pattern_counts|df_edges_with_self_loops|df_neighbours.*|"
    r"df_representatives.*|representatives_.*|df_root_rows|clustering_output_final|stable_nodes_at_new_threshold|"
    r"nodes_in_play|edges_in_play|clusters_at_threshold)$")

FN = ["ann", "bob", "cat", "ann", "bob", "ann", "dan", "eve", "ann", "bob", "cat", "dan", "eve", "ann"]
SN = ["x", "y", "x", "x", "y", "z", "z", "x", "y", "y", "x", "z", "x", "z"]
CT = ["l", "l", "m", "m", "l", "l", "m", "m", "l", "m", "l", "l", "m", "m"]


def data_rows(version: int, offset: int = 0) -> list[dict]:
    """Input rows of data version `version` (versions differ in names, so predictions differ)."""
    rows = []
    n = len(FN)
    for i in range(n):
        fn = FN[(i + 3 * version) % n] if (i + version) % 3 == 0 else FN[i]
        sn = SN[(i + version) % n] if i % 4 == 0 else SN[i]
        rows.append({"unique_id": i + offset, "first_name": fn, "surname": sn, "city": CT[i], "grp": (i + version) % 5})
    for k in range(version % 3):
        rows.append({"unique_id": n + k + offset, "first_name": FN[k], "surname": SN[k + 1], "city": CT[k], "grp": k})
    return rows


def label_rows(table: str, offset: int = 0, table_r: str | None = None, offset_r: int | None = None) -> list[dict]:
    pairs = [(0, 3, 1.0), (1, 4, 1.0), (0, 1, 0.0), (2, 10, 1.0), (5, 8, 0.0), (6, 11, 1.0)]
    table_r = table if table_r is None else table_r
    offset_r = offset if offset_r is None else offset_r
    return [{"unique_id_l": a + offset, "unique_id_r": b + offset_r, "source_dataset_l": table, "source_dataset_r": table_r,
             "clerical_match_score": c} for a, b, c in pairs]


LOOKUP_ONLY = {"first_name": "zed", "surname": "qq"}     # values that occur in the lookups but never in the input data


def lookup_rows(col: str, ver: int) -> list[dict]:
    """Lookup table: every value of the data (with frequencies that differ from the data's: denominator 37) plus one
    value that does not occur in the data."""
    vals = sorted(set(FN if col == "first_name" else SN)) + [LOOKUP_ONLY[col]]
    return [{col: v, f"tf_{col}": (1 + (sum(map(ord, v)) * (ver + 3) + 5 * ver) % 13) / 37.0} for v in vals]


def settings_creator(link_type="dedupe_only"):
    import splink.comparison_library as cl
    from splink import SettingsCreator, block_on
    return SettingsCreator(
        link_type=link_type,
        comparisons=[cl.ExactMatch("first_name").configure(term_frequency_adjustments=True),
                     cl.ExactMatch("surname").configure(term_frequency_adjustments=True),
                     cl.ExactMatch("city")],
        blocking_rules_to_generate_predictions=[block_on("surname"), block_on("city")],
        retain_intermediate_calculation_columns=True,
        max_iterations=3,
    )


UID_NAMES = re.compile(
    r"^(__splink__df_tf_(?:first_name|surname|city)|__splink__df_new_records|__splink__df_labels|"
    r"__splink__compare_two_records_(?:left|right)|__splink__compare_records_(?:left|right)|"
    r"__splink__realtime_compare_records|__splink__df_concat_with_tf|__splink__df_predict)_[a-z0-9]{8}$")


def strip_name(name: str) -> tuple[str, bool]:
    """(base name, is_hashed) of a physical name / cache key."""
    if HASH_RE.search(name):
        return HASH_RE.sub("", name), True
    m = UID_NAMES.match(name)
    if m:
        return m.group(1), False
    return name, False


class World:
    """One Linker on one DatabaseAPI over a database that holds the input table `inp`."""

    def __init__(self, backend: str, version: int = 0, path: str | None = None, settings=None,
                 table: str = "inp", api=None, offset: int = 0, create_input: bool = True, link: bool = False):
        from splink import Linker
        self.backend = backend
        self.table = table
        self.version = version
        self.offset = offset
        self.link = link
        # link world: two input tables (second one with ids shifted by 100), link_and_dedupe
        self.tables = [table, table + "_b"] if link else [table]
        self.link_type = "link_and_dedupe" if link else "dedupe_only"
        if api is None:
            if backend == "duckdb":
                con = duckdb.connect(path or ":memory:")
                api = su.duckdb_api(con)
                self.con = con
            else:
                con = sqlite3.connect(path or ":memory:")
                from splink.internals.sqlite.database_api import SQLiteAPI
                api = SQLiteAPI(con)
                self.con = con
        else:
            self.con = api._con if backend == "duckdb" else api.con
        self.api = api
        if create_input:
            self.write_input(version)
        self.linker = Linker(self.tables if link else table,
                             settings if settings is not None else settings_creator(self.link_type), api,
                             **({"input_table_aliases": self.tables} if link else {}))
        su.quiet()
        self.cache = self.linker._intermediate_table_cache
        self.registered: dict[str, int] = {}
        self.last_routes = None
        self.tf_problem = None
        self.last_output = None
        self.param_ids: dict[str, int] = {}
        self.params = self.param_id()
        self.tfcols = [c.unquote().name for c in self.linker._settings_obj._term_frequency_columns]

    # ------------------------------------------------------------------ data
    def write_input(self, version: int):
        for k, t in enumerate(self.tables):
            df = pd.DataFrame(data_rows(version + 2 * k, self.offset + 100 * k))
            for c in ("first_name", "surname", "city"):
                df[c] = df[c].astype("string")
            if self.backend == "duckdb":
                self.con.register("__c07_df", df)
                self.con.execute(f"create or replace table {t} as select * from __c07_df")
                self.con.unregister("__c07_df")
            else:
                self.con.execute(f"drop table if exists {t}")
                df.astype({"first_name": "object", "surname": "object", "city": "object"}).to_sql(t, self.con, index=False)
        self.version = version

    def model_json(self) -> dict:
        d = self.linker.misc.save_model_to_json()
        return json.loads(json.dumps(d))

    def param_id(self) -> int:
        d = self.model_json()
        d.pop("linker_uid", None)
        key = json.dumps(d, sort_keys=True)
        return self.param_ids.setdefault(key, len(self.param_ids))

    # ------------------------------------------------------------------ calls that must FAIL (and leave the linker as it was)
    FAILING = ("fm_fail", "c2_fail")

    def fail(self, op: tuple):
        """Runs a call built to raise.  Returns the exception text, or None when it did not raise.
        fm_fail 0: find_matches_to_new_records with its own blocking rule on a column the new record lacks;
        fm_fail 1: ... with a blocking rule on a column that exists nowhere;
        c2_fail:   compare_two_records with a record lacking a compared column."""
        lk = self.linker
        try:
            if op[0] == "fm_fail" and op[1] == 0:
                lk.inference.find_matches_to_new_records([{"unique_id": 950, "first_name": "ann", "city": "l"}],
                                                         blocking_rules=["l.surname = r.surname"], match_weight_threshold=-1e9)
            elif op[0] == "fm_fail":
                lk.inference.find_matches_to_new_records([{"unique_id": 951, "first_name": "ann", "surname": "x", "city": "l"}],
                                                         blocking_rules=["l.no_such_column = r.no_such_column"],
                                                         match_weight_threshold=-1e9)
            else:
                lk.inference.compare_two_records({"unique_id": 960, "first_name": "ann", "city": "l"},
                                                 {"unique_id": 961, "first_name": "ann", "surname": "x", "city": "l"})
        except Exception as e:  # noqa: BLE001
            return f"{type(e).__name__}: {e}"[:300]
        return None

    def settings_snapshot(self) -> dict:
        """What a failing call must leave alone: the saved model and the flags compare_two_records forces for its duration."""
        so = self.linker._settings_obj
        return {"saved_model": self.model_json(),
                "blocking_rules": [br.blocking_rule_sql for br in so._blocking_rules_to_generate_predictions],
                "link_type": so._link_type,
                "retain_matching_columns": so._retain_matching_columns,
                "retain_intermediate_calculation_columns": so._retain_intermediate_calculation_columns}

    # ------------------------------------------------------------------ observation
    def reset_trackers(self):
        self.cache.reset_executed_queries_tracker()
        self.cache.reset_queries_retrieved_from_cache_tracker()

    def observe(self):
        ex = [d.templated_name for d in self.cache.executed_queries if not TRANSIENT.match(d.templated_name)]
        hits = [(d.templated_name, strip_name(d.physical_name)[0]) for d in self.cache.queries_retrieved_from_cache]
        listing = []
        for k, v in self.cache.data.items():
            kb, kh = strip_name(k)
            listing.append((kb, kh, strip_name(v.physical_name)[0], bool(v.created_by_splink)))
        return ex, hits, sorted(listing)

    # ------------------------------------------------------------------ operations
    def apply(self, op: tuple):
        """Runs one operation; returns (coq op term, raised?)."""
        lk = self.linker
        from splink import block_on
        kind = op[0]
        raised = None
        try:
            if kind == "predict":
                lk.inference.predict()
                term = "Predict"
            elif kind == "detlink":
                lk.inference.deterministic_link()
                term = "DeterministicLink"
            elif kind == "est_u":
                seed = op[1]
                lk.training.estimate_u_using_random_sampling(max_pairs=1e4, seed=seed if seed else None)
                self.params = self.param_id()
                term = f"(EstimateU {coq_nat(1 if seed else 0)} {coq_nat(self.params)})"   # full sample: the SQL differs only by seeded / unseeded
            elif kind == "em":
                rule = [block_on("first_name"), block_on("surname")][op[1]]
                lk.training.estimate_parameters_using_expectation_maximisation(rule)
                self.params = self.param_id()
                term = f"(EstimateEM {coq_nat(op[1])} {coq_nat(self.params)})"
            elif kind == "prior":
                rules = [[block_on("first_name", "surname")], [block_on("surname", "city")]][op[1]]
                lk.training.estimate_probability_two_random_records_match(rules, recall=0.9)
                self.params = self.param_id()
                term = f"(EstimatePrior {coq_nat(op[1])} {coq_nat(self.params)})"
            elif kind == "ctf":
                lk.table_management.compute_tf_table(op[1])
                term = f"(ComputeTF {coq_string(op[1])})"
            elif kind == "rtf_ow":
                term = f"(RegisterTFOverwrite {coq_string(op[1])} {coq_nat(op[2])})"
                lk.table_management.register_term_frequency_lookup(pd.DataFrame(lookup_rows(op[1], op[2])), op[1], overwrite=True)
                self.registered[op[1]] = op[2]
            elif kind == "rtf":
                term = f"(RegisterTF {coq_string(op[1])} {coq_nat(op[2])})"
                df = pd.DataFrame(lookup_rows(op[1], op[2]))
                try:
                    lk.table_management.register_term_frequency_lookup(df, op[1])
                    self.registered[op[1]] = op[2]
                except ValueError as e:
                    if "already exists" not in str(e):
                        raise
            elif kind == "fm":
                # new records carrying a value that only the lookups know, and one that the data knows too
                recs = [{"unique_id": 900 + self.offset, "first_name": LOOKUP_ONLY["first_name"], "surname": "x", "city": "l", "grp": 0},
                        {"unique_id": 901 + self.offset, "first_name": "ann", "surname": LOOKUP_ONLY["surname"], "city": "l", "grp": 0}]
                if self.link:
                    for r in recs:
                        r["source_dataset"] = "new"
                self.last_output = lk.inference.find_matches_to_new_records(recs, blocking_rules=[], match_weight_threshold=-1e9)
                # find_matches computes concat_with_tf itself before it chooses the routes: they are those of the state AFTER
                exp = {(r["unique_id"], c): self.expected_tf(c, r[c]) for r in recs for c in self.tfcols}
                self.last_routes = [self.route_kind(c) for c in self.tfcols]
                self.tf_problem = self.check_tf(su.records(self.last_output), exp)
                term = "FindMatches"
            elif kind == "fm_tab":
                # new records handed over by TABLE NAME; the caller replaces the table's rows between searches
                ver = op[1]
                recs = pd.DataFrame([{"unique_id": 950 + self.offset + k, "first_name": FN[(ver + k) % len(FN)],
                                      "surname": SN[(2 * ver + k) % len(SN)], "city": "l", "grp": 0} for k in range(2)])
                if self.link:
                    recs["source_dataset"] = "new"
                if self.backend == "duckdb":
                    self.con.register("__c07_new", recs)
                    self.con.execute("create or replace table c07_new_records as select * from __c07_new")
                    self.con.unregister("__c07_new")
                else:
                    self.con.execute("drop table if exists c07_new_records")
                    recs.to_sql("c07_new_records", self.con, index=False)
                self.last_output = lk.inference.find_matches_to_new_records("c07_new_records", blocking_rules=[],
                                                                           match_weight_threshold=-1e9)
                term = f'(FindMatchesTable "c07_new_records" {coq_nat(ver)})'
            elif kind == "c2":
                r1 = {"unique_id": 901, "first_name": LOOKUP_ONLY["first_name"], "surname": LOOKUP_ONLY["surname"], "city": "l"}
                r2 = {"unique_id": 902, "first_name": "ann", "surname": "x", "city": "l"}
                exp = {(r["unique_id"], c): self.expected_tf(c, r[c]) for r in (r1, r2) for c in self.tfcols}
                self.last_routes = [self.route_kind(c) for c in self.tfcols]
                self.last_output = lk.inference.compare_two_records(r1, r2, include_found_by_blocking_rules=bool(op[1]))
                self.tf_problem = self.check_tf(su.records(self.last_output), exp)
                term = f"(CompareTwo {coq_bool(op[1])})"
            elif kind == "cluster":
                thr = [0.5, 0.9][op[1]]
                lk.clustering.cluster_pairwise_predictions_at_threshold(lk.inference.predict(), thr)
                term = f"(Cluster {coq_nat(op[1])})"
            elif kind == "sbl":
                # single best links needs source datasets: link world only (the dedupe world raises loudly)
                thr = [0.5, 0.9][op[1]]
                self.last_output = lk.clustering.cluster_using_single_best_links(
                    lk.inference.predict(), duplicate_free_datasets=[self.tables[-1]], threshold_match_probability=thr)
                term = f"(Cluster {coq_nat(10 + op[1])})"
            elif kind in NEW_OPS:
                term = self.apply_new(op)
            elif kind == "inv":
                had = len(self.cache) > 0
                lk.table_management.invalidate_cache()
                if had:
                    self.registered.clear()
                term = "InvalidateCache"
            elif kind == "del":
                lk.table_management.delete_tables_created_by_splink_from_db()
                term = "DeleteTables"
            elif kind == "chg":
                self.write_input(self.version + 1)
                had = len(self.cache) > 0
                lk.table_management.invalidate_cache()
                if had:
                    self.registered.clear()
                term = f"(ChangeInputInvalidate {coq_nat(self.version)})"
            elif kind == "chg_bare":
                self.write_input(self.version + 1)
                term = f"(ChangeInput {coq_nat(self.version)})"
            else:
                raise KeyError(kind)
        except Exception as e:  # noqa: BLE001
            raised = f"{type(e).__name__}: {e}"[:600]
            term = None
        return term, raised

    # ---- the ad-hoc term-frequency route of compare_two_records / find_matches_to_new_records, recomputed from the
    #      real tables: cached tf table first, else select distinct from the cached concat_with_tf, else NULL
    def route_kind(self, col: str) -> int:
        if f"__splink__df_tf_{col}" in self.cache.data:
            return 1
        return 2 if "__splink__df_concat_with_tf" in self.cache.data else 3

    def expected_tf(self, col: str, value):
        kind = self.route_kind(col)
        if kind == 3:
            return None
        key = f"__splink__df_tf_{col}" if kind == 1 else "__splink__df_concat_with_tf"
        phys = self.cache.data[key].physical_name
        cur = self.con.execute(f"select distinct tf_{col} from {phys} where {col} = '{value}'")
        rows = cur.fetchall()
        rows = [tuple(r.values()) if isinstance(r, dict) else tuple(r) for r in rows]
        return rows[0][0] if rows else None

    @staticmethod
    def check_tf(rows: list[dict], expected: dict):
        """tf_<col>_l / tf_<col>_r of every output row against the value the route prescribes."""
        for r in rows:
            for side in ("l", "r"):
                uid = r.get(f"unique_id_{side}")
                for (eid, col), val in expected.items():
                    if eid != uid or f"tf_{col}_{side}" not in r:
                        continue
                    got = r[f"tf_{col}_{side}"]
                    if (got is None) != (val is None) or (got is not None and abs(got - val) > 1e-12):
                        return {"record": uid, "column": f"tf_{col}_{side}", "implementation": got, "route_value": val}
        return None

    def labels(self):
        if self.link:
            rows = label_rows(self.tables[0], self.offset, self.tables[1], self.offset + 100)
        else:
            rows = label_rows(self.table, self.offset)
        return self.linker.table_management.register_labels_table(pd.DataFrame(rows))

    def apply_new(self, op: tuple):
        """Second-wave operations; stores the returned table (if any) in self.last_output."""
        from splink import block_on
        from splink.blocking_analysis import (count_comparisons_from_blocking_rule,
                                              cumulative_comparisons_to_be_scored_from_blocking_rules_data, n_largest_blocks)
        from splink.exploratory import completeness_chart, profile_columns
        from splink.internals.clustering import cluster_pairwise_predictions_at_multiple_thresholds
        lk, kind = self.linker, op[0]
        rules = [block_on("surname"), block_on("city")]
        self.last_output = None
        if kind == "acc_col":
            self.last_output = lk.evaluation.accuracy_analysis_from_labels_column("grp", output_type="table")
            return "AccuracyColumn"
        if kind == "err_col":
            self.last_output = lk.evaluation.prediction_errors_from_labels_column("grp")
            return "ErrorsColumn"
        if kind == "acc_tab":
            self.last_output = lk.evaluation.accuracy_analysis_from_labels_table(self.labels(), output_type="table")
            return "AccuracyTable"
        if kind == "err_tab":
            self.last_output = lk.evaluation.prediction_errors_from_labels_table(self.labels())
            return "ErrorsTable"
        if kind == "m_col":
            lk.training.estimate_m_from_label_column("grp")
            self.params = self.param_id()
            return f"(EstimateMColumn {coq_nat(self.params)})"
        if kind == "m_pair":
            lk.training.estimate_m_from_pairwise_labels(self.labels())
            self.params = self.param_id()
            return f"(EstimateMPairwise {coq_nat(self.params)})"
        if kind == "unlink":
            lk.evaluation.unlinkables_chart(as_dict=True)
            return "Unlinkables"
        if kind == "profile":
            profile_columns(self.tables, self.api, column_expressions=["first_name", "city"])
            return "Profile"
        if kind == "complete":
            completeness_chart(self.tables, self.api, cols=["first_name", "surname"])
            return "Completeness"
        if kind == "ba_count":
            count_comparisons_from_blocking_rule(table_or_tables=self.tables, blocking_rule=rules[op[1]],
                                                 link_type=self.link_type, db_api=self.api)
            return f"(BlockingCount {coq_nat(op[1])})"
        if kind == "ba_cum":
            cumulative_comparisons_to_be_scored_from_blocking_rules_data(
                table_or_tables=self.tables, blocking_rules=rules, link_type=self.link_type, db_api=self.api)
            return "BlockingCumulative"
        if kind == "ba_nl":
            self.last_output = n_largest_blocks(table_or_tables=self.tables, blocking_rule=rules[op[1]],
                                                link_type=self.link_type, db_api=self.api)
            return f"(BlockingLargest {coq_nat(op[1])})"
        if kind == "multi":
            p = lk.inference.predict()
            self.last_output = cluster_pairwise_predictions_at_multiple_thresholds(
                self.table, p.physical_name, self.api, "unique_id", match_probability_thresholds=[0.5, 0.9])
            return "ClusterMulti"
        if kind == "metrics":
            thr = [0.5, 0.9][op[1]]
            p = lk.inference.predict()
            c = lk.clustering.cluster_pairwise_predictions_at_threshold(p, thr)
            if not any(r["match_probability"] >= thr for r in su.records(p)):
                # no edge reaches the threshold: compute_graph_metrics hands igraph an empty frame and raises (outside
                # C07, reported to the coordinator); the operation degenerates to predict + cluster
                self.last_output = c
                return f"(Cluster {coq_nat(op[1])})"
            res = lk.clustering.compute_graph_metrics(p, c, threshold_match_probability=thr)
            self.last_output = res.nodes
            return f"(GraphMetrics {coq_nat(op[1])})"
        raise KeyError(kind)

    def output_rows(self, op: tuple):
        """Rows of the table the operation returns (None when it returns no table)."""
        self.last_output = None
        kind = op[0]
        if kind == "predict":
            return su.records(self.linker.inference.predict())
        if kind in ("c2", "fm", "fm_tab"):
            term, raised = self.apply(op)
            if raised:
                raise RuntimeError(raised)
            rows = su.records(self.last_output)
            for r in rows:          # ids of the registered record tables differ between linkers
                r.pop("match_key", None)
            return rows
        if kind == "detlink":
            return su.records(self.linker.inference.deterministic_link())
        if kind == "cluster":
            return su.records(self.linker.clustering.cluster_pairwise_predictions_at_threshold(
                self.linker.inference.predict(), [0.5, 0.9][op[1]]))
        term, raised = self.apply(op)
        if raised:
            raise RuntimeError(raised)
        return su.records(self.last_output) if self.last_output is not None else None

    # ------------------------------------------------------------------ oracle
    def predict_rows(self):
        return su.records(self.linker.inference.predict())

    def fresh(self, settings=None) -> "World":
        """A fresh Linker on a new database with the same input rows, the saved model (or the given one, saved earlier) and
        the currently registered lookups."""
        w = World(self.backend, self.version, settings=settings or self.model_json(), table=self.table, offset=self.offset,
                  link=self.link)
        for col, ver in self.registered.items():
            w.linker.table_management.register_term_frequency_lookup(pd.DataFrame(lookup_rows(col, ver)), col)
        return w

    def close(self):
        try:
            self.con.close()
        except Exception:  # noqa: BLE001
            pass


NEW_OPS = {"acc_col", "err_col", "acc_tab", "err_tab", "m_col", "m_pair", "unlink", "profile", "complete", "ba_count",
           "ba_cum", "ba_nl", "multi", "metrics"}
TABLE_OPS = [("predict",), ("detlink",), ("cluster", 0), ("acc_col",), ("err_col",), ("acc_tab",), ("err_tab",),
             ("ba_nl", 0), ("multi",), ("sbl", 0), ("c2", False), ("fm",), ("c2", True), ("fm",)]


def table_diff(a: list[dict], b: list[dict], tol=1e-9):
    """Generic bag comparison of two result tables (floats within tol)."""
    if a is None or b is None:
        return None if a is b else {"why": "one side returned no table"}
    if (a and b) and set(a[0]) != set(b[0]):
        return {"why": "different columns", "only_history": sorted(set(a[0]) - set(b[0])), "only_fresh": sorted(set(b[0]) - set(a[0]))}
    if len(a) != len(b):
        return {"why": "different number of rows", "history": len(a), "fresh": len(b)}

    def canon(r):
        return tuple((k, (round(v, 6) if isinstance(v, float) and not math.isnan(v) else repr(v))) for k, v in sorted(r.items()))
    sa, sb = sorted(a, key=lambda r: repr(canon(r))), sorted(b, key=lambda r: repr(canon(r)))
    for ra, rb in zip(sa, sb):
        for c in ra:
            x, y = ra[c], rb[c]
            if isinstance(x, float) and isinstance(y, float):
                if (math.isnan(x) and math.isnan(y)) or x == y or abs(x - y) <= tol * max(1.0, abs(x), abs(y)):
                    continue
                return {"why": "value", "column": c, "history": x, "fresh": y, "row": {k: ra[k] for k in list(ra)[:6]}}
            if x != y:
                return {"why": "value", "column": c, "history": x, "fresh": y, "row": {k: ra[k] for k in list(ra)[:6]}}
    return None


def rows_diff(a: list[dict], b: list[dict], tol=1e-9):
    """None if the two prediction tables are equal row by row (floats within tol)."""
    def key(r):
        return (str(r.get("source_dataset_l")), str(r["unique_id_l"]), str(r.get("source_dataset_r")), str(r["unique_id_r"]))
    da, db = {key(r): r for r in a}, {key(r): r for r in b}
    if len(da) != len(a) or len(db) != len(b):
        return {"why": "duplicate pair", "n": (len(a), len(b))}
    if set(da) != set(db):
        return {"why": "different pairs", "only_history": sorted(set(da) - set(db))[:5],
                "only_fresh": sorted(set(db) - set(da))[:5]}
    for k in sorted(da):
        ra, rb = da[k], db[k]
        if set(ra) != set(rb):
            return {"why": "different columns", "only_history": sorted(set(ra) - set(rb)), "only_fresh": sorted(set(rb) - set(ra))}
        for c in ra:
            x, y = ra[c], rb[c]
            if isinstance(x, float) or isinstance(y, float):
                if x is None or y is None:
                    if not (x is None and y is None):
                        return {"why": "value", "pair": k, "column": c, "history": x, "fresh": y}
                    continue
                if math.isnan(x) and math.isnan(y):
                    continue
                if x == y:
                    continue
                if abs(x - y) > tol * max(1.0, abs(x), abs(y)):
                    return {"why": "value", "pair": k, "column": c, "history": x, "fresh": y}
            elif x != y:
                return {"why": "value", "pair": k, "column": c, "history": x, "fresh": y}
    return None


# ---------------------------------------------------------------------------------- Coq rendering
HEADER = """From Coq Require Import List Bool Arith String.
From Splinkv Require Import Model.Cache.
From Splinkv Require Model.EntryPoints.
Import ListNotations.
Open Scope string_scope.
Open Scope list_scope.
Definition length {A : Type} (l : list A) : nat := List.length l.   (* String.length would shadow it *)
Definition K := (sqlt * nat)%type.
Definition keqb (a b : K) : bool := sqlt_eqb (fst a) (fst b) && Nat.eqb (snd a) (snd b).
Definition hash (t : sqlt) (u : nat) : K := (t, u).
Definition lst_eqb {A} (e : A -> A -> bool) := fix go (x y : list A) : bool :=
  match x, y with [], [] => true | a :: x', b :: y' => e a b && go x' y' | _, _ => false end.
Definition pair_eqb (a b : string * string) := String.eqb (fst a) (fst b) && String.eqb (snd a) (snd b).
Definition ent_eqb (a b : string * bool * string * bool) :=
  match a, b with (a1, a2, a3, a4), (b1, b2, b3, b4) =>
    String.eqb a1 b1 && Bool.eqb a2 b2 && String.eqb a3 b3 && Bool.eqb a4 b4 end.
Definition cnt {A} (e : A -> A -> bool) (x : A) (l : list A) := List.length (filter (e x) l).
Definition bag_eqb {A} (e : A -> A -> bool) (a b : list A) : bool :=
  Nat.eqb (List.length a) (List.length b) && forallb (fun x => Nat.eqb (cnt e x a) (cnt e x b)) (a ++ b).
(* tables of data-dependent loops are outside the trace (see TRANSIENT in harness/c07_x.py) *)
Definition untraced (t : string) : bool := String.eqb t MU || String.eqb t CCFINAL || String.eqb t BRIDGES.
Definition execs (tr : list event) : list string :=
  flat_map (fun e => match e with Exec t => if untraced t then [] else [t] | _ => [] end) tr.
Definition hits (tr : list event) : list (string * string) :=
  flat_map (fun e => match e with Hit t p => [(t, p)] | _ => [] end) tr.
Definition obs := (list string * list (string * string) * list (string * bool * string * bool))%type.
Definition model_obs (s : state K) (o : op) : state K * obs :=
  let '(s', _, tr) := run_op K keqb hash s o in (s', (execs tr, hits tr, cache_listing K s')).
Definition obs_eqb (a b : obs) : bool :=
  match a, b with (e1, h1, c1), (e2, h2, c2) =>
    lst_eqb String.eqb e1 e2 && lst_eqb pair_eqb h1 h2 && bag_eqb ent_eqb c1 c2 end.
Fixpoint steps_ok (s : state K) (l : list (op * obs)) : bool :=
  match l with
  | [] => true
  | (o, ob) :: r => let '(s', m) := model_obs s o in obs_eqb m ob && steps_ok s' r
  end.
Fixpoint first_bad (n : nat) (s : state K) (l : list (op * obs)) : option (nat * obs) :=
  match l with
  | [] => None
  | (o, ob) :: r => let '(s', m) := model_obs s o in if obs_eqb m ob then first_bad (S n) s' r else Some (n, m)
  end.
Fixpoint prov_eqb (a b : prov) : bool :=
  match a, b with
  | PInput n v, PInput n' v' => String.eqb n n' && Nat.eqb v v'
  | PLookup n v, PLookup n' v' => String.eqb n n' && Nat.eqb v v'
  | PRecords u, PRecords u' => Nat.eqb u u'
  | PMissing, PMissing => true
  | PDerived n p ch, PDerived n' p' ch' =>
      String.eqb n n' && Nat.eqb p p' &&
      (fix go (x y : list prov) : bool :=
         match x, y with [], [] => true | a :: x', b :: y' => prov_eqb a b && go x' y' | _, _ => false end) ch ch'
  | _, _ => false
  end.
Definition predict_prov (s : state K) : prov := result_prov K keqb hash s Predict.
(* the tf route of compare_two_records / find_matches in the model state reached after the first k operations:
   1 = cached tf table, 2 = select distinct from the cached concat_with_tf, 3 = NULL (EntryPoints.route_priority) *)
Definition route_code (s : state K) (c : string) : nat :=
  match Splinkv.Model.EntryPoints.route_priority false (amem K keqb (st_cache K s) (named K (tfname c)))
                                                 (amem K keqb (st_cache K s) (named K CWTF)) with
  | Splinkv.Model.EntryPoints.RRegistered => 1 | Splinkv.Model.EntryPoints.RDistinct => 2 | _ => 3 end.
Definition routes_ok (c : state K * list op * list (nat * list nat)) : bool :=
  match c with (s0, ops, obsv) =>
    forallb (fun kr => let s := run K keqb hash s0 (firstn (fst kr) ops) in
                       lst_eqb Nat.eqb (map (route_code s) (st_tfcols K s)) (snd kr)) obsv end.
(* case: initial state, steps with observations, expected guard value, real oracle "equal to fresh" *)
Definition run_case (c : state K * list (op * obs) * bool * bool) : bool :=
  match c with (s0, steps, guard, equal_fresh) =>
    let ops := map fst steps in
    let s := run K keqb hash s0 ops in
    steps_ok s0 steps &&
    Bool.eqb (hist_ok K keqb hash s0 ops) guard &&
    Bool.eqb (prov_eqb (predict_prov s) (predict_prov (fresh_of K keqb s 777 888))) equal_fresh
  end.
"""


def coq_obs(ex, hits, listing) -> str:
    e = coq_list([coq_string(x) for x in ex], "string")
    h = coq_list([f"({coq_string(a)}, {coq_string(b)})" for a, b in hits], "(string * string)")
    c = coq_list([f"({coq_string(a)}, {coq_bool(b)}, {coq_string(p)}, {coq_bool(d)})" for a, b, p, d in listing],
                 "(string * bool * string * bool)")
    return f"({e}, {h}, {c})"


def coq_init(table, version: int, tfcols: list[str], params: int, fixes: dict) -> str:
    tables = [table] if isinstance(table, str) else list(table)
    return _coq_init(tables, version, tfcols, params, fixes)


def _coq_init(tables: list[str], version: int, tfcols: list[str], params: int, fixes: dict) -> str:
    fx = (f"{{| fx77 := {coq_bool(fixes['fx77'])}; fx716 := {coq_bool(fixes['fx716'])}; "
          f"fx715 := {coq_bool(fixes.get('fx715', False))}; fx718 := {coq_bool(fixes.get('fx718', False))}; fxba := {coq_bool(fixes.get('fxba', False))}; fxco := {coq_bool(fixes.get('fxco', False))} |}}")
    return (f"(init_state K {coq_list(['LPlain ' + coq_string(t) for t in tables])} {coq_nat(version)} "
            f"{coq_list([coq_string(c) for c in tfcols], 'string')} {coq_nat(params)} 5 6 {fx})")


def coq_case(init: str, steps: list[tuple[str, tuple]], guard: bool, equal_fresh: bool) -> str:
    st = coq_list([f"({t}, {coq_obs(*o)})" for t, o in steps], "(op * obs)")
    return f"({init}, {st}, {coq_bool(guard)}, {coq_bool(equal_fresh)})"
