"""Independent Python oracles for the documented predicates of the library levels (C16).
Everything here is plain Python over exact Fractions / ints; three-valued results are
True / False / None (SQL NULL).  These are the *specification side* used (a) to report a
disagreement between the engines and the Gallina model in documented terms, (b) as the only
reference for leaves that stay abstract in Coq (dates, haversine, cosine, regex, pairwise)."""
from __future__ import annotations

import datetime as dt
import math
import re
from fractions import Fraction


def lev(a: str, b: str) -> int:
    prev = list(range(len(b) + 1))
    for i, ca in enumerate(a, 1):
        cur = [i]
        for j, cb in enumerate(b, 1):
            cur.append(min(prev[j] + 1, cur[j - 1] + 1, prev[j - 1] + (ca != cb)))
        prev = cur
    return prev[-1]


def dam_lev(a: str, b: str) -> int:
    """unrestricted Damerau-Levenshtein (Lowrance-Wagner)"""
    da: dict = {}
    maxd = len(a) + len(b)
    d = [[maxd] * (len(b) + 2) for _ in range(len(a) + 2)]
    for i in range(len(a) + 1):
        d[i + 1][1] = i
    for j in range(len(b) + 1):
        d[1][j + 1] = j
    for i in range(1, len(a) + 1):
        db = 0
        for j in range(1, len(b) + 1):
            k = da.get(b[j - 1], 0)
            l = db
            cost = 1
            if a[i - 1] == b[j - 1]:
                cost = 0
                db = j
            d[i + 1][j + 1] = min(d[i][j] + cost, d[i + 1][j] + 1, d[i][j + 1] + 1,
                                  d[k][l] + (i - k - 1) + 1 + (j - l - 1))
        da[a[i - 1]] = i
    return d[len(a) + 1][len(b) + 1]


def jaro(a: str, b: str) -> Fraction:
    if not a or not b:
        return Fraction(0)
    win = max(max(len(a), len(b)) // 2 - 1, 0)
    used = [False] * len(b)
    ma = []
    for i, c in enumerate(a):
        for j in range(max(0, i - win), min(len(b), i + win + 1)):
            if not used[j] and b[j] == c:
                used[j] = True
                ma.append(c)
                break
    mb = [b[j] for j in range(len(b)) if used[j]]
    m = len(ma)
    if m == 0:
        return Fraction(0)
    tr = sum(1 for x, y in zip(ma, mb) if x != y) // 2
    return (Fraction(m, len(a)) + Fraction(m, len(b)) + Fraction(m - tr, m)) / 3


def jaro_winkler(a: str, b: str) -> Fraction:
    j = jaro(a, b)
    if j <= Fraction(7, 10):
        return j
    l = 0
    for x, y in zip(a[:4], b[:4]):
        if x != y:
            break
        l += 1
    return j + l * Fraction(1, 10) * (1 - j)


def jaccard(a: str, b: str) -> Fraction:
    sa, sb = set(a), set(b)
    return Fraction(len(sa & sb), len(sa | sb))


METRICS = {"levenshtein": lev, "damerau_levenshtein": dam_lev, "jaro": jaro, "jaro_winkler": jaro_winkler, "jaccard": jaccard}
# SQL function name -> documented metric (what the engine function of that name computes)
SQL_FN = {"levenshtein": "levenshtein", "damerau_levenshtein": "damerau_levenshtein", "jaro_similarity": "jaro", "jaro_sim": "jaro",
          "jaro_winkler_similarity": "jaro_winkler", "jaro_winkler": "jaro_winkler", "jaccard": "jaccard"}


def and3(xs):
    if any(x is False for x in xs):
        return False
    if any(x is None for x in xs):
        return None
    return True


def or3(xs):
    if any(x is True for x in xs):
        return True
    if any(x is None for x in xs):
        return None
    return False


def not3(x):
    return None if x is None else (not x)


def eq3(a, b):
    if a is None or b is None:
        return None
    return a == b


def thresh(v, t, higher):
    if v is None:
        return None
    t = Fraction(repr(t)) if isinstance(t, float) else Fraction(t)
    return v >= t if higher else v <= t


def parse_epoch(s, fmt):
    """seconds since 1970-01-01 (UTC) of a string under a strptime format; None if invalid"""
    if s is None:
        return None
    try:
        d = dt.datetime.strptime(s, fmt)
    except ValueError:
        return None
    return int((d - dt.datetime(1970, 1, 1)).total_seconds())


def native_epoch(x):
    if x is None:
        return None
    if isinstance(x, dt.datetime):
        return int((x - dt.datetime(1970, 1, 1)).total_seconds())
    return int((dt.datetime(x.year, x.month, x.day) - dt.datetime(1970, 1, 1)).total_seconds())


FACTOR = {"second": Fraction(1), "minute": Fraction(60), "hour": Fraction(3600), "day": Fraction(86400),
          "month": Fraction(86400) * Fraction(36525, 100) / 12, "year": Fraction(86400) * Fraction(36525, 100)}


def km(lat_l, lng_l, lat_r, lng_r) -> float:
    p = (math.sin(math.radians(lat_l)) * math.sin(math.radians(lat_r))
         + math.cos(math.radians(lat_l)) * math.cos(math.radians(lat_r)) * math.cos(math.radians(lng_r - lng_l)))
    p = 1.0 if p > 1 else (-1.0 if p < -1 else p)
    return math.acos(p) * 6371


def cosine(a, b):
    na = math.sqrt(sum(x * x for x in a))
    nb = math.sqrt(sum(x * x for x in b))
    return sum(x * y for x, y in zip(a, b)) / (na * nb)


def regex_extract_nullif(s, pattern):
    """NULLIF(regexp_extract(s, pattern, 0), '')"""
    if s is None:
        return None
    m = re.search(pattern, s)
    out = m.group(0) if m else ""
    return out or None
