"""C10  All inference entry points agree on a pair's score.

 P  theorems of Properties/C10.v: every entry point is the one scorer applied to (l, r, tf l, tf r)
    -> equal rows whenever the TF sources agree; find_matches = pairs admitted by some rule with weight
    strictly above the threshold, each once; missing-edge scoring = admissible within-cluster pairs
    absent from the predictions, each once; when ad-hoc TF lookups agree with the linker's own.
 X  the five real entry points on seeded models/data (harness/c10_x.py) against the Scoring model,
    against predict() for the same pairs, and against the EntryPoints model for the two set claims.
"""
from __future__ import annotations

import copy
import json
import math
import re
from fractions import Fraction as Fr

from harness import c02_gen as G
from harness import c02_x as X
from harness import c10_x as E
from harness.common import Ctx, REPO, coq_Q, coq_bool, coq_list, git_blob
from harness.c02 import T_HEADER, t_term
from translators import c10_sql as TS

PHASES = ["predict", "compare_two_records", "realtime", "find_matches", "missing_edges"]
S_HEADER = T_HEADER.replace("From Splinkv Require Import Base.TV Model.Scoring.",
                            "From Splinkv Require Import Base.TV Model.Blocking Model.Scoring Model.EntryPoints.") + """
Fixpoint all2 {A B} (f : A -> B -> bool) (l : list A) (l' : list B) : bool :=
  match l, l' with [] , [] => true | x :: t, y :: t' => f x y && all2 f t t' | _, _ => false end.
(* one captured scoring pipeline: phase (0 predict, 1 compare_two_records, 2 realtime, 3 find_matches,
   4 missing edges), its t_case, the outer filter over the predict stage, the anti-join if present *)
(* ... and the binding of every comparison-vector input: (name of <x> in the alias <x>_l/<x>_r, alias side, source side,
   source column) with sides false = l, true = r and names as per-case ids *)
Definition binding := (nat * bool * bool * nat)%type.
Definition binding_eqb (a b : binding) : bool :=
  match a, b with (n, s, t, c), (n', s', t', c') => Nat.eqb n n' && Bool.eqb s s' && Bool.eqb t t' && Nat.eqb c c' end.
Definition binding_ok (b : binding) : bool := match b with (n, s, t, c) => Nat.eqb n c && Bool.eqb s t end.
Definition s_entry := (nat * t_case * option (cmpop * Q) * option (option (jbx * jbx)) * list binding)%type.
(* the SQL-shaped model of one entry point (Model/EntryPoints.v pipeline) built from its extracted skeletons *)
Definition pipeline_of (a : t_case) : pipeline :=
  match a with (_, _, _, g, bs, ts, f) =>
    {| pl_gammas := g; pl_bfs := bs; pl_tfs := ts; pl_weight := f_weight_arg f; pl_prob := f_prob f |} end.
(* hypothesis of C10_entry_point_sql_agrees, evaluated per run: entry point's pipeline vs predict()'s *)
Definition same_scoring (predict ep : t_case) : bool := pipeline_eqb (pipeline_of ep) (pipeline_of predict).
(* entries, find_matches thresholds, predictions supplied, exact (dyadic parameters: literals comparable with the generators) *)
Definition s_case := (list s_entry * list Q * bool * bool)%type.
(* threshold clause of the predict stage alone (parameters whose float quotient m/u is not exact) *)
Definition where_ok (c : t_case) : bool :=
  match c with (_, _, thr, _, _, _, f) =>
    match thr, f_where f with
    | None, None => true
    | Some t, Some (a, op, t') => nx_eqb a (f_weight_arg f) && cmpop_eqb op OpGe && Qclose (1 # 1000000000000) t' t
    | _, _ => false
    end
  end.
(* 0 every pipeline = model generators; 1 every pipeline = predict's pipeline; 2 outer filter only in
   find_matches, strict >, threshold as passed; 3 anti-join only in missing edges and canonical; 4 all five phases seen *)
Definition s_report (c : s_case) : list bool :=
  match c with (es, fmthr, supplied, exact) =>
    let tc := fun e : s_entry => snd (fst (fst (fst e))) in
    let ph := fun e : s_entry => fst (fst (fst (fst e))) in
    let ow := fun e : s_entry => snd (fst (fst e)) in
    let aj := fun e : s_entry => snd (fst e) in
    let bd := fun e : s_entry => snd e in
    [ forallb (fun e => if exact then t_ok (tc e) else where_ok (tc e)) es;
      match es with [] => false | e0 :: _ => forallb (fun e => same_scoring (tc e0) (tc e)) es end;
      forallb (fun e => match ow e with
                        | None => negb (Nat.eqb (ph e) 3)
                        | Some (op, t) => Nat.eqb (ph e) 3 && cmpop_eqb op OpGt && existsb (Qeq_bool t) fmthr
                        end) es;
      forallb (fun e => match aj e with
                        | None => negb (Nat.eqb (ph e) 4)
                        | Some j => Nat.eqb (ph e) 4 && anti_join_ok j supplied
                        end) es;
      forallb (fun k => existsb (fun e => Nat.eqb (ph e) k) es) (seq 0 5);
      match es with [] => false | e0 :: _ =>
        (* every input is bound to its own column of its own side, and every input predict() binds is bound (identically,
           given binding_ok) by each entry point; an entry point may carry further pass-through columns, e.g. those of
           find_matches' own blocking rules *)
        forallb (fun e => forallb binding_ok (bd e) &&
                          forallb (fun b => existsb (binding_eqb b) (bd e)) (bd e0)) es end ]
  end.
Definition s_ok (c : s_case) : bool := forallb (fun b => b) (s_report c).
"""
S_PARTS = ["an entry point's scoring SQL differs from the model's generators / its threshold clause is not >= threshold", "an entry point's scoring SQL differs from predict()'s",
           "outer filter (find_matches must use match_weight > threshold; no other entry point filters)",
           "anti-join of missing-edge scoring (LEFT JOIN on both keys, WHERE both NULL)", "scoring stage not found for some entry point",
           "binding of the comparison-vector inputs (<x>_l / <x>_r / tf_<x>_l / tf_<x>_r must come from column <x> / tf_<x> of that side, "
           "the same in every entry point)"]


def gen_case(rng, backend, exact=False):
    allow_inf = True       # u = 0 levels on DuckDB and SQLite
    if exact:
        spec = G.gen_spec(rng, "P2", allow_inf=False, ncmp=rng.choice([1, 2, 3]))
    else:
        mode = "T" if rng.random() < 0.3 else "X"      # T: dyadic parameters (SQL literals comparable with the generators)
        spec = G.gen_spec(rng, mode, allow_inf=allow_inf)
        # models with TF adjustments are the interesting ones here
        want_fuzzy = rng.random() < 0.6
        for _ in range(12):
            has_fuzzy = any(lv["tf_col"] and lv["kind"] in ("lev", "custom") and lv["exact_col"] is None and Fr(lv["w"]) != 0
                            for c in spec["comparisons"] for lv in c["levels"])
            if (has_fuzzy if want_fuzzy else (spec["tf_cols"] or rng.random() < 0.25)):
                break
            spec = G.gen_spec(rng, mode, allow_inf=allow_inf)
    spec["link_type"] = rng.choice(["dedupe_only", "dedupe_only", "link_only", "link_only", "link_and_dedupe", "link_and_dedupe"])
    rows = E.gen_tables(rng, spec["link_type"])
    # the fuzzy TF-adjusted levels' columns get a registered lookup most of the time (values only the lookup knows
    # reach a TF adjustment only through a fuzzy level)
    fuzzy_tf = sorted({lv["tf_col"] for c in spec["comparisons"] for lv in c["levels"]
                       if lv["tf_col"] and lv["kind"] in ("lev", "custom") and lv["exact_col"] is None and Fr(lv["w"]) != 0})
    lookups = {} if exact else E.gen_lookups(rng, spec, rows, force_cols=[c for c in fuzzy_tf if rng.random() < 0.8])
    computed = [c for c in spec["tf_cols"] if c not in lookups and rng.random() < 0.3]
    r = rng.random()
    fm_thr = {"row": rng.randint(0, 40)} if (exact or r < 0.5) else rng.choice([-4.0, 0.0, -10.0, 2.5, -1e5])
    me_thr = None if rng.random() < 0.5 else rng.choice([-6.0, 0.0, -2.5, 3.0])
    return {"spec": spec, "rows": rows, "lookups": lookups, "computed_tf": [] if exact else computed, "rules": ["1=1"], "backend": backend,
            "n_c2r": 3, "n_rt": 3, "rt_cache": rng.choice([[False, True, True], [True, True, False], [True, False, True]]),
            "cold": rng.random() < 0.5, "fm_rules": rng.choice(E.FM_RULES),
            "fm_thr": fm_thr, "me_thr": me_thr, "exact_thr": exact, "seed": rng.randrange(10 ** 9)}


def cross_check(case, res):
    """entry point vs predict() on the same record pair: comparison levels and match weight"""
    bad = []
    n = 0
    for e in res["entries"]:
        name, rl, rr, tfv, rec, key = e
        if key is None or name == "predict":
            continue
        p = res["predmap"].get(key)
        if p is None:
            continue
        n += 1
        diffs = []
        for c in case["spec"]["comparisons"]:
            g = f"gamma_{c['name']}"
            if rec.get(g) != p.get(g):
                diffs.append((g, rec.get(g), p.get(g)))
        a, b = rec.get("match_weight"), p.get("match_weight")
        if a is None or b is None:
            if a != b:
                diffs.append(("match_weight", a, b))
        elif math.isinf(a) or math.isinf(b):
            if a != b:
                diffs.append(("match_weight", a, b))
        elif abs(a - b) > 1e-9 * max(1.0, abs(b)):
            diffs.append(("match_weight", a, b))
        if diffs:
            bad.append({"entry": name, "pair": sorted(key), "differences": diffs, "left": rl, "right": rr})
    return n, bad


def parse_nat_lists(out):
    flat = " ".join(out.split())
    m = re.search(r"=\s*(\[.*\])\s*:\s*list", flat)
    return m.group(1) if m else ""


def run_cases(ctx: Ctx, cases, tag="C10"):
    import random
    results = []
    for case in cases:
        rng = random.Random(case["seed"])
        log, box = [], {}

        def hook(api, phase, log=log, box=box):
            if not getattr(api, "_c10_captured", False):
                TS.capture(api, log, box)
                api._c10_captured = True
            box["phase"] = phase
        try:
            res = E.run_entries(case, rng, hook)
            res["sql_log"] = log
        except AssertionError:
            raise
        except Exception as ex:
            results.append((case, None, repr(ex)))
            continue
        results.append((case, res, None))
    live = [(c, r) for c, r, e in results if r is not None]
    sc_terms, sc_infos = [], []
    for case, res in live:
        t, infos, _ = E.scoring_term(case, res)
        sc_terms.append(t)
        sc_infos.append(infos)
    rt_terms, rt_meta = [], []
    for k, (case, res) in enumerate(live):
        for term, infos, model in E.scoring_terms_rt(case, res):
            rt_terms.append(term)
            rt_meta.append((k, infos, model))
    bad_rt, errs0 = ctx.eval_cases(tag + "_rt", E.HEADER, rt_terms, "run_case", shard=10, timeout=900)
    rt_fail = [rt_meta[i] for i in bad_rt]
    bad_sc, errs1 = ctx.eval_cases(tag + "_sc", E.HEADER, sc_terms, "run_case", shard=4, timeout=900)
    bad_fm, errs2 = ctx.eval_cases(tag + "_fm", E.HEADER, [E.fm_term(c, r) for c, r in live], "run_fm", shard=6, timeout=900)
    bad_me, errs3 = ctx.eval_cases(tag + "_me", E.HEADER, [E.me_term(c, r) for c, r in live], "run_me", shard=6, timeout=900)
    bad_tf, errs4 = ctx.eval_cases(tag + "_tf", E.HEADER, [E.tf_term(c, r) for c, r in live], "run_tf", shard=8, timeout=600)
    details = {}
    if bad_sc:
        sel = bad_sc[:8]
        txt = E.HEADER + "Definition cs := " + coq_list([sc_terms[i] for i in sel]) + ".\nEval vm_compute in (map report_case cs).\n"
        ok, out = ctx.coqc_text(tag + "_rep", txt)
        body = parse_nat_lists(out)
        depth, cur, parts = 0, "", []
        for ch in body[1:-1]:
            if ch == "[":
                depth += 1
            if ch == "]":
                depth -= 1
            cur += ch
            if depth == 0 and ch == "]":
                parts.append(cur)
                cur = ""
        for i, ptxt in zip(sel, parts):
            details[i] = [(int(a), [int(x) for x in re.findall(r"\d+", b)])
                          for a, b in re.findall(r"\((\d+)(?:%nat)?, \[([^\]]*)\]\)", ptxt)]
    return results, live, sc_infos, (bad_sc, bad_fm, bad_me, bad_tf, rt_fail), errs0 + errs1 + errs2 + errs3 + errs4, details


def sql_stage(ctx: Ctx, live, tag="C10"):
    """T: the scoring SQL really executed by each entry point = the model's generators = predict()'s;
    find_matches' outer filter is a strict >; missing-edge anti-join is canonical."""
    terms, metas, untr = [], [], []
    for case, res in live:
        lk = res["linker"]
        so = lk._settings_obj
        dialect = so._sqlglot_dialect
        spec = case["spec"]
        entries, seen = [], set()
        names = {}
        try:
            texts = set()
            for ph, sql in res["sql_log"]:
                if ph not in PHASES or "__splink__df_match_weight_parts" not in sql:
                    continue
                norm = (ph, re.sub(r"(__splink__\w+?)_[0-9a-z]{8,9}\b", r"\1", sql))
                if norm in texts:          # same text up to physical-table uids
                    continue
                texts.add(norm)
                tr = TS.scoring_of(sql, so, spec["tf_cols"], dialect)
                if tr is None:
                    continue
                thrq = Fr(case["me_thr"]) if (ph == "missing_edges" and case["me_thr"] is not None) else None
                aj = "(@None (option (jbx * jbx)))" if tr["anti_join"] is None else f"(Some {tr['anti_join']})"
                ow = "(@None (cmpop * Q))" if tr["outer_where"] == "None" else tr["outer_where"]
                bts = []
                for alias, side, col in tr["bindings"]:
                    if alias[-2:] not in ("_l", "_r"):
                        raise TS.Untranslatable(f"comparison-vector input alias {alias}")
                    bts.append(f"({names.setdefault(alias[:-2], len(names))}%nat, {coq_bool(alias[-1] == 'r')}, "
                               f"{coq_bool(side == 'r')}, {names.setdefault(col, len(names))}%nat)")
                txt = f"({PHASES.index(ph)}%nat, {t_term(spec, tr, thrq)}, {ow}, {aj}, {coq_list(bts, 'binding')})"
                if txt not in seen:
                    seen.add(txt)
                    entries.append((ph, txt))
        except TS.Untranslatable as ex:
            ctx.obligation("translate captured scoring SQL", False, str(ex))
            untr.append((case, ph, str(ex)))
            continue
        entries.sort(key=lambda e: PHASES.index(e[0]))
        fmthr = [Fr(repr(float(-1e6))), Fr(repr(float(res["fm"]["thr"])))]
        supplied = res["me"]["supplied"]
        terms.append(f"({coq_list([t for _, t in entries], 's_entry')}, {coq_list([coq_Q(t) for t in fmthr], 'Q')}, {coq_bool(supplied)}, "
                     f"{coq_bool(spec.get('mode') in ('T', 'P2'))})")
        metas.append((case, [ph for ph, _ in entries]))
        ctx.hist("T_pipelines_per_case", len(entries))
    bad, errs = ctx.eval_cases(tag + "_sql", S_HEADER, terms, "s_ok", shard=4, timeout=900)
    for e in errs:
        ctx.obligation("SQL identity shard evaluation", False, e)
    ctx.obligations += len(terms)
    ctx.discharged += (len(terms) - len(bad)) if not errs else 0
    ctx.cov["sql_identity_obligations"] = len(terms)
    ctx.cov["translated_sources"] = {q: git_blob(REPO / q) for q in
                                     ["splink/internals/linker_components/inference.py", "splink/internals/realtime.py",
                                      "splink/internals/predict.py", "splink/internals/find_matches_to_new_records.py"]}
    parts = {}
    if bad:
        sel = bad[:10]
        txt = S_HEADER + "Definition cs := " + coq_list([terms[i] for i in sel]) + ".\nEval vm_compute in (map s_report cs).\n"
        ok, out = ctx.coqc_text(tag + "_sqlrep", txt)
        reps = re.findall(r"\[((?:true|false)(?:; (?:true|false))*)\]", " ".join(out.split()))
        for i, r in zip(sel, reps):
            parts[i] = [S_PARTS[k] for k, b in enumerate(r.split("; ")) if b == "false"]
    seen = set()
    for i in bad:
        ps = parts.get(i, ["(not evaluated)"])
        key = json.dumps(ps)
        if key in seen or len(seen) >= 2 or (seen and ps == ["(not evaluated)"]):
            continue
        seen.add(key)
        case, phases = metas[i]
        ctx.violation("captured entry-point SQL breaks a skeleton obligation: " + "; ".join(ps),
                      {"broken": "SQL identity obligation C10_sql", "parts": ps, "case": case, "pipelines": phases},
                      {"skeleton": True, "parts": ps, "backend": case["backend"]}, found_input=False)
    for case, ph, why in untr[:2]:
        ctx.violation(f"scoring SQL of {ph} no longer matches any shape the translator understands: " + why,
                      {"broken": "translator c10_sql", "case": case}, {"untranslatable": True}, found_input=False)
    if errs and not bad:
        ctx.violation("SQL identity obligations could not be evaluated", {"broken": "C10_sql", "errors": errs[:3]}, found_input=False)


R_HEADER = """From Coq Require Import List Bool.
From Splinkv Require Import Base.TV Model.Blocking Model.Scoring Model.EntryPoints.
Import ListNotations.
(* (tf_ column supplied by the record, tf table cached, concat table cached, branch found in the emitted SQL) *)
Definition route_ok (c : bool * bool * bool * route_kind) : bool :=
  match c with (s, t, cc, k) => route_kind_eqb k (route_priority s t cc) end.
"""


def route_stage(ctx: Ctx):
    """T: the branch of _join_new_table_to_df_concat_with_tf_sql chosen for every cache state = route_priority"""
    import itertools
    rng = ctx.rng
    spec = None
    for _ in range(200):
        spec = G.gen_spec(rng, "T", allow_inf=False, ncmp=rng.choice([2, 3]))
        if len(spec["tf_cols"]) >= 2:
            break
    terms, metas = [], []
    try:
        for dialect in ("duckdb", "sqlite"):
            so = G.settings_creator(spec, dialect=dialect).get_settings(dialect)
            tfc = [c.unquote().name for c in so._term_frequency_columns][:2]
            from splink.internals.term_frequencies import colname_to_tf_tablename
            tname = {c.unquote().name: colname_to_tf_tablename(c) for c in so._term_frequency_columns}
            for concat in (False, True):
                for st in itertools.product(itertools.product((False, True), repeat=2), repeat=len(tfc)):
                    cached = (["__splink__df_concat_with_tf"] if concat else []) + [tname[c] for c, (sup, tab) in zip(tfc, st) if tab]
                    # the remaining tf columns of the model: supplied by the record
                    others = [c for c in tname if c not in tfc]
                    supplied = [c for c, (sup, tab) in zip(tfc, st) if sup] + others
                    routes = TS.tf_join_routes(so, so._sqlglot_dialect, cached, supplied)
                    for c, (sup, tab) in zip(tfc, st):
                        terms.append(f"({coq_bool(sup)}, {coq_bool(tab)}, {coq_bool(concat)}, {routes[c]})")
                        metas.append({"dialect": dialect, "column": c, "supplied": sup, "tf_table_cached": tab,
                                      "concat_with_tf_cached": concat, "branch_in_sql": routes[c]})
            # find_matches passes no input table: supplied tf_ columns are not detected there
            routes = TS.tf_join_routes(so, so._sqlglot_dialect, ["__splink__df_concat_with_tf"], [], with_input_table=False)
            for c in tfc:
                terms.append(f"(false, false, true, {routes[c]})")
                metas.append({"dialect": dialect, "column": c, "supplied": False, "tf_table_cached": False,
                              "concat_with_tf_cached": True, "branch_in_sql": routes[c], "no_input_table": True})
    except TS.Untranslatable as ex:
        ctx.obligation("translate the TF join of ad-hoc records", False, str(ex))
        ctx.violation("the TF join for ad-hoc records no longer matches any shape the translator understands: " + str(ex),
                      {"broken": "translator c10_sql.tf_join_routes", "why": str(ex)}, {"untranslatable": True, "tf_join": True}, found_input=False)
        return
    bad, errs = ctx.eval_cases("C10_route", R_HEADER, terms, "route_ok", shard=400, timeout=300)
    ctx.obligations += len(terms)
    ctx.discharged += (len(terms) - len(bad)) if not errs else 0
    ctx.cov["tf_route_obligations"] = len(terms)
    ctx.cov.setdefault("translated_sources", {})["splink/internals/term_frequencies.py"] = git_blob(REPO / "splink/internals/term_frequencies.py")
    # the generator as a FUNCTION of the cache state, regenerated into coq/gen/C10_tfjoin_gen.v; Coq decides that it is
    # route_priority on all eight states and instantiates C10_adhoc_tf_by_cache_state with it
    table = {}
    for m in metas:
        table.setdefault((m["supplied"], m["tf_table_cached"], m["concat_with_tf_cached"]), set()).add(m["branch_in_sql"])
    states = [(a, b, c) for a in (True, False) for b in (True, False) for c in (True, False)]
    consistent = all(len(table.get(st, ())) == 1 for st in states)
    ctx.obligation("the TF source of an ad-hoc column depends only on (supplied, tf table cached, concat table cached)", consistent,
                   str({str(k): sorted(v) for k, v in table.items() if len(v) != 1}))
    gen_ok = False
    if consistent:
        rows = "\n".join(f"  | {coq_bool(a)}, {coq_bool(b)}, {coq_bool(c)} => {next(iter(table[(a, b, c)]))}" for a, b, c in states)
        gen = ("(* GENERATED on every run by harness/c10.py route_stage from the SQL emitted by\n"
               "   splink/internals/term_frequencies.py:_join_new_table_to_df_concat_with_tf_sql - do not edit *)\n"
               "From Coq Require Import List Bool QArith.\n"
               "From Splinkv Require Import Base.TV Model.Blocking Model.Scoring Model.EntryPoints.\n"
               "Definition tf_join_source (supplied tf_table_cached concat_cached : bool) : route_kind :=\n"
               "  match supplied, tf_table_cached, concat_cached with\n" + rows + "\n  end.\n")
        ok1, out1 = ctx.coqc_text("C10_tfjoin_gen", gen)
        lem = ("From Coq Require Import List Bool QArith.\n"
               "From Splinkv Require Import Base.TV Model.Blocking Model.Scoring Model.EntryPoints Proofs.EntryPointsP.\n"
               "From SplinkGen Require Import C10_tfjoin_gen.\n"
               "Lemma tf_join_source_is_route_priority : forall s t c, tf_join_source s t c = route_priority s t c.\n"
               "Proof. intros [] [] []; reflexivity. Qed.\n"
               "Definition adhoc_tf_of_generated_join (rec V : Type) veqb (value : nat -> rec -> option V) D :=\n"
               "  adhoc_tf_by_cache_state rec V veqb value D tf_join_source tf_join_source_is_route_priority.\n"
               "Print Assumptions tf_join_source_is_route_priority.\nPrint Assumptions adhoc_tf_of_generated_join.\n")
        ok2, out2 = ctx.coqc_text("C10_tfjoin_lemma", lem) if ok1 else (False, out1)
        gen_ok = ok1 and ok2 and out2.count("Closed under the global context") == 2
        ctx.obligation("tf_join_source_is_route_priority (regenerated TF-join source function = route_priority on all 8 cache states)",
                       gen_ok, (out1 + out2)[-1200:])
    if bad or errs or not consistent or not gen_ok:
        ctx.violation("TF lookup priority for ad-hoc records differs from the model (own tf_ column, cached tf table, "
                      "select distinct from the cached concat table, NULL)",
                      {"broken": "TF route obligation C10_route / tf_join_source_is_route_priority",
                       "failing_states": [metas[i] for i in bad[:6]],
                       "generated_table": {str(k): sorted(v) for k, v in table.items()}, "errors": errs[:2]},
                      {"skeleton": True, "tf_route": True}, found_input=False)


def features(case, extra):
    f = {"backend": case["backend"], "link_type": case["spec"]["link_type"], "has_tf": bool(case["spec"]["tf_cols"]), "registered_lookup": bool(case["lookups"])}
    f.update(extra)
    return f


def report(ctx: Ctx, results, live, sc_infos, bads, errs, details):
    bad_sc, bad_fm, bad_me, bad_tf, rt_fail = bads
    seen = set()

    def once(key):
        if key in seen or len(seen) >= 4:
            return False
        seen.add(key)
        return True
    for case, res, err in results:
        if res is None and once("raise"):
            ctx.violation("an inference entry point raised on a well-formed model", {"case": case, "error": err},
                          features(case, {"raises": True}))
    for i in bad_sc:
        case, res = live[i]
        infos = sc_infos[i]
        det = details.get(i, [])
        fails = []
        for pidx, codes in det[:4]:
            inf = infos[pidx]
            py = inf["py"]
            fails.append({"entry": inf["entry"], "pair": inf["pair"], "left": inf["left"], "right": inf["right"], "tf_values": inf["tf"],
                          "failed_checks": [X.CODES[c] for c in codes],
                          "implementation": {k: v for k, v in inf["rec"].items() if k.startswith(("gamma_", "bf_", "tf_", "match_"))},
                          "specification": None if py is None else {
                              "gamma": [c["gamma"] for c in py["cols"]],
                              "match_weight": "inf" if py["score"] == "inf" else math.log2(py["score"])}})
        ents = sorted({f["entry"].split(":")[0] for f in fails}) or ["?"]
        if ents == ["?"] and seen:
            continue
        if once("score:" + ",".join(ents)):
            ctx.violation("entry point output differs from the shared Fellegi-Sunter scorer: " + ", ".join(ents),
                          {"case": case, "failing_rows": fails}, features(case, {"entries": ents, "claim": "score"}))
    for i in bad_fm:
        case, res = live[i]
        exp, near = E.py_fm_expected(case, res)
        if once("fm"):
            ctx.violation("find_matches_to_new_records does not return exactly the admitted pairs above the threshold",
                          {"case": case, "new_records": res["fm"]["new"], "blocking_rules": res["fm"]["rules"],
                           "match_weight_threshold": res["fm"]["thr"], "implementation": sorted(res["fm"]["impl"]),
                           "specification": exp, "within_rounding_of_threshold": near,
                           "note": "pairs are (index of existing record, index of new record)"},
                          features(case, {"claim": "find_matches_set", "exact_threshold_stream": bool(case.get("exact_thr"))}))
    for i in bad_me:
        case, res = live[i]
        exp, near = E.py_me_expected(case, res)
        if once("me"):
            ctx.violation("_score_missing_cluster_edges does not return exactly the within-cluster pairs absent from the predictions",
                          {"case": case, "clusters": res["me"]["clusters"], "supplied_predictions": res["me"]["preds"],
                           "threshold_match_weight": res["me"]["thr"], "implementation": sorted(res["me"]["impl"]),
                           "specification": exp, "within_rounding_of_threshold": near,
                           "note": "pairs are indices into case.rows"},
                          features(case, {"claim": "missing_edges_set"}))
    for k, infos, model in rt_fail:
        case, res = live[k]
        if once("rt_seq"):
            seq = res["rt_seq"]
            calls = [{"model": e[0], "settings_form": e[1].split(":")[1], "left": e[2], "right": e[3],
                      "implementation": {q: v for q, v in e[5].items() if q.startswith(("gamma_", "bf_", "match_"))}} for e in seq["rows"]]
            spec_side = [{"pair": i["pair"], "settings_form": i["entry"].split(":")[1],
                          "match_weight": None if i["py"] is None else ("inf" if i["py"]["score"] == "inf" else math.log2(i["py"]["score"])),
                          "implementation_match_weight": i["rec"].get("match_weight")} for i in infos]
            ctx.violation("realtime compare_records with the SQL cache on scored a call with another model's parameters "
                          "(models differing only in m / u / TF configuration)",
                          {"case": case, "models": seq["models"], "calls_in_order": calls, "failing_model": seq["models"].index(model),
                           "specification_for_failing_model": spec_side},
                          features(case, {"claim": "score", "entries": ["realtime.compare_records"], "realtime_sequence": True}))
    for i in bad_tf:
        case, res = live[i]
        if once("tf"):
            ctx.violation("the TF values used for the comparison are not what the EntryPoints model (adhoc_tf / data_tf with the route "
                          "priority) computes - harness and model disagree", {"broken": "C10_tf (model TF sources)", "case": case},
                          features(case, {"claim": "tf_source_model"}), found_input=False)
    if errs and not (bad_sc or bad_fm or bad_me or bad_tf or rt_fail):
        ctx.violation("correspondence C10 could not be evaluated", {"broken": "C10_x", "errors": errs[:3]}, found_input=False)


def run(ctx: Ctx):
    ctx.cov["rule"] = (
        "seeded model (C02 generator: 1-4 comparisons, TF on exact/fuzzy levels, weights, minimum-u, u=0 on DuckDB) x data "
        "(5-8 records, NULLs, repeated and rare values) x registered TF lookups; per case: predict on all pairs, 3 "
        "compare_two_records (plain / unseen value / supplied tf_ columns) + 1 on a cold linker, 2 realtime compare_records, "
        "find_matches_to_new_records with 2-4 new records (copies, unseen values, NULLs, clashing ids) under a rule list and a "
        "threshold (incl. thresholds equal to a score), missing-edge scoring under a random clustering and a random subset of "
        "the predictions. Non-trivial: TF columns present and >= 2 distinct gamma vectors among the scored rows.")
    ctx.trusted += [
        "harness X: the engine evaluates each level's SQL condition per (left, right) row pair in the entry point's own orientation; "
        "blocking rules of find_matches evaluated per pair by DuckDB; TF values recomputed in Python (count/total or the registered table)",
        "engine POW for fractional weights: finite table from Python math.pow on model-checked exact base and exponent",
        "float tolerance 1e-9 relative; pairs whose score is within 1e-9 of a threshold are not compared (except power-of-two stream)",
        "translators/c10_sql.py + c02_sql.py (sqlglot parse of the SQL text captured from DatabaseAPI._execute_sql_against_backend; "
        "stage lookup by CTE name; table aliases / physical names / uids are not part of the skeletons)",
        "modelled not verified: SQL join semantics of the entry points (EntryPoints.v compositions), id fix-up literals, "
        "the definition of join_key_l/r in __splink__df_predict_with_join_keys",
    ]
    ok = ctx.proof_stage("Properties/C10.v")
    if not ok:
        ctx.violation("theorems of Properties/C10.v no longer check", {"broken": "Properties/C10.v"}, found_input=False)
    if ctx.replay:
        data = json.loads(open(ctx.replay).read())
        if data.get("case"):
            out = run_cases(ctx, [data["case"]], "C10r")
            results, live, sc_infos, bads, errs, details = out
            ctx.obligation("replayed case agrees", not any(bads) and not errs and bool(live))
            report(ctx, *out)
            for case, res in live:
                n, bad = cross_check(case, res)
                if bad:
                    ctx.violation("entry points disagree with predict() on the same record pair", {"case": case, "disagreements": bad[:3]},
                                  features(case, {"claim": "agreement", "entries": sorted({b["entry"].split(":")[0] for b in bad})}))
            return
    nd, ns, nx = (22, 8, 6) if ctx.quick else (150, 50, 40)
    cases = [gen_case(ctx.rng, "duckdb") for _ in range(nd)] + [gen_case(ctx.rng, "sqlite") for _ in range(ns)] + \
            [gen_case(ctx.rng, "duckdb" if i % 2 else "sqlite", exact=True) for i in range(nx)]
    out = run_cases(ctx, cases)
    results, live, sc_infos, bads, errs, details = out
    for e in errs:
        ctx.obligation("shard evaluation", False, e)
    ctx.obligation(f"every entry point's rows = shared scorer on its own TF source ({len(live)} cases)", not bads[0] and not errs)
    ctx.obligation(f"find_matches set = admitted pairs strictly above threshold ({len(live)} cases)", not bads[1] and not errs)
    ctx.obligation(f"missing-edge set = within-cluster pairs minus predictions ({len(live)} cases)", not bads[2] and not errs)
    ctx.obligation("realtime sequences over models differing only in m/u/TF configuration: every call scored with its own model",
                   not bads[4] and not errs)
    ctx.obligation(f"TF values fed to the scorer = adhoc_tf / data_tf of the EntryPoints model with route_priority ({len(live)} cases)",
                   not bads[3] and not errs)
    nagree, disagreements = 0, []
    for (case, res), infos in zip(live, sc_infos):
        n, bad = cross_check(case, res)
        nagree += n
        disagreements += [(case, b) for b in bad]
        gam = {json.dumps([r[4].get(f"gamma_{c['name']}") for c in case["spec"]["comparisons"]]) for r in res["entries"]}
        ctx.count_case(json.dumps(case, sort_keys=True, default=str), bool(case["spec"]["tf_cols"]) and len(gam) >= 2,
                       {"backend": case["backend"], "link_type": case["spec"]["link_type"], "tf_cols": case["spec"]["tf_cols"], "lookups": sorted(case["lookups"]),
                        "rows": len(case["rows"]), "scored_rows": len(res["entries"]), "fm_rules": case["fm_rules"],
                        "fm_out": len(res["fm"]["impl"]), "me_out": len(res["me"]["impl"])})
        ctx.cov["evaluations"] += len(res["entries"])
        ctx.hist("backend", case["backend"])
        ctx.hist("link_type", case["spec"]["link_type"])
        ctx.hist("n_tables", len({r["source_dataset"] for r in case["rows"]}))
        ctx.hist("fm_new_source_dataset_column", res["fm"]["new_source_dataset_column"])
        ctx.hist("has_tf", bool(case["spec"]["tf_cols"]))
        ctx.hist("registered_lookup", bool(case["lookups"]))
        ctx.hist("computed_tf_table", bool(case.get("computed_tf")))
        ctx.hist("lookup_values_absent_from_data", sum(len(E.absent_lookup_values(case, c)) for c in case["lookups"]))
        ctx.hist("adhoc_records_with_lookup_only_value", res["n_planted"])
        ctx.hist("fm_rules", len(case["fm_rules"]))
        ctx.hist("fm_output_size", len(res["fm"]["impl"]))
        ctx.hist("me_output_size", len(res["me"]["impl"]))
        ctx.hist("me_predictions_supplied", len(res["me"]["preds"]))
        ctx.hist("me_predictions_registered_as", res["me"]["predictions"])
        for f in res["rt_seq"]["forms"]:
            ctx.hist("realtime_sequence_settings_form", f)
        ctx.cov["evaluations"] += len(res["rt_seq"]["rows"])
        ctx.hist("exact_threshold_stream", bool(case.get("exact_thr")))
        for e in res["entries"]:
            ctx.hist("entry", e[0])
    sql_stage(ctx, live)
    route_stage(ctx)
    ctx.cov["cross_entry_comparisons"] = nagree
    ctx.obligation(f"entry points agree with predict() on gamma and match weight ({nagree} row pairs)", not disagreements)
    report(ctx, *out)
    seen = set()
    for case, b in disagreements:
        ent = b["entry"].split(":")[0]
        if ent in seen:
            continue
        seen.add(ent)
        ctx.violation(f"{ent} and predict() report different levels / match weight for the same record pair",
                      {"case": case, "disagreement": b}, features(case, {"claim": "agreement", "entries": [ent]}))
