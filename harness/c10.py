"""C10  All inference entry points agree on a pair's score.

 P  theorems of Properties/C10.v: every entry point is the one scorer applied to (l, r, tf l, tf r)
    -> equal rows whenever the TF sources agree; find_matches = pairs admitted by some rule with weight
    strictly above the threshold, each once; missing-edge scoring = admissible within-cluster pairs
    absent from the predictions, each once; when ad-hoc TF lookups agree with the linker's own.
 X  the five real entry points on seeded models/data (harness/c10_x.py) against the Scoring model,
    against predict() for the same pairs, and against the EntryPoints model for the two set claims.
"""
from __future__ import annotations

import copy
import json
import math
import re
from fractions import Fraction as Fr

from harness import c02_gen as G
from harness import c02_x as X
from harness import c10_x as E
from harness.common import Ctx, coq_list


def gen_case(rng, backend, exact=False):
    allow_inf = backend == "duckdb"
    if exact:
        spec = G.gen_spec(rng, "P2", allow_inf=False, ncmp=rng.choice([1, 2, 3]))
    else:
        spec = G.gen_spec(rng, "X", allow_inf=allow_inf)
        # models with TF adjustments are the interesting ones here
        for _ in range(3):
            if spec["tf_cols"] or rng.random() < 0.25:
                break
            spec = G.gen_spec(rng, "X", allow_inf=allow_inf)
    rows = X.gen_data(rng, rng.randint(5, 8))
    lookups = {} if exact else X.gen_lookups(rng, spec, rows)
    r = rng.random()
    fm_thr = {"row": rng.randint(0, 40)} if (exact or r < 0.5) else rng.choice([-4.0, 0.0, -10.0, 2.5, -1e5])
    me_thr = None if rng.random() < 0.5 else rng.choice([-6.0, 0.0, -2.5, 3.0])
    return {"spec": spec, "rows": rows, "lookups": lookups, "rules": ["1=1"], "backend": backend,
            "n_c2r": 3, "n_rt": 2, "cold": rng.random() < 0.5, "fm_rules": rng.choice(E.FM_RULES),
            "fm_thr": fm_thr, "me_thr": me_thr, "exact_thr": exact, "seed": rng.randrange(10 ** 9)}


def cross_check(case, res):
    """entry point vs predict() on the same record pair: comparison levels and match weight"""
    bad = []
    n = 0
    for e in res["entries"]:
        name, rl, rr, tfv, rec, key = e
        if key is None or name == "predict":
            continue
        i, j = key
        p = res["predmap"].get((min(i, j), max(i, j)))
        if p is None:
            continue
        n += 1
        diffs = []
        for c in case["spec"]["comparisons"]:
            g = f"gamma_{c['name']}"
            if rec.get(g) != p.get(g):
                diffs.append((g, rec.get(g), p.get(g)))
        a, b = rec.get("match_weight"), p.get("match_weight")
        if a is None or b is None:
            if a != b:
                diffs.append(("match_weight", a, b))
        elif math.isinf(a) or math.isinf(b):
            if a != b:
                diffs.append(("match_weight", a, b))
        elif abs(a - b) > 1e-9 * max(1.0, abs(b)):
            diffs.append(("match_weight", a, b))
        if diffs:
            bad.append({"entry": name, "pair": key, "differences": diffs, "left": rl, "right": rr})
    return n, bad


def parse_nat_lists(out):
    flat = " ".join(out.split())
    m = re.search(r"=\s*(\[.*\])\s*:\s*list", flat)
    return m.group(1) if m else ""


def run_cases(ctx: Ctx, cases, tag="C10"):
    import random
    results = []
    for case in cases:
        rng = random.Random(case["seed"])
        try:
            res = E.run_entries(case, rng)
        except AssertionError:
            raise
        except Exception as ex:
            results.append((case, None, repr(ex)))
            continue
        results.append((case, res, None))
    live = [(c, r) for c, r, e in results if r is not None]
    sc_terms, sc_infos = [], []
    for case, res in live:
        t, infos, _ = E.scoring_term(case, res)
        sc_terms.append(t)
        sc_infos.append(infos)
    bad_sc, errs1 = ctx.eval_cases(tag + "_sc", E.HEADER, sc_terms, "run_case", shard=4, timeout=900)
    bad_fm, errs2 = ctx.eval_cases(tag + "_fm", E.HEADER, [E.fm_term(c, r) for c, r in live], "run_fm", shard=6, timeout=900)
    bad_me, errs3 = ctx.eval_cases(tag + "_me", E.HEADER, [E.me_term(c, r) for c, r in live], "run_me", shard=6, timeout=900)
    details = {}
    if bad_sc:
        sel = bad_sc[:8]
        txt = E.HEADER + "Definition cs := " + coq_list([sc_terms[i] for i in sel]) + ".\nEval vm_compute in (map report_case cs).\n"
        ok, out = ctx.coqc_text(tag + "_rep", txt)
        body = parse_nat_lists(out)
        depth, cur, parts = 0, "", []
        for ch in body[1:-1]:
            if ch == "[":
                depth += 1
            if ch == "]":
                depth -= 1
            cur += ch
            if depth == 0 and ch == "]":
                parts.append(cur)
                cur = ""
        for i, ptxt in zip(sel, parts):
            details[i] = [(int(a), [int(x) for x in re.findall(r"\d+", b)])
                          for a, b in re.findall(r"\((\d+)(?:%nat)?, \[([^\]]*)\]\)", ptxt)]
    return results, live, sc_infos, (bad_sc, bad_fm, bad_me), errs1 + errs2 + errs3, details


def features(case, extra):
    f = {"backend": case["backend"], "has_tf": bool(case["spec"]["tf_cols"]), "registered_lookup": bool(case["lookups"])}
    f.update(extra)
    return f


def report(ctx: Ctx, results, live, sc_infos, bads, errs, details):
    bad_sc, bad_fm, bad_me = bads
    seen = set()

    def once(key):
        if key in seen or len(seen) >= 4:
            return False
        seen.add(key)
        return True
    for case, res, err in results:
        if res is None and once("raise"):
            ctx.violation("an inference entry point raised on a well-formed model", {"case": case, "error": err},
                          features(case, {"raises": True}))
    for i in bad_sc:
        case, res = live[i]
        infos = sc_infos[i]
        det = details.get(i, [])
        fails = []
        for pidx, codes in det[:4]:
            inf = infos[pidx]
            py = inf["py"]
            fails.append({"entry": inf["entry"], "pair": inf["pair"], "left": inf["left"], "right": inf["right"], "tf_values": inf["tf"],
                          "failed_checks": [X.CODES[c] for c in codes],
                          "implementation": {k: v for k, v in inf["rec"].items() if k.startswith(("gamma_", "bf_", "tf_", "match_"))},
                          "specification": None if py is None else {
                              "gamma": [c["gamma"] for c in py["cols"]],
                              "match_weight": "inf" if py["score"] == "inf" else math.log2(py["score"])}})
        ents = sorted({f["entry"].split(":")[0] for f in fails}) or ["?"]
        if ents == ["?"] and seen:
            continue
        if once("score:" + ",".join(ents)):
            ctx.violation("entry point output differs from the shared Fellegi-Sunter scorer: " + ", ".join(ents),
                          {"case": case, "failing_rows": fails}, features(case, {"entries": ents, "claim": "score"}))
    for i in bad_fm:
        case, res = live[i]
        exp, near = E.py_fm_expected(case, res)
        if once("fm"):
            ctx.violation("find_matches_to_new_records does not return exactly the admitted pairs above the threshold",
                          {"case": case, "new_records": res["fm"]["new"], "blocking_rules": res["fm"]["rules"],
                           "match_weight_threshold": res["fm"]["thr"], "implementation": sorted(res["fm"]["impl"]),
                           "specification": exp, "within_rounding_of_threshold": near,
                           "note": "pairs are (index of existing record, index of new record)"},
                          features(case, {"claim": "find_matches_set", "exact_threshold_stream": bool(case.get("exact_thr"))}))
    for i in bad_me:
        case, res = live[i]
        exp, near = E.py_me_expected(case, res)
        if once("me"):
            ctx.violation("_score_missing_cluster_edges does not return exactly the within-cluster pairs absent from the predictions",
                          {"case": case, "clusters": res["me"]["clusters"], "supplied_predictions": res["me"]["preds"],
                           "threshold_match_weight": res["me"]["thr"], "implementation": sorted(res["me"]["impl"]),
                           "specification": exp, "within_rounding_of_threshold": near,
                           "note": "pairs are indices into case.rows"},
                          features(case, {"claim": "missing_edges_set"}))
    if errs and not (bad_sc or bad_fm or bad_me):
        ctx.violation("correspondence C10 could not be evaluated", {"broken": "C10_x", "errors": errs[:3]}, found_input=False)


def run(ctx: Ctx):
    ctx.cov["rule"] = (
        "seeded model (C02 generator: 1-4 comparisons, TF on exact/fuzzy levels, weights, minimum-u, u=0 on DuckDB) x data "
        "(5-8 records, NULLs, repeated and rare values) x registered TF lookups; per case: predict on all pairs, 3 "
        "compare_two_records (plain / unseen value / supplied tf_ columns) + 1 on a cold linker, 2 realtime compare_records, "
        "find_matches_to_new_records with 2-4 new records (copies, unseen values, NULLs, clashing ids) under a rule list and a "
        "threshold (incl. thresholds equal to a score), missing-edge scoring under a random clustering and a random subset of "
        "the predictions. Non-trivial: TF columns present and >= 2 distinct gamma vectors among the scored rows.")
    ctx.trusted += [
        "harness X: the engine evaluates each level's SQL condition per (left, right) row pair in the entry point's own orientation; "
        "blocking rules of find_matches evaluated per pair by DuckDB; TF values recomputed in Python (count/total or the registered table)",
        "engine POW for fractional weights: finite table from Python math.pow on model-checked exact base and exponent",
        "float tolerance 1e-9 relative; pairs whose score is within 1e-9 of a threshold are not compared (except power-of-two stream)",
        "modelled not verified: SQL join/anti-join semantics of the entry points (EntryPoints.v compositions), id fix-up literals",
    ]
    ok = ctx.proof_stage("Properties/C10.v")
    if not ok:
        ctx.violation("theorems of Properties/C10.v no longer check", {"broken": "Properties/C10.v"}, found_input=False)
    if ctx.replay:
        data = json.loads(open(ctx.replay).read())
        if data.get("case"):
            out = run_cases(ctx, [data["case"]], "C10r")
            results, live, sc_infos, bads, errs, details = out
            ctx.obligation("replayed case agrees", not any(bads) and not errs and bool(live))
            report(ctx, *out)
            for case, res in live:
                n, bad = cross_check(case, res)
                if bad:
                    ctx.violation("entry points disagree with predict() on the same record pair", {"case": case, "disagreements": bad[:3]},
                                  features(case, {"claim": "agreement", "entries": sorted({b["entry"].split(":")[0] for b in bad})}))
            return
    nd, ns, nx = (22, 8, 6) if ctx.quick else (150, 50, 40)
    cases = [gen_case(ctx.rng, "duckdb") for _ in range(nd)] + [gen_case(ctx.rng, "sqlite") for _ in range(ns)] + \
            [gen_case(ctx.rng, "duckdb" if i % 2 else "sqlite", exact=True) for i in range(nx)]
    out = run_cases(ctx, cases)
    results, live, sc_infos, bads, errs, details = out
    for e in errs:
        ctx.obligation("shard evaluation", False, e)
    ctx.obligation(f"every entry point's rows = shared scorer on its own TF source ({len(live)} cases)", not bads[0] and not errs)
    ctx.obligation(f"find_matches set = admitted pairs strictly above threshold ({len(live)} cases)", not bads[1] and not errs)
    ctx.obligation(f"missing-edge set = within-cluster pairs minus predictions ({len(live)} cases)", not bads[2] and not errs)
    nagree, disagreements = 0, []
    for (case, res), infos in zip(live, sc_infos):
        n, bad = cross_check(case, res)
        nagree += n
        disagreements += [(case, b) for b in bad]
        gam = {json.dumps([r[4].get(f"gamma_{c['name']}") for c in case["spec"]["comparisons"]]) for r in res["entries"]}
        ctx.count_case(json.dumps(case, sort_keys=True, default=str), bool(case["spec"]["tf_cols"]) and len(gam) >= 2,
                       {"backend": case["backend"], "tf_cols": case["spec"]["tf_cols"], "lookups": sorted(case["lookups"]),
                        "rows": len(case["rows"]), "scored_rows": len(res["entries"]), "fm_rules": case["fm_rules"],
                        "fm_out": len(res["fm"]["impl"]), "me_out": len(res["me"]["impl"])})
        ctx.cov["evaluations"] += len(res["entries"])
        ctx.hist("backend", case["backend"])
        ctx.hist("has_tf", bool(case["spec"]["tf_cols"]))
        ctx.hist("registered_lookup", bool(case["lookups"]))
        ctx.hist("fm_rules", len(case["fm_rules"]))
        ctx.hist("fm_output_size", len(res["fm"]["impl"]))
        ctx.hist("me_output_size", len(res["me"]["impl"]))
        ctx.hist("me_predictions_supplied", len(res["me"]["preds"]))
        ctx.hist("exact_threshold_stream", bool(case.get("exact_thr")))
        for e in res["entries"]:
            ctx.hist("entry", e[0])
    ctx.cov["cross_entry_comparisons"] = nagree
    ctx.obligation(f"entry points agree with predict() on gamma and match weight ({nagree} row pairs)", not disagreements)
    report(ctx, *out)
    seen = set()
    for case, b in disagreements:
        ent = b["entry"].split(":")[0]
        if ent in seen:
            continue
        seen.add(ent)
        ctx.violation(f"{ent} and predict() report different levels / match weight for the same record pair",
                      {"case": case, "disagreement": b}, features(case, {"claim": "agreement", "entries": [ent]}))
