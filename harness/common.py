"""Shared machinery for all property checks.

Every check is `harness/cXX.py` exposing `run(ctx)`.  This module provides
  * Ctx        : tier / seed / PRNG / timing / evidence / violation protocol
  * coq_*      : building the hand-written theories (make, under flock), compiling a
                 property file with captured `Print Assumptions`, compiling generated
                 obligation files and case files (Eval vm_compute), sharded in parallel
  * known-findings matching (KNOWN_FINDINGS.json is read-only at run time)
Python here runs under /venv/bin/python with PYTHONPATH=/repo, PYTHONHASHSEED=0.
"""
from __future__ import annotations

import fcntl
import hashlib
import json
import os
import random
import re
import subprocess
import sys
import time
from concurrent.futures import ThreadPoolExecutor
from fractions import Fraction
from pathlib import Path

VERIF = Path(__file__).resolve().parent.parent
REPO = Path(os.environ.get("VERIF_REPO", "/repo"))
COQ = VERIF / "coq"
GEN = COQ / "gen"
CASES = COQ / "cases"
EVID = VERIF / "evidence"
REPLAYS = VERIF / "replays"
COQ_FLAGS = ["-Q", str(COQ / "theories"), "Splinkv", "-Q", str(GEN), "SplinkGen", "-Q", str(CASES), "SplinkCases"]

FORBIDDEN = re.compile(
    r"\b(Admitted|admit|Axiom|Axioms|Parameter|Parameters|Conjecture|Conjectures|Admit Obligations|"
    r"Unset Guard Checking|Unset Positivity Checking|Unset Universe Checking|bypass_check|"
    r"type-in-type|impredicative-set)\b"
)


def strip_coq(txt: str, blank_strings: bool = True) -> str:
    """Remove Coq comments the way Coq's lexer does: comments nest, and a string literal
    (inside or outside a comment) hides comment delimiters ("" is an escaped quote).  With
    blank_strings the contents of string literals outside comments are emptied too, so the
    forbidden-vernacular scan sees exactly the vernacular."""
    out = []
    i, n, depth = 0, len(txt), 0
    while i < n:
        c = txt[i]
        if c == '"':
            j = i + 1
            while j < n:
                if txt[j] == '"':
                    if j + 1 < n and txt[j + 1] == '"':
                        j += 2
                        continue
                    break
                j += 1
            if depth == 0:
                out.append('""' if blank_strings else txt[i:j + 1])
            i = j + 1
        elif txt.startswith("(*", i):
            depth += 1
            i += 2
        elif depth > 0 and txt.startswith("*)", i):
            depth -= 1
            i += 2
            if depth == 0:
                out.append(" ")
        else:
            if depth == 0:
                out.append(c)
            elif c == "\n":
                out.append("\n")
            i += 1
    return "".join(out)


def forbidden_in(txt: str) -> list[str]:
    return [m.group(0) for m in FORBIDDEN.finditer(strip_coq(txt))]

KERNEL_TB = [
    "Coq 8.16.1 kernel (coqc, full .vo build, vm_compute; no native_compute)",
    "no Axiom/Parameter/Admitted in /verif/coq (grep gate + Print Assumptions under every property theorem)",
]


def sh(cmd, timeout=600, cwd=None, env=None):
    t0 = time.time()
    try:
        p = subprocess.run(cmd, cwd=cwd, env=env, stdout=subprocess.PIPE, stderr=subprocess.STDOUT,
                           text=True, timeout=timeout, shell=isinstance(cmd, str))
        return p.returncode, p.stdout, time.time() - t0
    except subprocess.TimeoutExpired as e:
        out = e.stdout or ""
        if isinstance(out, bytes):
            out = out.decode("utf8", "replace")
        return 124, out + "\nTIMEOUT", time.time() - t0


def git_blob(path: Path) -> str:
    try:
        data = Path(path).read_bytes()
    except OSError:
        return "missing"
    return hashlib.sha1(b"blob %d\0" % len(data) + data).hexdigest()[:12]


# ----------------------------------------------------------------------------------------
# Coq values as text
# ----------------------------------------------------------------------------------------
def coq_list(items, ty=None):
    s = "[" + "; ".join(items) + "]"
    return s if ty is None or items else f"(@nil {ty})"


def coq_nat(n):
    return f"{int(n)}%nat"


def coq_Z(n):
    n = int(n)
    return f"({n})%Z"


def coq_bool(b):
    return "true" if b else "false"


def coq_Q(x):
    f = Fraction(x)
    return f"(Qmake ({f.numerator})%Z {f.denominator}%positive)"


def coq_opt(x, f):
    return "None" if x is None else f"(Some {f(x)})"


def coq_string(s: str) -> str:
    assert all(32 <= ord(c) < 127 for c in s), s
    return '"' + s.replace('"', '""') + '"%string'


# ----------------------------------------------------------------------------------------
class Ctx:
    def __init__(self, pid: str, tier: str, seed: int, replay: str | None = None):
        self.pid = pid
        self.tier = tier
        self.seed = seed
        self.replay = replay
        self.rng = random.Random(f"{pid}-{seed}")
        self.t0 = time.time()
        self.violations: list[dict] = []
        self.known_hits: list[dict] = []
        self.obligations = 0
        self.discharged = 0
        self.cov: dict = {"samples": [], "evaluations": 0, "distinct_nontrivial": 0}
        self.checker_cmds: list[str] = []
        self.trusted: list[str] = list(KERNEL_TB)
        self.assumptions: list[str] = []
        self._distinct: set = set()
        self.notes: list[str] = []
        self.known = json.loads((VERIF / "KNOWN_FINDINGS.json").read_text()) if (VERIF / "KNOWN_FINDINGS.json").exists() else []
        for d in (GEN, CASES, EVID, REPLAYS / pid):
            d.mkdir(parents=True, exist_ok=True)

    @property
    def quick(self):
        return self.tier == "quick"

    def log(self, *a):
        print(f"[{self.pid} {time.time()-self.t0:6.1f}s]", *a, flush=True)

    # -------------------------------------------------------------- coverage bookkeeping
    def count_case(self, key, nontrivial: bool, sample=None):
        """key: hashable canonical form of the case; counted distinct & nontrivial."""
        self.cov["evaluations"] += 1
        if nontrivial:
            h = hashlib.sha1(repr(key).encode()).digest()[:8]
            if h not in self._distinct:
                self._distinct.add(h)
                self.cov["distinct_nontrivial"] += 1
        if sample is not None and len(self.cov["samples"]) < 5:
            self.cov["samples"].append(sample)

    def hist(self, name, key):
        d = self.cov.setdefault("input_distribution", {}).setdefault(name, {})
        d[str(key)] = d.get(str(key), 0) + 1

    # -------------------------------------------------------------- obligations
    def obligation(self, name: str, ok: bool, detail: str = ""):
        self.obligations += 1
        if ok:
            self.discharged += 1
        else:
            self.failed_obligations = getattr(self, "failed_obligations", []) + [f"{name} {detail[:300]}"]
            self.log(f"OBLIGATION FAILED: {name} {detail[:2000]}")
        return ok

    # -------------------------------------------------------------- coq
    def coq_build_theories(self, target: str | None = None) -> bool:
        """Full .vo build (incremental) of the dependency cone of `target` (a path relative to
        coq/, e.g. theories/Properties/C01.vo) or of everything; serialised by flock."""
        lock = open(COQ / ".build.lock", "w")
        fcntl.flock(lock, fcntl.LOCK_EX)
        try:
            files = sorted(str(p.relative_to(COQ)) for p in (COQ / "theories").rglob("*.v"))
            want = "-Q theories Splinkv\n" + "\n".join(files) + "\n"
            cp = COQ / "_CoqProject"
            if not cp.exists() or cp.read_text() != want or not (COQ / "Makefile").exists():
                cp.write_text(want)
                rc, out, _ = sh(["coq_makefile", "-f", "_CoqProject", "-o", "Makefile"], cwd=COQ)
                if rc != 0:
                    self.log(out)
                    return False
            cmd = ["timeout", "1500", "make", "-j12"] + ([target] if target else [])
            rc, out, dt = sh(cmd, cwd=COQ, timeout=1600)
            self.checker_cmds.append("cd /verif/coq && coq_makefile -f _CoqProject -o Makefile && make -j12 " + (target or ""))
            if rc != 0:
                self.log("theories build FAILED\n" + out[-4000:])
            return rc == 0
        finally:
            fcntl.flock(lock, fcntl.LOCK_UN)
            lock.close()

    def cone(self, relpath: str) -> list[Path]:
        """Hand-written theory files the property file (transitively) requires (lexical scan of
        `From Splinkv Require ...` / `Require Splinkv.X`)."""
        root = COQ / "theories"
        seen: dict[Path, None] = {}
        todo = [root / relpath]
        while todo:
            f = todo.pop()
            if f in seen or not f.exists():
                continue
            seen[f] = None
            txt = strip_coq(f.read_text())
            mods = []
            for m in re.finditer(r"From\s+Splinkv\s+Require\s+(?:Import\s+|Export\s+)?([^.]*(?:\.[A-Za-z][^.]*)*?)\.\s", txt):
                mods += m.group(1).split()
            mods += re.findall(r"Splinkv\.([A-Za-z0-9_.]+)", txt)
            for mod in mods:
                mod = mod.strip().rstrip(".")
                if mod.startswith("Splinkv."):
                    mod = mod[len("Splinkv."):]
                todo.append(root / (mod.replace(".", "/") + ".v"))
        return list(seen)

    def forbidden_gate(self, relpath: str | None = None) -> bool:
        bad = []
        files = self.cone(relpath) if relpath else list((COQ / "theories").rglob("*.v"))
        self.cov["coq_files_in_cone"] = sorted(str(f.relative_to(COQ)) for f in files)
        for p in files + list(GEN.glob(f"{self.pid}_*.v")):
            txt = strip_coq(p.read_text())
            for m in FORBIDDEN.finditer(txt):
                bad.append(f"{p}:{m.group(0)}")
            if re.search(r"^\s*(Variable|Variables|Hypothesis|Hypotheses|Context)\b", txt, flags=re.M):
                # allowed only inside sections: every such line must lie between Section and End
                depth = 0
                for line in txt.splitlines():
                    if re.match(r"\s*Section\b", line):
                        depth += 1
                    elif re.match(r"\s*End\b", line) and depth > 0:
                        depth -= 1
                    elif re.match(r"\s*(Variable|Variables|Hypothesis|Hypotheses|Context)\b", line) and depth == 0:
                        bad.append(f"{p}:Variable-outside-section")
        if bad:
            self.log("forbidden vernacular:", bad[:10])
        return not bad

    def coq_property_file(self, relpath: str) -> tuple[bool, int, list[str]]:
        """coqc a Properties file; returns ok, number of theorems, assumption blocks."""
        p = COQ / "theories" / relpath
        rc, out, dt = sh(["timeout", "600", "coqc", *COQ_FLAGS, str(p)], cwd=COQ, timeout=700)
        self.checker_cmds.append(f"coqc -Q theories Splinkv theories/{relpath}")
        txt = strip_coq(p.read_text())
        thms = re.findall(r"^\s*(?:Theorem|Lemma|Example|Corollary)\s+([A-Za-z0-9_']+)", txt, flags=re.M)
        blocks = []
        if rc == 0:
            # split Print Assumptions output
            cur = None
            for line in out.splitlines():
                if line.startswith("Closed under the global context"):
                    blocks.append("Closed under the global context")
                    cur = None
                elif line.startswith("Axioms:"):
                    cur = []
                    blocks.append(cur)
                elif cur is not None and line.strip():
                    if line[0].isspace() and cur:  # wrapped type of the previous axiom
                        cur[-1] += " " + line.strip()
                    else:
                        cur.append(line.strip())
            blocks = [b if isinstance(b, str) else "Axioms: " + " ;; ".join(b) for b in blocks]
        else:
            self.log(f"coqc {relpath} FAILED\n" + out[-3000:])
        return rc == 0, len(thms), blocks

    ALLOWED_AXIOMS_FQ = (
        "Coq.Reals.ClassicalDedekindReals.sig_forall_dec", "Coq.Reals.ClassicalDedekindReals.sig_not_dec",
        "Coq.Logic.FunctionalExtensionality.functional_extensionality_dep", "Coq.Logic.Classical_Prop.classic",
    )
    # Print Assumptions prints the shortest unambiguous qualified name: accept exactly the
    # dot-suffixes of the fully qualified standard-library names (never a mere string suffix)
    ALLOWED_AXIOMS = frozenset(".".join(fq.split(".")[k:]) for fq in ALLOWED_AXIOMS_FQ
                               for k in range(len(fq.split("."))))

    def proof_stage(self, propfile: str) -> bool:
        """gate + build theories + compile property file; records obligations."""
        ok_gate = self.obligation("forbidden-vernacular gate", self.forbidden_gate(propfile))
        ok_build = self.obligation("theories build (make)", self.coq_build_theories("theories/" + propfile[:-2] + ".vo"))
        if not ok_build:
            return False
        ok, n, blocks = self.coq_property_file(propfile)
        self.obligations += n
        if ok:
            self.discharged += n
        self.assumptions += blocks
        # every Theorem/Lemma/Corollary of a property file reports its assumptions
        ptxt = strip_coq((COQ / "theories" / propfile).read_text())
        nthm = len(re.findall(r"^\s*(?:Theorem|Lemma|Corollary)\s+[A-Za-z0-9_']+", ptxt, flags=re.M))
        npa = len(re.findall(r"^\s*Print\s+Assumptions\s+[A-Za-z0-9_'.]+\s*\.", ptxt, flags=re.M))
        if ok:
            self.obligation(f"Print Assumptions under every theorem of {propfile}", npa >= nthm and len(blocks) >= nthm,
                            f"{nthm} theorems, {npa} Print Assumptions commands, {len(blocks)} reports")
        # every axiom line must be a named stdlib axiom
        okax = True
        for b in blocks:
            if b.startswith("Axioms:"):
                for item in b[len("Axioms:"):].split(";;"):
                    item = item.strip()
                    m = re.match(r"([A-Za-z0-9_.']+)\s*:", item)
                    if not m or m.group(1) not in self.ALLOWED_AXIOMS:
                        okax = False
                        self.log("unexpected axiom:", item)
        self.obligation("axioms limited to named stdlib axioms", okax)
        # a check may run several property files: accumulate
        self.cov["assumptions_reported"] = sorted(set(self.cov.get("assumptions_reported", [])) | set(blocks))
        self.cov["theorems_in_property_file"] = self.cov.get("theorems_in_property_file", 0) + n
        self.cov.setdefault("property_files", []).append(propfile)
        return ok and ok_gate and okax

    def coqc_text(self, name: str, text: str, where: Path = None, timeout=600) -> tuple[bool, str]:
        """Write a generated .v (gen/ or cases/) and compile it."""
        where = where or GEN
        f = where / f"{name}.v"
        lock = open(str(f) + ".lock", "w")
        fcntl.flock(lock, fcntl.LOCK_EX)  # generated files have fixed module names: serialise writers
        f.write_text(text)
        fb = forbidden_in(text)
        if fb:
            fcntl.flock(lock, fcntl.LOCK_UN)
            lock.close()
            return False, f"forbidden vernacular in generated file {f.name}: {fb[:5]}"
        try:
            rc, out, dt = sh(["timeout", str(timeout), "coqc", *COQ_FLAGS, str(f)], cwd=COQ, timeout=timeout + 30)
        finally:
            fcntl.flock(lock, fcntl.LOCK_UN)
            lock.close()
        return rc == 0, out

    def eval_cases(self, name: str, header: str, case_terms: list[str], runner: str,
                   shard=300, timeout=900) -> tuple[list[int], list[str]]:
        """Each case term has Coq type `bool`-producing via `runner` (a Coq function name
        or lambda of type case -> bool).  Returns indices of cases evaluating to false and
        errors.  Sharded coqc runs in parallel; output is a list of nat printed by Coq."""
        shards = [case_terms[i:i + shard] for i in range(0, len(case_terms), shard)]
        files = []
        for k, sh_cases in enumerate(shards):
            body = [header, "", f"Definition cases := {coq_list(sh_cases)}.",
                    "Definition bad := filter (fun ic => negb (snd ic)) (combine (seq 0 (length cases)) (map (" + runner + ") cases)).",
                    'Eval vm_compute in (map fst bad).', ""]
            f = CASES / f"{name}_p{os.getpid()}_{k}.v"  # pid: concurrent runs of one check must not collide
            f.write_text("\n".join(body))
            fb = forbidden_in("\n".join(body))
            if fb:
                return [], [f"forbidden vernacular in generated case file {f.name}: {fb[:5]}"]
            files.append(f)
        bad: list[int] = []
        errs: list[str] = []

        def one(kf):
            k, f = kf
            rc, out, dt = sh(["timeout", str(timeout), "coqc", *COQ_FLAGS, str(f)], cwd=COQ, timeout=timeout + 30)
            return k, rc, out

        with ThreadPoolExecutor(max_workers=8) as ex:
            for k, rc, out in ex.map(one, list(enumerate(files))):
                if rc != 0:
                    errs.append(f"shard {k}: coqc failed: {out[-1500:]}")
                    continue
                m = re.search(r"=\s*(\[[^\]]*\]|nil)", out.replace("\n", " "))
                if not m:
                    errs.append(f"shard {k}: cannot parse {out[-500:]}")
                    continue
                nums = re.findall(r"\d+", m.group(1))
                bad += [k * shard + int(x) for x in nums]
        self.checker_cmds.append(f"coqc cases/{name}_*.v ({len(files)} shards; Eval vm_compute)")
        for f in files:
            for ext in (".vo", ".vok", ".vos", ".glob"):
                try:
                    f.with_suffix(ext).unlink()
                except OSError:
                    pass
            aux = f.parent / ("." + f.stem + ".aux")
            if aux.exists():
                aux.unlink()
        if not bad and not errs:
            # the case files carry the process id in their names: without this they pile up
            # (kept only when something failed, for inspection; the replay holds the input anyway)
            for f in files:
                try:
                    f.unlink()
                except OSError:
                    pass
        return bad, errs

    # -------------------------------------------------------------- violations
    def violation(self, what: str, replay: dict, features: dict | None = None, found_input: bool = True):
        """Record a violation.  `features` describe the minimised failing input for
        known-finding matching.  If found_input is False the VIOLATION line ends with
        no-failing-input-found and the replay names the broken theorem/correspondence."""
        features = features or {}
        for kf in self.known:
            if kf.get("property") == self.pid and kf.get("status") == "known" and found_input:
                m = kf.get("matcher", {})
                if m and all(features.get(k) == v for k, v in m.items()):
                    if not any(h["id"] == kf["id"] for h in self.known_hits):
                        self.known_hits.append(kf)
                        print(f"KNOWN-FINDING: property={self.pid} {kf['what']}", flush=True)
                    return
        n = len(self.violations)
        path = REPLAYS / self.pid / f"{self.seed}-{n}.json"
        replay = dict(replay)
        replay.update({"property": self.pid, "what": what, "features": features, "seed": self.seed,
                       "tier": self.tier, "failing_input_found": found_input})
        path.write_text(json.dumps(replay, indent=1, default=str))
        self.violations.append({"what": what, "replay": str(path)})
        tail = "" if found_input else " no-failing-input-found"
        print(f"VIOLATION property={self.pid} replay={path}{tail}", flush=True)
        self.log("  ->", what[:500])

    def expect_known(self, kid: str, reproduced: bool, what_if_gone: str):
        """A known finding's witness is replayed on every run.  If the real code no longer
        exhibits it, say so (not a violation)."""
        kf = next((k for k in self.known if k["id"] == kid), None)
        if kf is None:
            return
        if kf.get("status") == "known":
            if reproduced:
                if not any(h["id"] == kid for h in self.known_hits):
                    self.known_hits.append(kf)
                    print(f"KNOWN-FINDING: property={self.pid} {kf['what']}", flush=True)
            else:
                self.notes.append(f"known finding {kid} no longer reproduces: {what_if_gone}")
                self.log(f"NOTE known finding {kid} no longer reproduces")

    # -------------------------------------------------------------- finish
    def finish(self) -> int:
        if self.discharged < self.obligations and not self.violations:
            # a failed proof obligation / correspondence that no stage turned into a report:
            # the property is no longer shown to hold
            failed = getattr(self, "failed_obligations", [])[:20]
            self.violation(f"{self.obligations - self.discharged} obligation(s) not discharged and no failing input found",
                           {"broken": failed or "see log"}, {"undischarged": True}, found_input=False)
        if not self.replay and not self.violations and self.cov.get("evaluations", 0) == 0:
            # a correspondence over zero cases shows nothing
            self.violation("no case was evaluated against the implementation (correspondence stage produced no cases)",
                           {"broken": "correspondence stage"}, {"no_cases": True}, found_input=False)
        wall = time.time() - self.t0
        cov = dict(self.cov)
        cov["obligations"] = self.obligations
        cov["discharged"] = self.discharged
        cov["checker_cmd"] = " ; ".join(dict.fromkeys(self.checker_cmds)) or "none"
        cov["trusted_base"] = self.trusted
        cov["known_findings_hit"] = [k["id"] for k in self.known_hits]
        cov["notes"] = self.notes
        if not cov.get("rule"):
            cov["rule"] = "see check source"
        ev = {
            "property_id": self.pid, "tier": self.tier, "seed": self.seed, "level": "proof",
            "coverage": cov, "assumptions": self.assumptions_text(), "wall_s": round(wall, 2),
            "violations": len(self.violations),
        }
        # a --replay run re-checks one stored input: it must not replace the evidence of a full run
        evname = f"{self.pid}.replay.json" if self.replay else f"{self.pid}.json"
        (EVID / evname).write_text(json.dumps(ev, indent=1, default=str))
        self.log(f"done: obligations {self.discharged}/{self.obligations}, evaluations {cov['evaluations']}, "
                 f"distinct_nontrivial {cov['distinct_nontrivial']}, violations {len(self.violations)}, "
                 f"known {len(self.known_hits)}")
        return 1 if self.violations else 0

    def assumptions_text(self):
        return sorted(set(self.assumptions)) + [t for t in self.trusted if t not in KERNEL_TB]


def write_coqproject():
    files = sorted(str(p.relative_to(COQ)) for p in (COQ / "theories").rglob("*.v"))
    (COQ / "_CoqProject").write_text("-Q theories Splinkv\n" + "\n".join(files) + "\n")


def float_to_Q(x: float) -> Fraction:
    return Fraction(x)
