"""C05 correspondence: the real connected-components clustering (standalone function and linker
method, DuckDB and SQLite) against the Gallina model `cluster_at_threshold` (Model/CC.v) and the
proved-correct spec `comp_labels`/`comp_min` (Base/Graph.v), both evaluated inside Coq.

A case is engine independent:
  entry      "standalone" | "linker"
  backend    "duckdb" | "sqlite"
  idkind     "int" | "str" | "link"          (link: composite [source_dataset, unique_id])
  link_type  linker only: dedupe_only | link_only | link_and_dedupe
  one_table  linker link jobs only: hand the records over as ONE table with a source_dataset column
  nodes      ids in table order (int | str | [sds, uid])
  edges      [l, r, k]: match_probability = k/1024 (dyadic: engine floats and model Q agree exactly)
  thr        None | ["p", k] | ["w", w]      (probability k/1024 or integer match weight w)
             | ["pf", x] | ["wf", w]         (any double probability / any float weight; edge probabilities
                                              may then be doubles, given as floats instead of k)
The model works on ranks: position of the id in the engine's sort order (numeric for bare integer
ids, byte order of the string / of sds||'-__-'||uid otherwise; ids are ASCII).
"""
from __future__ import annotations

import itertools
from fractions import Fraction

import pandas as pd

from harness import c05_guard as G
from harness import splink_util as su
from harness.common import coq_Q, coq_Z, coq_bool, coq_list, coq_opt

SEP = "-__-"

HEADER = """From Coq Require Import ZArith List Bool QArith.
From Splinkv Require Import Base.Graph Model.CC.
Import ListNotations.
Open Scope Z_scope.
Definition zz_eqb (a b : Z * Z) : bool := (fst a =? fst b) && (snd a =? snd b).
Definition row_eqb (a b : rrow) : bool := zz_eqb (fst a) (fst b) && Bool.eqb (snd a) (snd b).
Definition same_set {A : Type} (eqb : A -> A -> bool) (l1 l2 : list A) : bool :=
  Nat.eqb (length l1) (length l2) && forallb (fun x => existsb (eqb x) l2) l1
  && forallb (fun x => existsb (eqb x) l1) l2.
Fixpoint list_eqb (a b : list (Z * Z)) : bool :=
  match a, b with
  | [], [] => true
  | x :: s, y :: t => zz_eqb x y && list_eqb s t
  | _, _ => false
  end.
Definition thr_of (t : option (bool * Z * Q)) : option Q :=
  match t with
  | None => None
  | Some (true, w, _) => Some (weight_to_prob w)      (* integer match weight *)
  | Some (false, _, p) => Some p
  end.
(* final output: impl (in node-table order) = spec comp_labels, and (when `full`) = the model;
   `iters` = number of passes of the while loop the implementation made, when observed *)
Definition FC := (list Z * list (Z * Z * option Q) * option (bool * Z * Q) * list (Z * Z) * bool * option nat)%type.
Definition run_case (c : FC) : bool :=
  match c with (nodes, edges, t, impl, full, iters) =>
    let thr := thr_of t in
    list_eqb impl (comp_labels nodes (thr_edges_n thr edges))
    && (if full then match cluster_at_threshold_n nodes edges thr with
                     | Some out => same_set zz_eqb out impl
                     | None => false
                     end
        else true)
    && match iters with
       | None => true
       | Some k => let '(r0, nb) := cc_init nodes (thr_edges_n thr edges) in
                   Nat.eqb (length (cc_trace (cc_fuel nodes) r0 nb)) k
       end
  end.
(* lock-step: every captured table equals the model's table of the same name, as a set *)
Definition iter_eqb (m : cc_iter) (e : list rrow * list (Z * Z) * list rrow) : bool :=
  match e with (st, nb, rp) =>
    same_set row_eqb (it_stable m) st && same_set zz_eqb (it_nbrs m) nb && same_set row_eqb (it_reps m) rp
  end.
Fixpoint iters_eqb (ms : list cc_iter) (es : list (list rrow * list (Z * Z) * list rrow)) : bool :=
  match ms, es with
  | [], [] => true
  | m :: ms', e :: es' => iter_eqb m e && iters_eqb ms' es'
  | _, _ => false
  end.
Definition TC := (list Z * list (Z * Z * option Q) * option (bool * Z * Q) *
                  (list (Z * Z) * list rrow * list (list rrow * list (Z * Z) * list rrow)))%type.
Definition run_trace (c : TC) : bool :=
  match c with (nodes, edges, t, (nb0, r0, its)) =>
    let E := thr_edges_n (thr_of t) edges in
    let '(mr0, mnb) := cc_init nodes E in
    same_set zz_eqb mnb nb0 && same_set row_eqb mr0 r0
    && iters_eqb (cc_trace (cc_fuel nodes) mr0 mnb) its
  end.
Definition mkF (c : FC) : FC + TC := inl c.
Definition mkT (c : TC) : FC + TC := inr c.
Definition run_any (c : FC + TC) : bool :=
  match c with inl a => run_case a | inr b => run_trace b end.
"""


# ----------------------------------------------------------------------------------------
# ids and ranks
# ----------------------------------------------------------------------------------------
def key_of(nid):
    if isinstance(nid, (list, tuple)):
        return f"{nid[0]}{SEP}{nid[1]}"
    return nid


def rank_map(case):
    keys = [key_of(x) for x in case["nodes"]]
    if len(set(keys)) != len(keys):
        raise ValueError("node keys not distinct (composite_inj fails)")
    if case["idkind"] == "int":
        assert all(isinstance(k, int) and k >= 0 for k in keys)
    else:
        assert all(isinstance(k, str) and all(32 < ord(c) < 127 for c in k) for k in keys), keys
    order = sorted(keys)
    return {k: i for i, k in enumerate(order)}


def pfrac(k):
    """Exact value of an edge probability: int k means k/1024, a float means that double, None = NULL."""
    if k is None:
        return None
    return Fraction(k, 1024) if isinstance(k, int) else Fraction(float(k))


def pfloat(k):
    if k is None:
        return None
    return k / 1024 if isinstance(k, int) else float(k)


def prob_series(ks):
    """match_probability column; NULLs need the nullable dtype (a float64 NaN is not a NULL everywhere)."""
    vals = [pfloat(k) for k in ks]
    if any(v is None for v in vals):
        return pd.Series([pd.NA if v is None else v for v in vals], dtype="Float64")
    return pd.Series(vals, dtype="float64")


def qualifies(k, t) -> bool:
    """Does an edge with probability k pass threshold t (None = no threshold)?  NULL passes only then."""
    if t is None:
        return True
    return k is not None and pfrac(k) >= t


_EFF: dict = {}


CONVERSION_CHECKED: dict = {}
CONVERSION_BAD: list = []


def single_threshold_prob(w) -> float:
    """The probability the implementation's own single-threshold conversion computes for weight w.
    Independent obligation, once per weight: it is within 2 ulp of 2^w/(1+2^w) evaluated with 60
    significant digits (the weight taken as the exact double it is)."""
    from splink.internals.misc import threshold_args_to_match_prob
    p = threshold_args_to_match_prob(None, float(w))
    key = repr(float(w))
    if key not in CONVERSION_CHECKED:
        import decimal
        import math
        with decimal.localcontext() as ctx:
            ctx.prec = 60
            b = decimal.Decimal(2) ** decimal.Decimal(float(w))
            exact = b / (1 + b)
            err = abs(decimal.Decimal(p) - exact)
            ok = err <= 2 * decimal.Decimal(math.ulp(p))
        CONVERSION_CHECKED[key] = ok
        if not ok:
            CONVERSION_BAD.append({"match_weight": float(w), "implementation": repr(p), "specification 2^w/(1+2^w)": str(exact)[:25]})
    return p


def effective_threshold(backend: str, p: float) -> Fraction:
    """Exact rational t such that the engine's `match_probability >= <repr(p)>` on a DOUBLE column is
    `x >= t` for every double x near p.  DuckDB reads the literal as DECIMAL and its comparison with a
    DOUBLE can sit one ulp off p (either way); SQLite parses it as the double p.  Determined by probing
    the 7 doubles around p on an independent connection; None if the answers are not monotone."""
    key = (backend, repr(p))
    if key in _EFF:
        return _EFF[key]
    import math
    ds = [p]
    for _ in range(3):
        ds.insert(0, math.nextafter(ds[0], -math.inf))
        ds.append(math.nextafter(ds[-1], math.inf))
    lit = f"{p}"
    if backend == "duckdb":
        import duckdb
        con = duckdb.connect()
        con.execute("create table t(i integer, x double)")
        con.executemany("insert into t values (?, ?)", [[i, x] for i, x in enumerate(ds)])
        ans = [bool(r[0]) for r in con.execute(f"select x >= {lit} from t order by i").fetchall()]
        con.close()
    else:
        import sqlite3
        con = sqlite3.connect(":memory:")
        con.execute("create table t(i integer, x real)")
        con.executemany("insert into t values (?, ?)", list(enumerate(ds)))
        ans = [bool(r[0]) for r in con.execute(f"select x >= {lit} from t order by i").fetchall()]
        con.close()
    res = None
    if ans == sorted(ans) and ans[0] is False and ans[-1] is True:
        res = Fraction(ds[ans.index(True)])
    _EFF[key] = res
    return res


def thr_fraction(thr, backend=None):
    """Exact rational the threshold filter compares against.
    "p": k/1024; "w": integer weight, exactly 2^w/(1+2^w) (never within rounding of a dyadic edge);
    "pf": any double probability; "wf": any float weight, converted by the implementation's own
    single-threshold conversion - for these two the value is what the engine really compares a DOUBLE
    column against when handed the literal (edges may sit exactly on it)."""
    if thr is None:
        return None
    if thr[0] == "p":
        return Fraction(thr[1], 1024)
    if thr[0] in ("pf", "wf"):
        p = float(thr[1]) if thr[0] == "pf" else single_threshold_prob(thr[1])
        t = effective_threshold(backend, p)
        if t is None:
            raise ValueError(f"engine comparison around threshold {p!r} is not monotone")
        return t
    w = int(thr[1])
    b = Fraction(2) ** w
    return b / (1 + b)


def oracle(case):
    """Independent Python spec: rank of the component minimum for every node rank (union-find)."""
    rk = rank_map(case)
    n = len(rk)
    parent = list(range(n))

    def find(x):
        while parent[x] != x:
            parent[x] = parent[parent[x]]
            x = parent[x]
        return x

    t = thr_fraction(case["thr"], case["backend"])
    for l, r, k in case["edges"]:
        if qualifies(k, t):
            a, b = find(rk[key_of(l)]), find(rk[key_of(r)])
            if a != b:
                parent[max(a, b)] = min(a, b)
    return {v: find(v) for v in range(n)}


# ----------------------------------------------------------------------------------------
# running the real implementation
# ----------------------------------------------------------------------------------------
CAPTURE_PREFIXES = ("__splink__df_representatives", "__splink__representatives_stable",
                    "__splink__df_neighbours")


_SPARK: dict = {}


def spark_api():
    """Thorough tier only: one local Spark session for the whole run; lineage is broken by parquet
    files under a scratch directory in /var/tmp that spark_stop() removes."""
    import os
    import tempfile
    if "spark" not in _SPARK:
        os.environ.setdefault("PYSPARK_SUBMIT_ARGS", "--driver-memory 4g pyspark-shell")
        from pyspark.sql import SparkSession
        spark = (SparkSession.builder.master("local[2]").appName("verif-c05").config("spark.ui.enabled", "false")
                 .config("spark.sql.shuffle.partitions", "2").config("spark.default.parallelism", "2")
                 .config("spark.sql.ansi.enabled", "false").getOrCreate())
        spark.sparkContext.setLogLevel("OFF")
        ckpt = tempfile.mkdtemp(prefix="c05_spark_", dir="/var/tmp")
        spark.sparkContext.setCheckpointDir(ckpt)
        _SPARK.update(spark=spark, ckpt=ckpt)
    import logging
    logging.getLogger("splink").setLevel(logging.CRITICAL)
    from splink.internals.spark.database_api import SparkAPI
    spark = _SPARK["spark"]
    for t in spark.catalog.listTables():
        if t.isTemporary:
            spark.catalog.dropTempView(t.name)
    return SparkAPI(spark_session=spark, break_lineage_method="parquet", num_partitions_on_repartition=2)


def spark_clean():
    """Remove the parquet files written for the case just finished."""
    import os
    import shutil
    ckpt = _SPARK.get("ckpt")
    if ckpt:
        for root in os.listdir(ckpt):
            sub = os.path.join(ckpt, root)
            for name in os.listdir(sub) if os.path.isdir(sub) else []:
                shutil.rmtree(os.path.join(sub, name), ignore_errors=True)


def spark_stop():
    import shutil
    if "spark" in _SPARK:
        try:
            _SPARK["spark"].stop()
        finally:
            shutil.rmtree(_SPARK["ckpt"], ignore_errors=True)
            _SPARK.clear()


def _make_api(backend):
    return spark_api() if backend == "spark" else su.make_api(backend)


def _capturing_api(backend, names_only=False, n_nodes=0):
    api = G.install(_make_api(backend), n_nodes)
    cap = []
    orig = api.sql_pipeline_to_splink_dataframe

    def wrap(pipeline, use_cache=True):
        sdf = orig(pipeline, use_cache)
        name = sdf.templated_name
        if name.startswith(CAPTURE_PREFIXES):
            cap.append((name, None if names_only else sdf.as_record_dict()))
        return sdf

    api.sql_pipeline_to_splink_dataframe = wrap
    return api, cap


def _thr_kwargs(thr):
    if thr is None:
        return {}
    if thr[0] == "p":
        return {"threshold_match_probability": thr[1] / 1024}
    if thr[0] == "pf":
        return {"threshold_match_probability": float(thr[1])}
    return {"threshold_match_weight": thr[1]}      # "w": integer weight, "wf": any float weight


def _col(values, kind):
    if kind == "int":
        return pd.Series(values, dtype="int64")
    return pd.Series(values, dtype="string")


def run_impl(case, capture=False):
    """Returns (rows, captured) : rows = [(node_key, cluster_key)]."""
    backend = case["backend"]
    n = len(case["nodes"])
    if capture:
        api, cap = _capturing_api(backend, names_only=(capture == "count"), n_nodes=n)
    else:
        api, cap = G.install(_make_api(backend), n), []
    try:
        with G.time_limit(900 if backend == "spark" else 120 + 0.3 * n, "clustering"):
            return _run_impl(case, api, cap)
    finally:
        if backend == "spark":
            spark_clean()


def _run_impl(case, api, cap):
    backend = case["backend"]
    kw = _thr_kwargs(case["thr"])
    if case["entry"] == "standalone":
        from splink.clustering import cluster_pairwise_predictions_at_threshold as cpt
        kind = "int" if case["idkind"] == "int" else "str"
        nodes = pd.DataFrame({"uid": _col([key_of(x) for x in case["nodes"]], kind)})
        edges = pd.DataFrame({
            "uid_l": _col([key_of(e[0]) for e in case["edges"]], kind),
            "uid_r": _col([key_of(e[1]) for e in case["edges"]], kind),
            "match_probability": prob_series([e[2] for e in case["edges"]]),
        })
        cc = cpt(nodes, edges, api, "uid", **kw)
        rows = [(r["uid"], r["cluster_id"]) for r in cc.as_record_dict()]
        return rows, cap
    # linker method
    import splink.comparison_library as cl
    from splink import SettingsCreator, block_on
    lt = case["link_type"]
    settings = SettingsCreator(link_type=lt, comparisons=[cl.ExactMatch("a")],
                               blocking_rules_to_generate_predictions=[block_on("a")])
    if case["idkind"] == "link":
        uid_kind = "int" if all(isinstance(x[1], int) for x in case["nodes"]) else "str"
        names = sorted({x[0] for x in case["nodes"]})
        tables = []
        for nm in names:
            uids = [x[1] for x in case["nodes"] if x[0] == nm]
            tables.append(pd.DataFrame({"unique_id": _col(uids, uid_kind), "a": pd.Series(["x"] * len(uids), dtype="string")}))
        pred = pd.DataFrame({
            "source_dataset_l": _col([e[0][0] for e in case["edges"]], "str"),
            "unique_id_l": _col([e[0][1] for e in case["edges"]], uid_kind),
            "source_dataset_r": _col([e[1][0] for e in case["edges"]], "str"),
            "unique_id_r": _col([e[1][1] for e in case["edges"]], uid_kind),
        })
        aliases = names
        if case.get("one_table"):
            # the same link job presented as ONE pre-concatenated table carrying its own source_dataset column
            recs = list(case["nodes"])
            tables = [pd.DataFrame({"unique_id": _col([x[1] for x in recs], uid_kind),
                                    "source_dataset": _col([x[0] for x in recs], "str"),
                                    "a": pd.Series(["x"] * len(recs), dtype="string")})]
            aliases = None
    else:
        uid_kind = case["idkind"]
        tables = [pd.DataFrame({"unique_id": _col(list(case["nodes"]), uid_kind),
                                "a": pd.Series(["x"] * len(case["nodes"]), dtype="string")})]
        pred = pd.DataFrame({
            "unique_id_l": _col([e[0] for e in case["edges"]], uid_kind),
            "unique_id_r": _col([e[1] for e in case["edges"]], uid_kind),
        })
        aliases = None
    if not case.get("no_prob_col"):
        pred["match_probability"] = prob_series([e[2] for e in case["edges"]])
        pred["match_weight"] = pd.Series([0.0] * len(case["edges"]), dtype="float64")
    lk = su.linker(tables, settings, backend, aliases=aliases, api=api)
    dfp = lk.table_management.register_table_predict(pred, overwrite=True)
    cc = lk.clustering.cluster_pairwise_predictions_at_threshold(dfp, **kw)
    rows = []
    for r in cc.as_record_dict():
        if case["idkind"] == "link":
            rows.append((f"{r['source_dataset']}{SEP}{r['unique_id']}", r["cluster_id"]))
        else:
            rows.append((r["unique_id"], r["cluster_id"]))
    return rows, cap


def canonical_output(case, rows):
    """Map engine rows to ranks.  Returns (list of (rank, cluster rank) in node-table order, None)
    or (None, reason) when the output is not a function on the node table."""
    rk = rank_map(case)
    seen = {}
    for nk, ck in rows:
        if nk not in rk:
            return None, f"output row for unknown node {nk!r}"
        if ck not in rk:
            return None, f"cluster_id {ck!r} of node {nk!r} is not a node id"
        if nk in seen:
            return None, f"node {nk!r} appears more than once"
        seen[nk] = ck
    for x in case["nodes"]:
        if key_of(x) not in seen:
            return None, f"node {key_of(x)!r} missing from the output"
    return [(rk[key_of(x)], rk[seen[key_of(x)]]) for x in case["nodes"]], None


def iteration_count(cap):
    return sum(1 for name, _ in cap if name.startswith("__splink__df_representatives_"))


def _flag(v):
    return bool(v)


def canonical_trace(case, cap):
    """Captured tables -> (nb0, r0, [(stable_k, nbrs_k, reps_k)]) on ranks."""
    rk = rank_map(case)
    by = {}
    for name, recs in cap:
        by[name] = recs

    def nb(recs):
        return [(rk[r["node_id"]], rk[r["neighbour"]]) for r in recs]

    def rp(recs):
        return [(rk[r["node_id"]], rk[r["representative"]], _flag(r["needs_updating"])) for r in recs]

    nb0 = nb(by["__splink__df_neighbours"])
    r0 = rp(by["__splink__df_representatives"])
    its = []
    k = 1
    while f"__splink__df_representatives_{k}" in by:
        its.append((rp(by[f"__splink__representatives_stable_{k}"]),
                    nb(by[f"__splink__df_neighbours_filtered_{k}"]),
                    rp(by[f"__splink__df_representatives_{k}"])))
        k += 1
    return nb0, r0, its


# ----------------------------------------------------------------------------------------
# Coq terms
# ----------------------------------------------------------------------------------------
def _zz(a, b):
    return f"({coq_Z(a)}, {coq_Z(b)})"


def _row(r):
    return f"({coq_Z(r[0])}, {coq_Z(r[1])}, {coq_bool(r[2])})"


def coq_inputs(case):
    rk = rank_map(case)
    nodes = coq_list([coq_Z(rk[key_of(x)]) for x in case["nodes"]], "Z")
    edges = coq_list([f"({coq_Z(rk[key_of(l)])}, {coq_Z(rk[key_of(r)])}, {coq_opt(pfrac(k), coq_Q)})"
                      for l, r, k in case["edges"]], "(Z * Z * option Q)")
    thr = case["thr"]
    if thr is None:
        t = "None"
    elif thr[0] == "p":
        t = f"(Some (false, 0, {coq_Q(Fraction(thr[1], 1024))}))"
    elif thr[0] in ("pf", "wf"):
        t = f"(Some (false, 0, {coq_Q(thr_fraction(thr, case['backend']))}))"
    else:
        t = f"(Some (true, {coq_Z(int(thr[1]))}, 0%Q))"
    return nodes, edges, t


def coq_final_term(case, impl, full, iters=None):
    nodes, edges, t = coq_inputs(case)
    out = coq_list([_zz(a, b) for a, b in impl], "(Z * Z)")
    it = "None" if iters is None else f"(Some {int(iters)}%nat)"
    return f"(mkF ({nodes}, {edges}, {t}, {out}, {coq_bool(full)}, {it}))"


def coq_trace_term(case, trace):
    nodes, edges, t = coq_inputs(case)
    nb0, r0, its = trace
    its_s = coq_list([f"({coq_list([_row(r) for r in st], 'rrow')}, {coq_list([_zz(*x) for x in nb], '(Z * Z)')}, "
                      f"{coq_list([_row(r) for r in rp], 'rrow')})" for st, nb, rp in its],
                     "(list rrow * list (Z * Z) * list rrow)")
    return (f"(mkT ({nodes}, {edges}, {t}, ({coq_list([_zz(*x) for x in nb0], '(Z * Z)')}, "
            f"{coq_list([_row(r) for r in r0], 'rrow')}, {its_s})))")


# ----------------------------------------------------------------------------------------
# graph families on ranks 0..n-1 (rank = position of the id in the engine's order)
# ----------------------------------------------------------------------------------------
def bit_reversal(n):
    bits = max(1, (n - 1).bit_length())
    order = sorted(range(n), key=lambda i: int(format(i, f"0{bits}b")[::-1], 2))
    return order


def zigzag(n):
    out, lo, hi = [], 0, n - 1
    while lo <= hi:
        out.append(lo)
        if lo != hi:
            out.append(hi)
        lo, hi = lo + 1, hi - 1
    return out


def path_edges(order):
    return [(order[i], order[i + 1]) for i in range(len(order) - 1)]


def family(rng, name, n):
    """Returns edge list over ranks (pairs) for the named family."""
    if name == "path_sorted":
        return path_edges(list(range(n)))
    if name == "path_reversed_dir":
        return [(b, a) for a, b in path_edges(list(range(n)))]
    if name == "path_bitrev":
        return path_edges(bit_reversal(n))
    if name == "path_zigzag":
        return path_edges(zigzag(n))
    if name == "path_zigzag_min_last":
        # zig-zag, but the smallest id at the far end of the path
        z = zigzag(n)
        return path_edges(z[1:] + z[:1])
    if name == "path_random":
        p = list(range(n))
        rng.shuffle(p)
        return path_edges(p)
    if name == "star":
        c = rng.choice([0, n - 1, rng.randrange(n)])
        return [((c, v) if rng.random() < 0.5 else (v, c)) for v in range(n) if v != c]
    if name == "cliques_bridges":
        labels = list(range(n))
        rng.shuffle(labels)
        edges, groups, i = [], [], 0
        while i < n:
            s = rng.randint(2, 5)
            groups.append(labels[i:i + s])
            i += s
        for g in groups:
            edges += list(itertools.combinations(g, 2))
        for g1, g2 in zip(groups, groups[1:]):
            if rng.random() < 0.8:
                edges.append((rng.choice(g1), rng.choice(g2)))
        return edges
    if name == "forest_small":
        labels = list(range(n))
        rng.shuffle(labels)
        edges, i = [], 0
        while i < n:
            s = rng.randint(1, 4)
            g = labels[i:i + s]
            for j in range(1, len(g)):
                edges.append((g[rng.randrange(j)], g[j]))
            i += s
        return edges
    if name == "binary_tree":
        labels = list(range(n))
        rng.shuffle(labels)
        return [(labels[(i - 1) // 2], labels[i]) for i in range(1, n)]
    if name == "random_sparse":
        m = rng.randint(n // 2, 2 * n)
        return [(rng.randrange(n), rng.randrange(n)) for _ in range(m)]
    if name == "cycle":
        p = list(range(n))
        rng.shuffle(p)
        return path_edges(p) + [(p[-1], p[0])]
    raise ValueError(name)


FAMILIES = ["path_sorted", "path_reversed_dir", "path_bitrev", "path_zigzag", "path_zigzag_min_last",
            "path_random", "star", "cliques_bridges", "forest_small", "binary_tree", "random_sparse", "cycle"]


def make_ids(rng, n, idkind, link_type=None):
    """n distinct ids listed by rank (ids[i] has rank i in the engine's order)."""
    if idkind == "int":
        step = rng.choice([1, 1, 3, 7])
        base = rng.choice([0, 0, 1, 5, 100])
        return [base + i * step for i in range(n)]
    if idkind == "str":
        style = rng.choice(["digits", "alpha", "mixed"])
        vals = set()
        while len(vals) < n:
            if style == "digits":
                vals.add(str(rng.randrange(0, 20 * n + 50)))       # '10' < '9' in byte order
            elif style == "alpha":
                vals.add("".join(rng.choice("abAB") for _ in range(rng.randint(1, 4))) + str(rng.randrange(n)))
            else:
                vals.add(rng.choice(["x", "X", "_", "a-", "a_", "a"]) + str(rng.randrange(0, 3 * n + 9)))
        return sorted(vals)
    # composite: same unique_id in several datasets
    names = rng.choice([["ta", "tb"], ["a", "a_b", "b"], ["d1", "d10", "d2"], ["X", "Y"]])
    uid_str = rng.random() < 0.3
    vals = set()
    pool = max(2, (n + len(names) - 1) // len(names) + rng.randint(0, 2))
    tries = 0
    while len(vals) < n:
        u = rng.randrange(0, pool) if tries < 50 * n else rng.randrange(0, 10 * n)
        tries += 1
        vals.add((rng.choice(names), f"u{u}" if uid_str else u))
    ids = sorted(vals, key=lambda x: f"{x[0]}{SEP}{x[1]}")
    return [list(x) for x in ids]


PROBS = [256, 512, 768, 1024]
THRS = [None, ["p", 512], ["p", 768], ["p", 1024], ["p", 0], ["w", 0], ["w", 1], ["w", -1], ["w", 2], ["w", -3]]


def build_case(rng, fam, n, entry, backend, idkind, link_type=None, thr="rand", cut_rate=0.1, noise=True):
    pairs = family(rng, fam, n)
    ids = make_ids(rng, n, idkind, link_type)
    if thr == "rand":
        thr = rng.choice(THRS)
    edges = []
    for a, b in pairs:
        if link_type == "link_only" and ids[a][0] == ids[b][0]:
            continue
        k = rng.choice(PROBS) if rng.random() < cut_rate else rng.choice([768, 1024])
        edges.append([ids[a], ids[b], k])
    if noise and edges:
        extra = []
        for _ in range(rng.randint(0, max(1, len(edges) // 4))):
            l, r, k = rng.choice(edges)
            c = rng.random()
            if c < 0.4:
                extra.append([l, r, k])            # duplicate
            elif c < 0.8:
                extra.append([r, l, k])            # reversed
            elif link_type != "link_only":
                extra.append([l, l, rng.choice(PROBS)])  # self loop
        edges += extra
    nodes = list(ids)
    rng.shuffle(nodes)
    rng.shuffle(edges)
    case = {"entry": entry, "backend": backend, "idkind": idkind, "nodes": nodes, "edges": edges,
            "thr": thr, "family": fam}
    if entry == "linker":
        case["link_type"] = link_type
        if thr is None and rng.random() < 0.4:
            case["no_prob_col"] = True
    return case


DECIMALS = [i / 100 for i in range(10, 100)] + [1 / 3, 2 / 3, 0.6000000000000001, 0.1 + 0.2, 0.999, 0.05]


def build_nd_case(rng, fam, n, entry, backend, idkind, link_type=None):
    """Non-dyadic probabilities: the threshold (a decimal probability, or a float match weight through
    the implementation's conversion) is exactly equal to the probability of some bridging edges; other
    edges sit one ulp either side of it or on other decimals."""
    import math
    c = build_case(rng, fam, n, entry, backend, idkind, link_type, thr=None, cut_rate=1.0, noise=True)
    c.pop("no_prob_col", None)
    if rng.random() < 0.7:
        t = rng.choice([0.6, 0.8, 0.99, 0.4, 0.5, 0.7, 0.9, 0.3]) if rng.random() < 0.5 else rng.choice(DECIMALS)
        thr = ["pf", t]
    else:
        w = round(rng.uniform(-5, 10), rng.choice([1, 2, 3]))
        t = single_threshold_prob(w)
        thr = ["wf", w]
    pool = [t] * 4 + [math.nextafter(t, 0.0), math.nextafter(t, 1.0)] + [rng.choice(DECIMALS) for _ in range(3)] + [1024]
    for e in c["edges"]:
        e[2] = rng.choice(pool)
    c["thr"] = thr
    c["family"] = "nd_" + fam
    return c


def build_null_case(rng, fam, n, entry, backend, idkind, link_type=None):
    """Some edge rows carry a NULL match_probability (bridging ones included); thresholds emphasise 0:
    a NULL never passes a threshold, also not threshold 0, and passes when no threshold is given."""
    thr = rng.choice([["p", 0], ["p", 0], ["p", 0], None, ["p", 512], ["w", -3], ["p", 768]])
    c = build_case(rng, fam, n, entry, backend, idkind, link_type, thr=thr, cut_rate=0.3, noise=True)
    c.pop("no_prob_col", None)
    hit = False
    for e in c["edges"]:
        if rng.random() < 0.35:
            e[2] = None
            hit = True
    if c["edges"] and not hit:
        rng.choice(c["edges"])[2] = None
    c["family"] = "null_" + fam
    return c


def labelled_graphs(n):
    pairs = list(itertools.combinations(range(n), 2))
    for mask in range(1 << len(pairs)):
        yield [p for i, p in enumerate(pairs) if mask >> i & 1]


def exhaustive_case(rng, n, present, backend, entry="standalone", variant=None):
    """One labelled graph on n nodes (labels are the ids).  variant A: only present edges, no
    threshold; variant B: all pairs as rows, present at 768/1024, absent at 256 or 512/1024,
    threshold equal to the probability of the present edges."""
    variant = variant or rng.choice("AB")
    pres = set(present)
    edges = []
    if variant == "A":
        for a, b in present:
            edges.append([a, b, 1024] if rng.random() < 0.5 else [b, a, 1024])
        thr = None
    else:
        for a, b in itertools.combinations(range(n), 2):
            k = 768 if (a, b) in pres else rng.choice([256, 512])
            edges.append([a, b, k] if rng.random() < 0.5 else [b, a, k])
        thr = ["p", 768]
    nodes = list(range(n))
    rng.shuffle(nodes)
    rng.shuffle(edges)
    c = {"entry": entry, "backend": backend, "idkind": "int", "nodes": nodes, "edges": edges, "thr": thr,
         "family": f"exhaustive{n}"}
    if entry == "linker":
        c["link_type"] = "dedupe_only"
    return c


def union_case(rng, n, graphs, backend, entry="standalone"):
    """Disjoint union of labelled graphs on n nodes with order-preserving id offsets."""
    nodes, edges = [], []
    for g, present in enumerate(graphs):
        off = g * n
        nodes += [off + v for v in range(n)]
        pres = set(present)
        for a, b in itertools.combinations(range(n), 2):
            if (a, b) in pres:
                edges.append([off + a, off + b, 768] if rng.random() < 0.5 else [off + b, off + a, 768])
            elif rng.random() < 0.3:
                edges.append([off + a, off + b, 512])
    rng.shuffle(nodes)
    rng.shuffle(edges)
    c = {"entry": entry, "backend": backend, "idkind": "int", "nodes": nodes, "edges": edges, "thr": ["p", 768],
         "family": f"union{n}x{len(graphs)}"}
    if entry == "linker":
        c["link_type"] = "dedupe_only"
    return c


# ----------------------------------------------------------------------------------------
# search support
# ----------------------------------------------------------------------------------------
def property_holds(case):
    """Run the implementation and test the property oracle directly on its output."""
    try:
        rows, _ = run_impl(case)
    except Exception as e:  # noqa: BLE001
        return False, {"error": repr(e)[:500]}, None
    impl, why = canonical_output(case, rows)
    if impl is None:
        return False, {"rows": rows, "why": why}, None
    spec = oracle(case)
    bad = [(v, c, spec[v]) for v, c in impl if spec[v] != c]
    return not bad, {"rows": sorted(impl), "mismatch(rank,impl,spec)": bad[:10]}, spec


def shrink(case, budget=150):
    """Greedy shrinking of a case on which the implementation violates the oracle."""
    cur = dict(case)
    runs = 0

    def fails(c):
        nonlocal runs
        runs += 1
        ok, _, _ = property_holds(c)
        return not ok

    changed = True
    while changed and runs < budget:
        changed = False
        # drop edges
        i = 0
        while i < len(cur["edges"]) and runs < budget:
            c2 = dict(cur)
            c2["edges"] = cur["edges"][:i] + cur["edges"][i + 1:]
            if fails(c2):
                cur, changed = c2, True
            else:
                i += 1
        # drop nodes without edges
        used = {key_of(e[0]) for e in cur["edges"]} | {key_of(e[1]) for e in cur["edges"]}
        i = 0
        while i < len(cur["nodes"]) and runs < budget:
            if key_of(cur["nodes"][i]) in used or len(cur["nodes"]) <= 1:
                i += 1
                continue
            c2 = dict(cur)
            c2["nodes"] = cur["nodes"][:i] + cur["nodes"][i + 1:]
            if fails(c2):
                cur, changed = c2, True
            else:
                i += 1
    return cur


def features_of(case):
    return {"entry": case["entry"], "backend": case["backend"], "idkind": case["idkind"],
            "one_table_link_job": bool(case.get("one_table")),
            "null_probability_edges": any(e[2] is None for e in case["edges"]),
            "threshold_zero": case["thr"] is not None and case["thr"][0] in ("p", "pf") and float(case["thr"][1]) == 0,
            "threshold_kind": None if case["thr"] is None else case["thr"][0],
            "n_nodes": len(case["nodes"]), "n_edges": len(case["edges"])}
