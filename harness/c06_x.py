"""C06 correspondence: the same seeded inputs, settings and deterministic operation pipeline on DuckDB and
SQLite (Spark in the thorough tier); results canonicalised and compared inside Coq against the DuckDB
reference: numbers as exact rationals of the engines' floats (`all_close`), discrete rows (`zrows_eqb`),
cluster partitions (`same_partition`)."""
from __future__ import annotations

import json
import math
from fractions import Fraction

import pandas as pd

from harness import splink_util as su
from harness.common import Ctx, coq_list, coq_Q, coq_Z

HEADER = """From Coq Require Import String Bool ZArith QArith List.
From Splinkv Require Import Model.Backends.
Import ListNotations.
Definition tol : Q := 1 # 100000000.
Definition run_case (c : list (Q * Q) * (list (list Z) * list (list Z)) * (list Z * list Z)) : bool :=
  match c with (nums, (ra, rb), (la, lb)) =>
    (all_close tol nums && zrows_eqb ra rb && same_partition la lb)%bool
  end.
"""
TOL = Fraction(1, 10 ** 8)

FN = ["john", "jon", "mary", "maria", "james", "jame", "anna", "ana", "peter", "petr", "none", "nona", "martha", "marhta", "dixon", "dicksonx",
      "dwayne", "duane", "jo", "al"]
# whole-number quantities: SQLite types the column INTEGER, so a percentage level that divides two integers truncates there
QTY = [3, 9, 10, 100, 95, 90, 27, 30, 12, 11, 50, 40]
SN = ["smith", "smyth", "jones", "jonse", "brown", "browne", "taylor", "tailor", "none", "brain", "briean", "martha", "marhata", "ca", "abc",
      "badc", "acbd", "ng", "li"]
# metric-distinguishing twins: restricted (OSA) vs unrestricted Damerau-Levenshtein differ on them (3 vs 2, 4 vs 3), Levenshtein vs
# Damerau on the transpositions, Jaro vs Jaro-Winkler on the common prefixes - a wrong function binding on one backend becomes a
# gamma difference against the DuckDB reference
TWINS = {"brain": "briean", "martha": "marhata", "ca": "abc", "badc": "acbd", "jones": "jonse", "smith": "smtih", "marhta": "martha",
         "dixon": "dicksonx", "dwayne": "duane"}
CITY = ["london", "leeds", "york", "bath", "hull"]
DOB = ["1990-01-01", "1990-01-02", "1985-05-05", "1971-12-30", "2001-07-07", "1990-02-01", "1994-06-30", "1990-13-01"]
AMT = [10.0, 10.5, 20.0, 100.0, 95.0, 12.25, 0.0, -5.0]
# zero-padded / non-numeric codes kept in a TEXT column: a cast_to_string() that loses TEXT affinity on one backend (SQLite
# CAST(x AS <name with NUMERIC affinity>)) turns '00123' into 123 and 'AB12' into 0 and shows up as a gamma difference
CODE = ["00123", "123", "0123", "AB12", "ab12", "007", "7", "1e3", "1000", "12.0", "12", "0x10"]
POSTCODE = ["AB1 2CD", "AB1 2CE", "AB1 3CD", "AB12 9ZZ", "AC1 2CD", "B1 1AA", "zz"]
EMAIL = ["john@a.com", "john@b.com", "jon@a.com", "mary@a.com", "nodomain"]
TOKENS = ["x1", "x2", "x3", "y1", "y2", "z9"]
COORD = [(51.5074, -0.1278), (51.5, -0.12), (53.8, -1.55), (53.96, -1.08), (48.8566, 2.3522), (0.0, 0.0)]


def gen_pipeline(rng, idx, backends):
    import splink.comparison_level_library as cll
    link_type = rng.choice(["dedupe_only", "dedupe_only", "link_only", "link_and_dedupe"])
    ntab = 1 if link_type == "dedupe_only" else 2
    use_fs = rng.random() < 0.35           # ForenameSurnameComparison: null level only when both names are NULL
    null_p = rng.choice([0.0, 0.1, 0.2])
    tables = []
    uid = 0
    base = []
    for _ in range(rng.randint(12, 22)):
        c = rng.choice(COORD)
        base.append({"first_name": rng.choice(FN), "surname": rng.choice(SN), "city": rng.choice(CITY), "dob": rng.choice(DOB),
                     "amount": rng.choice(AMT), "lat": c[0], "lng": c[1], "code": rng.choice(CODE), "qty": rng.choice(QTY), "postcode": rng.choice(POSTCODE), "email": rng.choice(EMAIL),
                     "arr": sorted(rng.sample(TOKENS, rng.randint(1, 3)))})
    for t in range(ntab):
        rows = []
        for _ in range(rng.randint(18, 30)):
            r = dict(rng.choice(base))
            for col in ("first_name", "surname"):
                if r[col] in TWINS and rng.random() < 0.4:
                    r[col] = TWINS[r[col]]
            if rng.random() < 0.3:
                r["qty"] = rng.choice(QTY)
            for col, pool in (("first_name", FN), ("surname", SN), ("city", CITY), ("dob", DOB), ("amount", AMT), ("code", CODE), ("code", CODE)):
                x = rng.random()
                if x < 0.15:
                    r[col] = rng.choice(pool)
                elif x < 0.15 + null_p:
                    r[col] = None
            uid += 1
            r["unique_id"] = uid if rng.random() < 0.9 or t == 0 else rng.randint(1, uid)  # ids may repeat across tables
            rows.append(r)
        seen = set()
        rows = [r for r in rows if not (r["unique_id"] in seen or seen.add(r["unique_id"]))]
        tables.append(rows)
    # EMPTY strings (not NULL): exactly one record with an empty surname and one with an empty first name per pipeline (so no pair
    # has two empty values - Jaro of two empty strings is a convention on which DuckDB and rapidfuzz differ), next to short names
    # within the thresholds ('' vs 'ng' / 'li' / 'jo' / 'al' is Levenshtein 2)
    allrows = [r for t in tables for r in t]
    for col, short in (("surname", ["ng", "li"]), ("first_name", ["jo", "al"])):
        k = rng.randrange(len(allrows))
        allrows[k][col] = ""
        for _ in range(3):
            o = allrows[rng.randrange(len(allrows))]
            if o is not allrows[k] and o[col] != "":
                o[col] = rng.choice(short)
                for share in ("city", "dob"):
                    o[share] = allrows[k][share]
    specs = []
    pool = ["jw_first", "lev_sur", "exact_city_tf", "amount", "dl_sur", "jaro_first", "dist_fn", "name_cmp", "exact_dob", "km", "lev_dob", "city_custom",
            "custom_sql", "code_cast", "sur_transformed", "qty_pct"]
    rng.shuffle(pool)
    col_of = {"jw_first": "first_name", "jaro_first": "first_name", "name_cmp": "first_name", "lev_sur": "surname", "dl_sur": "surname",
              "dist_fn": "surname", "exact_dob": "dob", "lev_dob": "dob", "exact_city_tf": "city", "city_custom": "city", "code_cast": "code", "sur_transformed": "surname", "qty_pct": "qty"}
    chosen, used = [], set()
    for c in pool:                      # one comparison per input column (output column names must be unique)
        if col_of.get(c, c) in used:
            continue
        used.add(col_of.get(c, c))
        chosen.append(c)
    chosen = chosen[: rng.randint(2, 4)]
    if use_fs and "custom_sql" not in chosen:
        chosen = ["fs"] + [c for c in chosen if c not in ("jw_first", "lev_sur", "dl_sur", "jaro_first", "dist_fn", "name_cmp")][:2]
    if "sqlite" in backends and "km" in chosen and not _sqlite_has_trig():
        chosen.remove("km")
    thr_jw = rng.choice([[0.9, 0.7], [0.92, 0.88], 0.8])
    thr_lev = rng.choice([[1, 2], 2, [1, 3]])
    if "code_cast" not in chosen and rng.random() < 0.35:
        chosen = chosen[:3] + ["code_cast"]
    if "qty_pct" not in chosen and rng.random() < 0.35:
        chosen = chosen[:3] + ["qty_pct"]
    if "custom_sql" in chosen:       # its levels read first_name, surname and amount
        chosen = ["custom_sql"] + [c for c in chosen if col_of.get(c, c) not in ("first_name", "surname", "amount", "custom_sql")]
        if len(chosen) < 2:
            chosen.append("exact_city_tf")
    specs = {"comparisons": chosen, "thr_jw": thr_jw, "thr_lev": thr_lev, "tf_weight": rng.choice([None, 0.5]),
             "blocking": rng.sample(["city", "surname", "dob", "first_name", "expr", "custom_rule"], rng.randint(1, 3)),
             "prior_rules": rng.choice([[("first_name", "surname")], [("surname", "dob")], [("first_name", "surname"), ("dob", "city")]]),
             "recall": rng.choice([0.6, 0.8, 1.0]),
             "em": rng.sample(["city", "dob", "surname"], rng.randint(1, 2)),
             "cluster_thr": rng.choice([0.5, 0.9, 0.2]), "link_type": link_type}
    return {"idx": idx, "tables": tables, "spec": specs}


_TRIG = None


def _sqlite_has_trig():
    global _TRIG
    if _TRIG is None:
        import sqlite3
        try:
            sqlite3.connect(":memory:").execute("select acos(0.5), radians(1), sin(1)")
            _TRIG = True
        except Exception:
            _TRIG = False
    return _TRIG


def build_settings(spec):
    import splink.comparison_level_library as cll
    import splink.comparison_library as cl
    from splink import SettingsCreator, block_on
    comps = []
    for c in spec["comparisons"]:
        if c == "jw_first":
            comps.append(cl.JaroWinklerAtThresholds("first_name", spec["thr_jw"]))
        elif c == "jaro_first":
            comps.append(cl.JaroAtThresholds("first_name", spec["thr_jw"]))
        elif c == "lev_sur":
            comps.append(cl.LevenshteinAtThresholds("surname", spec["thr_lev"]))
        elif c == "dl_sur":
            comps.append(cl.DamerauLevenshteinAtThresholds("surname", spec["thr_lev"]))
        elif c == "dist_fn":
            comps.append(cl.DistanceFunctionAtThresholds("surname", "levenshtein", [1, 3], False))
        elif c == "name_cmp":
            comps.append(cl.NameComparison("first_name"))
        elif c == "fs":
            comps.append(cl.ForenameSurnameComparison("first_name", "surname"))
        elif c == "exact_city_tf":
            e = cl.ExactMatch("city").configure(term_frequency_adjustments=True)
            comps.append(e)
        elif c == "exact_dob":
            comps.append(cl.ExactMatch("dob"))
        elif c == "lev_dob":
            comps.append(cl.LevenshteinAtThresholds("dob", 1).configure(term_frequency_adjustments=True))
        elif c == "amount":
            comps.append(cl.CustomComparison(output_column_name="amount", comparison_levels=[
                cll.NullLevel("amount"), cll.ExactMatchLevel("amount"), cll.AbsoluteDifferenceLevel("amount", 1),
                cll.PercentageDifferenceLevel("amount", 0.25), cll.ElseLevel()]))
        elif c == "km":
            comps.append(cl.DistanceInKMAtThresholds("lat", "lng", [1, 50]))
        elif c == "qty_pct":             # percentage levels on an INTEGER-typed column
            comps.append(cl.CustomComparison(output_column_name="qty", comparison_levels=[
                cll.NullLevel("qty"), cll.ExactMatchLevel("qty"), cll.PercentageDifferenceLevel("qty", 0.1),
                cll.PercentageDifferenceLevel("qty", 0.25), cll.AbsoluteDifferenceLevel("qty", 20), cll.ElseLevel()]))
        elif c == "code_cast":           # comparison creators built from transformed ColumnExpressions
            from splink.internals.column_expression import ColumnExpression
            comps.append(cl.LevenshteinAtThresholds(ColumnExpression("code").cast_to_string(), 1))
        elif c == "sur_transformed":
            from splink.internals.column_expression import ColumnExpression
            comps.append(cl.JaroWinklerAtThresholds(ColumnExpression("surname").lower().substr(1, 5).nullif("none"), [0.9, 0.7]))
        elif c == "custom_sql":
            # levels written in DuckDB SQL with dialect-sensitive constructs (NULL-skipping concat, ^ as power, // integer division,
            # float /), declared through base_dialect_str (creator and dict form); every backend must give DuckDB's meaning
            comps.append(cl.CustomComparison(output_column_name="custom_sql", comparison_levels=[
                cll.CustomLevel("first_name_l is null and surname_l is null or first_name_r is null and surname_r is null",
                                base_dialect_str="duckdb").configure(is_null_level=True),
                cll.CustomLevel("concat(first_name_l, surname_l) = concat(first_name_r, surname_r)", base_dialect_str="duckdb"),
                {"sql_condition": "concat(surname_l, first_name_l) = concat(first_name_r, surname_r)", "base_dialect_str": "duckdb"},
                # (guarded: POWER(NULL, 2) raises inside SQLite's python UDF - reported separately by c06.custom_sql_stage)
                cll.CustomLevel("case when amount_l is null or amount_r is null then false else coalesce(amount_l, 0) ^ 2 = coalesce(amount_r, 0) ^ 2 end",
                                base_dialect_str="duckdb"),
                cll.CustomLevel("cast(amount_l as integer) // 10 = cast(amount_r as integer) // 10 and amount_l / 4 < amount_r / 4 + 1",
                                base_dialect_str="duckdb"),
                cll.ElseLevel()]))
        elif c == "city_custom":        # LiteralMatch + And/Not compositions inside a custom comparison
            comps.append(cl.CustomComparison(output_column_name="city", comparison_levels=[
                cll.NullLevel("city"), cll.And(cll.ExactMatchLevel("city"), cll.LiteralMatchLevel("city", "london", "string", "both")),
                cll.ExactMatchLevel("city"),
                cll.And(cll.Not(cll.ExactMatchLevel("city")), cll.LiteralMatchLevel("city", "leeds", "string", "left")), cll.ElseLevel()]))
        # ---- features only DuckDB and Spark accept (thorough tier, c06_spark) ----
        elif c == "arr_intersect":
            comps.append(cl.ArrayIntersectAtSizes("arr", [2, 1]))
        elif c == "date_diff":
            comps.append(cl.AbsoluteDateDifferenceAtThresholds("dob", input_is_string=True, metrics=["month", "year"], thresholds=[1, 5]))
        elif c == "dob_cmp":
            comps.append(cl.DateOfBirthComparison("dob", input_is_string=True))
        elif c == "postcode":
            comps.append(cl.PostcodeComparison("postcode"))
        elif c == "email":
            comps.append(cl.EmailComparison("email"))
    brs = []
    from splink.internals.blocking_rule_library import CustomRule
    for b in spec["blocking"]:
        if b == "expr":
            brs.append("l.surname = r.surname and substr(l.first_name, 1, 1) = substr(r.first_name, 1, 1)")
        elif b == "custom_rule":
            brs.append(CustomRule("concat(l.first_name, l.city) = concat(r.first_name, r.city)", sql_dialect="duckdb"))
        else:
            brs.append(block_on(b))
    return SettingsCreator(link_type=spec["link_type"], comparisons=comps, blocking_rules_to_generate_predictions=brs,
                           retain_intermediate_calculation_columns=True, retain_matching_columns=True,
                           max_iterations=6, em_convergence=0.0001)


def shared_settings(case):
    """one SettingsCreator per pipeline, used for the DuckDB reference first and then for every other backend (creator reuse across
    dialects).  Not for string date-difference levels: AbsoluteTime/DateDifferenceLevel.create_sql re-wraps its column expression on
    every call (DESIGN 7.10, C17's subject), so those get fresh creators."""
    if any(c in ("date_diff", "dob_cmp") for c in case["spec"]["comparisons"]):
        return None
    return build_settings(case["spec"])


def frames(case):
    out = []
    for rows in case["tables"]:
        cols = ["unique_id", "first_name", "surname", "city", "dob", "amount", "lat", "lng", "code", "qty"]
        used = set(case["spec"]["comparisons"])
        if "postcode" in used:
            cols.append("postcode")
        if "email" in used:
            cols.append("email")
        if "arr_intersect" in used:
            cols.append("arr")
        d = pd.DataFrame(rows, columns=cols)
        for c in ("first_name", "surname", "city", "dob", "postcode", "email", "code"):
            if c in d:
                d[c] = d[c].astype("string")
        d["amount"] = d["amount"].astype("float64")
        d["qty"] = d["qty"].astype("int64")
        out.append(d)
    return out


def run_backend(case, backend, api=None, settings=None):
    """returns a canonical result dict; raises on engine errors.  `settings`: a SettingsCreator (and so comparison / level /
    blocking-rule creator objects) that was ALREADY used for another dialect in this process - creators must not remember
    anything dialect-specific between uses"""
    from splink import block_on
    from splink.blocking_analysis import count_comparisons_from_blocking_rule, cumulative_comparisons_to_be_scored_from_blocking_rules_data
    spec = case["spec"]
    dfs = frames(case)
    aliases = ["ta", "tb"][: len(dfs)]
    lk = su.linker(dfs, settings if settings is not None else build_settings(spec), backend, aliases=aliases if len(dfs) > 1 else None, api=api)
    res = {}
    lk.training.estimate_probability_two_random_records_match([block_on(*r) for r in spec["prior_rules"]], recall=spec["recall"])
    res["prior_after_estimate"] = lk.misc.save_model_to_json()["probability_two_random_records_match"]
    lk.training.estimate_u_using_random_sampling(max_pairs=1e8)
    res["model_after_u"] = model_numbers(lk.misc.save_model_to_json())
    em_ok = []
    for col in spec["em"]:
        try:
            lk.training.estimate_parameters_using_expectation_maximisation(block_on(col))
            em_ok.append(True)
        except Exception as e:          # same exception class expected on every backend
            em_ok.append(type(e).__name__)
    res["em_sessions"] = em_ok
    res["model_final"] = model_numbers(lk.misc.save_model_to_json())
    pred = lk.inference.predict()
    recs = pred.as_record_dict()
    res["predict"] = recs
    cl = lk.clustering.cluster_pairwise_predictions_at_threshold(pred, threshold_match_probability=spec["cluster_thr"])
    res["clusters"] = cl.as_record_dict()
    # blocking analysis
    ba = []
    db_api = lk._db_api
    for br in build_settings(spec).blocking_rules_to_generate_predictions[:2]:
        try:
            c = count_comparisons_from_blocking_rule(table_or_tables=dfs if len(dfs) > 1 else dfs[0], blocking_rule=br,
                                                     link_type=spec["link_type"], db_api=db_api, unique_id_column_name="unique_id")
            ba.append(int(c["number_of_comparisons_to_be_scored_post_filter_conditions"]))
        except Exception as e:
            ba.append(type(e).__name__)
    try:
        cum = cumulative_comparisons_to_be_scored_from_blocking_rules_data(
            table_or_tables=dfs if len(dfs) > 1 else dfs[0], blocking_rules=build_settings(spec).blocking_rules_to_generate_predictions,
            link_type=spec["link_type"], db_api=db_api, unique_id_column_name="unique_id")
        ba += [int(x) for x in cum["row_count"].tolist()] + [int(x) for x in cum["cumulative_rows"].tolist()]
    except Exception as e:
        ba.append(type(e).__name__)
    res["blocking_analysis"] = ba
    return res


def model_numbers(m):
    out = {"prior": m["probability_two_random_records_match"], "levels": []}
    for c in m["comparisons"]:
        for i, l in enumerate(c["comparison_levels"]):
            out["levels"].append((c["output_column_name"], i, l.get("m_probability"), l.get("u_probability")))
    return out


def pair_key(r):
    return (r.get("source_dataset_l") or "", r["unique_id_l"], r.get("source_dataset_r") or "", r["unique_id_r"])


def canon(res):
    """split a backend result into discrete rows, numbers (name -> float) and cluster labels"""
    recs = sorted(res["predict"], key=pair_key)
    gcols = sorted(c for c in (recs[0] if recs else {}) if c.startswith("gamma_"))
    ncols = sorted(c for c in (recs[0] if recs else {}) if c in ("match_weight", "match_probability") or c.startswith("bf_") or c.startswith("tf_"))
    disc, nums = [], {}
    ds = {"": 0, "ta": 1, "tb": 2}
    for r in recs:
        k = pair_key(r)
        disc.append([ds.get(k[0], 9), int(k[1]), ds.get(k[2], 9), int(k[3]), int(r.get("match_key", 0) or 0)] + [int(r[g]) for g in gcols])
        for c in ncols:
            nums[("predict", k, c)] = r[c]
    nums[("prior_after_estimate",)] = res["prior_after_estimate"]
    for tag in ("model_after_u", "model_final"):
        nums[(tag, "prior")] = res[tag]["prior"]
        for (col, cond, m, u) in res[tag]["levels"]:
            nums[(tag, col, cond, "m")] = m
            nums[(tag, col, cond, "u")] = u
    labels = {}
    for r in res["clusters"]:
        labels[(r.get("source_dataset") or "", int(r["unique_id"]))] = str(r["cluster_id"])
    other = {"em_sessions": res["em_sessions"], "blocking_analysis": res["blocking_analysis"], "gamma_cols": gcols}
    return disc, nums, labels, other


def underflow_range(res, eps=1e-30):
    """some trained probability of the reference model is positive but below eps (or exactly 0)"""
    for tag in ("model_after_u", "model_final"):
        for (_c, _i, m, u) in res[tag]["levels"]:
            for v in (m, u):
                if v is not None and v < eps:
                    return True
    return False


def finite(x):
    return isinstance(x, (int, float)) and not isinstance(x, bool) and math.isfinite(x)


def fold(x):
    """NaN (pandas/Spark rendering of NULL doubles) -> None"""
    return None if isinstance(x, float) and math.isnan(x) else x


def compare(ctx: Ctx, case, ref, oth, backend):
    """returns (coq case term, python-side list of differences)"""
    d0, n0, l0, o0 = canon(ref)
    d1, n1, l1, o1 = canon(oth)
    diffs = []
    if o0 != o1:
        diffs.append(("other", o0, o1))
    if set(n0) != set(n1):
        diffs.append(("number_keys", sorted(map(str, set(n0) ^ set(n1)))[:5]))
    pairs = []
    for k in n0:
        if k not in n1:
            continue
        a, b = fold(n0[k]), fold(n1[k])
        if finite(a) and finite(b):
            fa, fb = Fraction(a), Fraction(b)
            pairs.append((fa, fb))
            if abs(fb - fa) > TOL * max(1, abs(fa)):
                diffs.append(("number", k, a, b))
        elif not (a is None and b is None) and str(a) != str(b):
            diffs.append(("nonfinite", k, a, b))
    if d0 != d1:
        s0, s1 = {tuple(r[:4]): r for r in d0}, {tuple(r[:4]): r for r in d1}
        for k in sorted(set(s0) | set(s1)):
            if s0.get(k) != s1.get(k):
                diffs.append(("row", k, s0.get(k), s1.get(k)))
                if len(diffs) > 6:
                    break
    nodes = sorted(set(l0) | set(l1))
    if set(l0) != set(l1):
        diffs.append(("cluster_nodes", sorted(map(str, set(l0) ^ set(l1)))[:5]))
    ids0, ids1 = {}, {}
    la = [ids0.setdefault(l0.get(n, "?"), len(ids0)) for n in nodes]
    lb = [ids1.setdefault(l1.get(n, "?"), len(ids1)) for n in nodes]
    part0 = {}
    for n, a, b in zip(nodes, la, lb):
        part0.setdefault(a, set()).add(b)
    if any(len(v) > 1 for v in part0.values()) or len(set(la)) != len(set(lb)):
        diffs.append(("partition", [n for n, a, b in zip(nodes, la, lb)][:5]))
    term = (f"({coq_list([f'({coq_Q(a)}, {coq_Q(b)})' for a, b in pairs], '(Q * Q)%type')}, "
            f"({coq_list([coq_list([coq_Z(x) for x in r], 'Z') for r in d0], '(list Z)')}, "
            f"{coq_list([coq_list([coq_Z(x) for x in r], 'Z') for r in d1], '(list Z)')}), "
            f"({coq_list([coq_Z(x) for x in la], 'Z')}, {coq_list([coq_Z(x) for x in lb], 'Z')}))")
    stats = {"pairs": len(d0), "numbers": len(pairs), "nodes": len(nodes), "clusters": len(set(la)),
             "gamma_nonzero": sum(1 for r in d0 for g in r[5:] if g > 0)}
    return term, diffs, stats


def records_of(case, key):
    ds = {"": 0, "ta": 0, "tb": 1}
    out = []
    for (sd, uid) in ((key[0], key[1]), (key[2], key[3])):
        t = case["tables"][{0: 0, 1: 0, 2: 1}.get(sd, 0) if isinstance(sd, int) else ds.get(sd, 0)]
        out.append(next((r for r in t if r["unique_id"] == uid), None))
    return out


def correspondence(ctx: Ctx, backends):
    n = 22 if ctx.quick else 60
    if ctx.replay:
        rp = json.load(open(ctx.replay))
        cases = [rp["case"]] if "case" in rp and "tables" in rp["case"] else []
    else:
        cases = [gen_pipeline(ctx.rng, i, backends) for i in range(n)]
    terms, metas = [], []
    for case in cases:
        shared = shared_settings(case)
        try:
            ref = run_backend(case, "duckdb", settings=shared)
        except Exception as e:
            ctx.hist("pipeline_reference_error", type(e).__name__)
            ctx.log(f"pipeline {case['idx']} fails on the DuckDB reference: {type(e).__name__}: {str(e)[:200]}")
            # the same pipeline must fail on the other backends too (same exception class is not required)
            for b in backends[1:]:
                try:
                    oth = run_backend(case, b, settings=shared)
                    if "logarithm of zero" in str(e) and (underflow_range(oth) or any(x is not True for x in oth["em_sessions"])):
                        # same Appendix A hazard as below: which statement first meets the exact 0 produced by underflow is engine noise
                        ctx.hist("skipped_underflow_degenerate_em", b)
                        continue
                    ctx.violation(f"pipeline fails on duckdb ({type(e).__name__}) but succeeds on {b}",
                                  {"case": case, "implementation": f"{b}: success", "specification": f"duckdb: {e!r}"[:300]},
                                  {"dialect": b, "asymmetric_failure": True})
                except Exception:
                    pass
            continue
        for b in backends[1:]:
            try:
                oth = run_backend(case, b, settings=shared)
            except Exception as e:
                ctx.violation(f"pipeline succeeds on duckdb but raises on {b}: {type(e).__name__}: {str(e)[:200]}",
                              {"case": case, "implementation": f"{b}: {e!r}"[:400], "specification": "duckdb: success"},
                              {"dialect": b, "asymmetric_failure": True, "comparisons": sorted(case["spec"]["comparisons"])})
                continue
            if ref["em_sessions"] != oth["em_sessions"] and underflow_range(ref):
                # Appendix A hazard: EM on a tiny table drives an m probability into the denormal range; whether a product of
                # Bayes factors underflows to exactly 0 (then log2(0) raises) is engine float noise, not a linkage difference
                ctx.hist("skipped_underflow_degenerate_em", b)
                continue
            term, diffs, stats = compare(ctx, case, ref, oth, b)
            nontrivial = stats["pairs"] >= 10 and stats["gamma_nonzero"] >= 5 and stats["clusters"] < stats["nodes"]
            ctx.count_case(("pipe", b, json.dumps(case, sort_keys=True, default=str)), nontrivial,
                           {"backend": b, "spec": case["spec"], "rows": [len(t) for t in case["tables"]], **stats})
            ctx.hist("link_type", case["spec"]["link_type"])
            for c in case["spec"]["comparisons"]:
                ctx.hist("comparison_in_pipeline", c)
            ctx.hist("scored_pairs", stats["pairs"] // 100 * 100)
            ctx.hist("em_sessions_ok", str(ref["em_sessions"]))
            terms.append(term)
            metas.append((case, b, diffs, stats))
            ctx.cov["numbers_compared"] = ctx.cov.get("numbers_compared", 0) + stats["numbers"]
            ctx.cov["pairs_compared"] = ctx.cov.get("pairs_compared", 0) + stats["pairs"]
    report(ctx, "C06_x", terms, metas)


def report(ctx: Ctx, name, terms, metas):
    bad, errs = ctx.eval_cases(name, HEADER, terms, "run_case", shard=2, timeout=900)
    ctx.obligation(f"X pipelines evaluated in Coq ({name})", not errs, "; ".join(errs)[:1500])
    for k, (case, b, diffs, stats) in enumerate(metas):
        coq_bad = k in bad
        if bool(diffs) != coq_bad:
            ctx.violation("python-side diff and Coq-side check disagree (harness defect)",
                          {"broken": "C06_x run_case vs python diff", "diffs": str(diffs)[:500], "coq_bad": coq_bad}, found_input=False)
        if not coq_bad and not diffs:
            continue
        order = {"row": 0, "partition": 1, "cluster_nodes": 1, "other": 2, "number_keys": 3, "nonfinite": 4, "number": 5}
        diffs = sorted(diffs, key=lambda x: order.get(x[0], 9))
        dfirst = diffs[0] if diffs else ("coq_only",)
        feats = {"dialect": b, "kind": dfirst[0], "comparisons": sorted(case["spec"]["comparisons"])}
        rep = {"case": case, "implementation": {b: str(dfirst)[:800]}, "specification": "equal to the DuckDB reference (numbers within 1e-8 relative)",
               "all_differences": [str(d)[:300] for d in diffs[:8]]}
        if dfirst[0] == "row":
            rep["records"] = records_of(case, dfirst[1])
        ctx.violation(f"pipeline {case['idx']} differs between duckdb and {b}: {str(dfirst)[:200]}", rep, feats)
    ctx.obligation(f"X: every backend equals the DuckDB reference on every pipeline ({name})", not bad and not errs)
