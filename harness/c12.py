"""C12  Single-best-link clusters respect duplicate-free datasets.

 P  theorems in Properties/C12.v about the statement-by-statement Gallina model of the SQL loop
    in splink/internals/one_to_one_clustering.py; the two un-tie-broken row_number() windows
    are arbitrary choosers, so the theorems cover every engine/thread tie-break.
 T  the ORDER BY of the two row_number() windows is read (sqlglot) from the SQL the real code emits
    on every run; only the two modelled rank orders are accepted (fail closed), and the one found
    selects which deterministic model X compares against.
 X  the real linker.clustering.cluster_using_single_best_links on DuckDB and SQLite with every
    per-iteration representatives table captured (DatabaseAPI wrapped from outside the repo)
    vs the model evaluated inside Coq (harness/c12_x.py).
"""
from __future__ import annotations

from harness.common import Ctx, REPO, git_blob


def run(ctx: Ctx):
    ctx.cov["rule"] = ("seeded node/edge tables: 2-4 source datasets (1-4 records each, integer ids incl. '10' < '9' string order, "
                       "ids shared across datasets), random duplicate-free subset (plus one graph per dataset count run with EVERY "
                       "non-empty subset), thresholds k/1024, both edge orientations, shuffled rows, single concatenated input or "
                       "one table per dataset; half the runs tie-free (distinct k/1024 probabilities), half with tie groups <= 3 "
                       "(+ occasional duplicated edge row). Non-trivial: >= 3 iterations, some cluster with >= 2 records and a "
                       "record of a duplicate-free dataset. Distinct by the whole case. A quarter of the cases pass the threshold as a match "
                       "weight (integer / fractional; model threshold = exact value of the implementation's own conversion, often an edge "
                       "exactly on it). Plus histories of 2-3 clusterings on ONE linker with the predictions re-registered under the same "
                       "name (mostly same threshold and duplicate-free datasets, outputs kept or dropped), every call checked.")
    ctx.trusted += [
        "harness T: sqlglot parse of the emitted __splink__df_ranked_N SQL (window ORDER BY keys compared syntactically with the two modelled shapes)",
        "harness X: composite ids are replaced by their rank in binary string order (what min() over the id strings uses on DuckDB/SQLite)",
        "modelled not verified: SQL engines' join / group by / row_number semantics (rank 1 = some row of maximal probability in its partition)",
        "the wrapper SQL of linker_components/clustering.py (composite ids, threshold filter, final left join) is covered by X only",
    ]
    ok = ctx.proof_stage("Properties/C12.v")
    if not ok:
        ctx.violation("theorems of Properties/C12.v no longer check", {"broken": "Properties/C12.v"}, found_input=False)
    ctx.cov["sources"] = {p: git_blob(REPO / p) for p in
                          ["splink/internals/one_to_one_clustering.py", "splink/internals/linker_components/clustering.py"]}
    from harness import c12_x
    if ctx.replay:
        c12_x.replay(ctx)
        return
    c12_x.correspondence(ctx)
