"""C02, tie T2: the arithmetic of splink/internals/misc.py is regenerated into coq/gen/C02_misc_gen.v
(translators/c02_misc.py) and the lemmas below are re-proved on the generated text, one named
obligation each.  A change of misc.py that keeps the lemmas provable is harmless for them; one that
breaks a lemma (e.g. `if threshold_match_weight:` instead of `is not None`) breaks that obligation."""
from __future__ import annotations

from concurrent.futures import ThreadPoolExecutor

from harness.common import Ctx, REPO, git_blob
from translators import c02_misc as M

LEMMA_HEADER = """From Coq Require Import List Bool ZArith QArith Lqa.
From Splinkv Require Import Model.Scoring.
From SplinkGen Require Import C02_misc_gen.
Import ListNotations.
Local Open Scope Q_scope.
Section L.
  Variable W : Type.
  Variable log2x : xq -> W.
  Variable pow2 : W -> Q.
  Variable wzero : W -> bool.
  Notation thr_w := (threshold_args_to_match_weight W log2x pow2 wzero).
  Notation thr_p := (threshold_args_to_match_prob W log2x pow2 wzero).
  Notation prob_to_bayes_factor := (prob_to_bayes_factor W log2x pow2 wzero).
  Notation bayes_factor_to_prob := (bayes_factor_to_prob W log2x pow2 wzero).
  Notation interpolate := (interpolate W log2x pow2 wzero).
  Lemma qeqb_false a b : ~ a == b -> Qeq_bool a b = false.
  Proof. intros H. destruct (Qeq_bool a b) eqn:E; auto. apply Qeq_bool_iff in E. tauto. Qed.
  Lemma qeqb_true a b : a == b -> Qeq_bool a b = true.
  Proof. apply Qeq_bool_iff. Qed.
"""

# name -> (what it says, statement + proof)
LEMMAS = {
    "misc_prior_odds_is_model": (
        "prob_to_bayes_factor is the prior_odds of Model/Scoring.v (p/(1-p), inf at p = 1)",
        """  Lemma misc_prior_odds_is_model : forall p, xq_eq (prob_to_bayes_factor p) (prior_odds p).
  Proof.
    intros p. unfold C02_misc_gen.prob_to_bayes_factor, prior_odds. change (inject_Z 1) with 1.
    destruct (Qeq_bool p 1); cbn; auto. reflexivity.
  Qed."""),
    "misc_prob_bf_inverse": (
        "bayes_factor_to_prob inverts prob_to_bayes_factor on (0,1)",
        """  Lemma misc_prob_bf_inverse : forall p, 0 < p -> p < 1 ->
      exists b, prob_to_bayes_factor p = Fin b /\\ 0 < b /\\ bayes_factor_to_prob b == p.
  Proof.
    intros p P0 P1. unfold C02_misc_gen.prob_to_bayes_factor, C02_misc_gen.bayes_factor_to_prob. change (inject_Z 1) with 1.
    rewrite qeqb_false by lra. cbn. eexists; split; [reflexivity|]. split.
    - apply Qlt_shift_div_l; lra.
    - field. split; [lra|]. intros H. assert (E : 1 - p + p == 1) by ring. lra.
  Qed."""),
    "misc_bf_prob_inverse": (
        "prob_to_bayes_factor inverts bayes_factor_to_prob on [0, inf)",
        """  Lemma misc_bf_prob_inverse : forall b, 0 <= b ->
      exists x, prob_to_bayes_factor (bayes_factor_to_prob b) = Fin x /\\ x == b.
  Proof.
    intros b B0. unfold C02_misc_gen.prob_to_bayes_factor, C02_misc_gen.bayes_factor_to_prob. change (inject_Z 1) with 1.
    assert (N : ~ b / (1 + b) == 1).
    { intros H. assert (E : b / (1 + b) * (1 + b) == b) by (field; lra). rewrite H in E. lra. }
    rewrite (qeqb_false _ _ N). cbn. eexists; split; [reflexivity|]. field. split; [lra|].
    intros H. assert (E : 1 + b - b == 1) by ring. lra.
  Qed."""),
    "misc_weight_is_log2_of_bf": (
        "prob_to_match_weight = log2 . prob_to_bayes_factor; match_weight_to_bayes_factor = 2^w",
        """  Lemma misc_weight_is_log2_of_bf :
    (forall p, prob_to_match_weight W log2x pow2 wzero p = log2x (prob_to_bayes_factor p)) /\\
    (forall w, match_weight_to_bayes_factor W log2x pow2 wzero w = pow2 w).
  Proof. split; reflexivity. Qed."""),
    "misc_threshold_probability_zero_keeps_everything": (
        "threshold_match_probability = 0 means no filter",
        """  Lemma misc_threshold_probability_zero_keeps_everything :
    forall p, p == 0 -> thr_w (Some p) None = Ok None.
  Proof.
    intros p H. unfold threshold_args_to_match_weight, prob_to_match_weight. cbn. change (inject_Z 0) with 0.
    rewrite (qeqb_true _ _ H). reflexivity.
  Qed."""),
    "misc_threshold_weight_zero_is_a_real_threshold": (
        "every threshold_match_weight, 0 included, is passed on unchanged",
        """  Lemma misc_threshold_weight_zero_is_a_real_threshold :
    forall w, thr_w None (Some w) = Ok (Some w).
  Proof. intros w. reflexivity. Qed."""),
    "misc_threshold_probability_becomes_log_odds": (
        "a non-zero probability threshold p becomes the weight threshold log2(p/(1-p))",
        """  Lemma misc_threshold_probability_becomes_log_odds :
    forall p, ~ p == 0 -> thr_w (Some p) None = Ok (Some (log2x (prob_to_bayes_factor p))).
  Proof.
    intros p H. unfold threshold_args_to_match_weight, prob_to_match_weight. cbn. change (inject_Z 0) with 0.
    rewrite ?(qeqb_false _ _ H). reflexivity.
  Qed."""),
    "misc_threshold_none_and_both": (
        "no threshold -> no filter; both thresholds -> ValueError",
        """  Lemma misc_threshold_none_and_both :
    thr_w None None = Ok None /\\ (forall p w, thr_w (Some p) (Some w) = Raise) /\\
    thr_p None None = Ok None /\\ (forall p w, thr_p (Some p) (Some w) = Raise).
  Proof. repeat split. Qed."""),
    "misc_threshold_args_to_match_prob": (
        "threshold_args_to_match_prob: probability unchanged, weight w -> 2^w/(1+2^w) (also for w = 0)",
        """  Lemma misc_threshold_args_to_match_prob :
    (forall p, thr_p (Some p) None = Ok (Some p)) /\\
    (forall w, thr_p None (Some w) = Ok (Some (pow2 w / (1 + pow2 w)))).
  Proof. split; reflexivity. Qed."""),
    "misc_interpolate_shape": (
        "interpolate(start, end, n) has n elements, starts at start and steps by (end-start)/(n-1)",
        """  Lemma misc_interpolate_shape : forall s e n,
      length (interpolate s e n) = n /\\
      forall i, (i < n)%nat ->
        nth i (interpolate s e n) 0 == s + inject_Z (Z.of_nat i) * ((e - s) / inject_Z (Z.of_nat n - 1)).
  Proof.
    intros s e n. unfold C02_misc_gen.interpolate. cbn zeta. split.
    - rewrite map_length, seq_length. reflexivity.
    - intros i Hi.
      set (f := fun i0 : nat => s + inject_Z (Z.of_nat i0) * ((e - s) / inject_Z (Z.of_nat n - 1))).
      rewrite (nth_indep _ 0 (f 0%nat)) by (rewrite map_length, seq_length; exact Hi).
      rewrite map_nth, seq_nth by exact Hi. unfold f. cbn [plus]. reflexivity.
  Qed."""),
}


def stage(ctx: Ctx) -> bool:
    """returns True when every obligation held"""
    ctx.cov.setdefault("translated_sources", {})["splink/internals/misc.py"] = git_blob(REPO / "splink/internals/misc.py")
    try:
        text = M.translate(REPO)
    except M.Untranslatable as ex:
        ctx.obligation("translate splink/internals/misc.py", False, str(ex))
        ctx.violation("misc.py arithmetic no longer matches any shape the translator understands: " + str(ex),
                      {"broken": "translator c02_misc", "why": str(ex)}, {"untranslatable": True, "source": "misc.py"}, found_input=False)
        return False
    ok, out = ctx.coqc_text("C02_misc_gen", text)
    ctx.obligation("generated coq/gen/C02_misc_gen.v type-checks", ok, out[-1500:])
    if not ok:
        ctx.violation("generated model of misc.py does not type-check", {"broken": "C02_misc_gen.v", "coqc": out[-1500:]},
                      {"misc_gen": True}, found_input=False)
        return False

    def one(item):
        name, (what, body) = item
        ok_, out_ = ctx.coqc_text("C02_misc_" + name, LEMMA_HEADER + body + "\nEnd L.\nPrint Assumptions " + name + ".\n", timeout=120)
        return name, what, ok_ and "Closed under the global context" in out_, out_
    with ThreadPoolExecutor(max_workers=6) as ex:
        results = list(ex.map(one, LEMMAS.items()))
    broken = []
    for name, what, ok_, out_ in results:
        ctx.obligation(name + " (re-proved on the generated text)", ok_, out_[-800:])
        if not ok_:
            broken.append({"lemma": name, "statement": what, "coqc": out_[-800:]})
    ctx.cov["misc_lemmas"] = [n for n, _, _, _ in results]
    if broken:
        ctx.violation("lemmas about misc.py no longer hold on the regenerated model: " + ", ".join(b["lemma"] for b in broken),
                      {"broken": [b["lemma"] for b in broken], "details": broken, "generated": text},
                      {"misc_lemmas": sorted(b["lemma"] for b in broken)}, found_input=False)
    return not broken
