"""C17 correspondence: the real creators driven through call histories.

For every grid item and entry method: the dialects it supports (a fresh object raises for the
others), call sequences of length <= 4 (repeat, alternate, seeded random); outputs of the used
object vs a freshly built object for every call; deep comparison of the object graph before /
after (only the `sql_dialect` slot of column expressions may differ - the effect summary's
SetFromArg writes); dict isolation of SettingsCreator; every emitted SQL parsed by sqlglot in
its dialect.  The observed histories are replayed on the extracted programs inside Coq
(changed attributes within the model's write set; pure program => outputs equal fresh).
"""
from __future__ import annotations

import copy
import functools
import itertools
import json
import os
import time

from harness import c17_grid as G
from harness.common import Ctx, coq_list
from translators import c17_effects as E

PKG = "splink"


# ------------------------------------------------------------------------- snapshots
def snapshot(obj, depth=0, seen=None):
    """deep, comparable description of an object graph (vars of splink objects, containers, primitives)"""
    seen = seen if seen is not None else {}
    if obj is None or isinstance(obj, (str, int, float, bool)):
        return obj
    if id(obj) in seen and depth > 0:
        return ("<ref>", seen[id(obj)])
    if isinstance(obj, (list, tuple)):
        return [snapshot(x, depth + 1, seen) for x in obj]
    if isinstance(obj, dict):
        return {str(k): snapshot(v, depth + 1, seen) for k, v in obj.items()}
    if isinstance(obj, functools.partial):
        return ("partial", getattr(obj.func, "__name__", repr(obj.func)), snapshot(list(obj.args), depth + 1, seen),
                snapshot(dict(obj.keywords), depth + 1, seen))
    if callable(obj) and not hasattr(obj, "__dict__"):
        return ("callable", getattr(obj, "__name__", type(obj).__name__))
    mod = type(obj).__module__ or ""
    if mod.split(".")[0] == PKG:
        if "dialect" in mod and not hasattr(obj, "raw_sql_expression"):
            return ("dialect", type(obj).__name__)
        if depth > 8:
            return ("<deep>", type(obj).__name__)
        seen[id(obj)] = type(obj).__name__
        try:
            d = vars(obj)
        except TypeError:
            return ("object", type(obj).__name__)
        return {"__class__": type(obj).__name__, **{k: snapshot(v, depth + 1, seen) for k, v in d.items()}}
    if hasattr(obj, "__name__"):
        return ("callable", obj.__name__)
    return ("object", type(obj).__name__)


def diff_paths(a, b, path=""):
    """normalised paths (list indices / dict keys -> [*]) where two snapshots differ"""
    out = []
    if isinstance(a, dict) and isinstance(b, dict):
        is_obj = "__class__" in a or "__class__" in b
        for k in sorted(set(a) | set(b)):
            p = (f"{path}.{k}" if path else k) if is_obj else f"{path}[*]"
            if k not in a or k not in b:
                out.append(p)
            else:
                out += diff_paths(a[k], b[k], p)
    elif isinstance(a, list) and isinstance(b, list):
        if len(a) != len(b):
            out.append(path)
        else:
            for x, y in zip(a, b):
                out += diff_paths(x, y, f"{path}[*]")
    elif a != b:
        out.append(path)
    return sorted(set(out))


def canon(o):
    """comparable form of what an entry method returns"""
    from splink.internals.blocking import BlockingRule
    from splink.internals.comparison import Comparison
    from splink.internals.comparison_level import ComparisonLevel
    from splink.internals.settings import Settings
    if isinstance(o, ComparisonLevel):
        keep = ("_sql_condition", "_label_for_charts", "_is_null_level", "_tf_adjustment_column", "_tf_adjustment_weight",
                "_tf_minimum_u_value", "_m_probability", "_u_probability", "_fix_m_probability", "_fix_u_probability",
                "_disable_tf_exact_match_detection", "sqlglot_dialect")
        return {k: getattr(o, k) for k in keep}
    if isinstance(o, (Comparison, BlockingRule)):
        d = o.as_dict()
        d["__class__"] = type(o).__name__
        return d
    if isinstance(o, Settings):
        return o.as_dict()
    return o


def sqls_of(kind, out):
    """SQL snippets in an output"""
    res = []
    if kind == "level":
        res.append(out.get("sql_condition") or out.get("_sql_condition"))
    elif kind == "comparison":
        res += [lv["sql_condition"] for lv in out.get("comparison_levels", [])]
    elif kind == "blocking":
        res.append(out.get("blocking_rule"))
    else:
        for c in out.get("comparisons", []):
            res += [lv["sql_condition"] for lv in c.get("comparison_levels", [])]
        res += [b["blocking_rule"] if isinstance(b, dict) else b for b in out.get("blocking_rules_to_generate_predictions", [])]
    return [s for s in res if isinstance(s, str) and s.strip().upper() != "ELSE"]


def jsonable(o):
    return json.loads(json.dumps(o, default=str))


# ------------------------------------------------------------------------- driving
def call(obj, entry, d):
    return canon(getattr(obj, entry)(d))


def is_unsupported(e: Exception) -> bool:
    """the library's own ways of saying "this dialect cannot do that": the decorator
    unsupported_splink_dialects (ValueError "Dialect x is not supported for ...") and a dialect property
    that is not implemented (NotImplementedError "Backend 'x' does not have a ... function")"""
    if isinstance(e, NotImplementedError):
        return "does not have" in str(e)
    return isinstance(e, ValueError) and "is not supported for" in str(e)


def supported(item, entry):
    """dialects a fresh creator supports; any OTHER exception is a failure of the creator, not a refusal"""
    ok, why, errors = [], {}, {}
    for d in G.DIALECTS:
        try:
            call(item["make"](), entry, d)
            ok.append(d)
        except Exception as e:
            msg = f"{type(e).__name__}: {' '.join(str(e).split())[:90]}"
            if is_unsupported(e):
                why[d] = msg
            else:
                errors[d] = msg
    why["__errors__"] = errors
    return ok, why


# ------------------------------------------------------------------------- cross-instance state
def fresh_outputs(item, dialects=None):
    """what a freshly constructed creator returns, for every entry method and dialect (asked in the given
    order: state shared across dialects - a memo keyed without the dialect - shows as order dependence)"""
    out = {}
    for entry in G.ENTRY[item["kind"]]:
        for d in (dialects or G.DIALECTS):
            try:
                out[f"{entry}:{d}"] = jsonable(call(item["make"](), entry, d))
            except Exception as e:
                out[f"{entry}:{d}"] = "ERR:" + type(e).__name__
    return out


def ukey(item):
    return f"{item['kind']}:{item['label']}"       # labels repeat across kinds (And / Or / Not)


def record_all(grid, order=None, dialects=None):
    res = {}
    for i in (order if order is not None else range(len(grid))):
        res[ukey(grid[i])] = fresh_outputs(grid[i], dialects)
    return res


def isolated_outputs(labels):
    """run in a fresh interpreter: construct the creators `labels` in this order and nothing else; the
    outputs of the last one"""
    import logging
    import warnings
    warnings.filterwarnings("ignore")
    logging.getLogger("splink").setLevel(logging.ERROR)
    grid = {ukey(it): it for it in G.grid()}
    res = None
    for lb in labels:
        # the fresh interpreter asks the dialects in the opposite order of the in-process passes
        res = fresh_outputs(grid[lb], list(reversed(G.DIALECTS)))
    return labels[-1], res


def isolated_many(label_lists, workers=16):
    """every task in its own fresh interpreter, each with its own RANDOM hash salt (the harness runs with
    PYTHONHASHSEED=0): an output that depends on the iteration order of a set differs between them"""
    import multiprocessing as mp
    ctxm = mp.get_context("spawn")
    old = os.environ.get("PYTHONHASHSEED")
    os.environ["PYTHONHASHSEED"] = "random"
    try:
        with ctxm.Pool(processes=workers, maxtasksperchild=1) as pool:
            return pool.map(isolated_outputs, label_lists, chunksize=1)
    finally:
        if old is None:
            os.environ.pop("PYTHONHASHSEED", None)
        else:
            os.environ["PYTHONHASHSEED"] = old


def first_difference(a, b):
    for k in sorted(a):
        if a[k] != b.get(k):
            return k, a[k], b.get(k)
    return None


def cross_instance_checks(ctx, grid, start, start_shuffled, end, report):
    """fresh creators must give the same results whatever was constructed or called before them in the
    process: first construction (grid order) vs shuffled order vs end of run vs a fresh interpreter"""
    bylabel = {ukey(it): it for it in grid}
    for name, other in (("a second pass in shuffled order", start_shuffled), ("the end of the run", end)):
        for lb, o in other.items():
            ctx.count_case(("cross-instance", name, lb), True, None)
            if o != start[lb]:
                k, x, y = first_difference(start[lb], o)
                report(bylabel[lb]["cls"].__name__, "<cross-instance state>",
                       f"a freshly constructed {lb} gives a different {k} at {name} than at its first construction",
                       {"case": {"creator": lb, "when": name, "call": k}, "implementation": y, "specification": x},
                       {"cross_instance": True})
    labels = [ukey(it) for it in grid]
    if ctx.quick:
        import inspect as _inspect

        def shared_default(cls):
            try:
                ps = _inspect.signature(cls.__init__).parameters.values()
            except (TypeError, ValueError):
                return False
            return any(isinstance(p.default, (list, dict, set)) for p in ps)
        # every item of a class with a mutable default argument, every fourth of the others
        labels = [ukey(it) for i, it in enumerate(grid) if shared_default(it["cls"]) or i % 4 == 0]
    multi = [ukey(it) for it in grid if "arrays" in it["label"]]
    labels = [lb for lb in labels if lb not in multi] + multi
    t0 = time.time()
    results = isolated_many([[lb] for lb in labels] + [[lb] for lb in multi] * 3)
    iso = dict(results[:len(labels)])
    unstable = set()
    for lb, o in results[len(labels):]:          # further runs of the same item, other hash salts
        if o != iso[lb] and lb not in unstable:
            unstable.add(lb)
            k, x, y = first_difference(iso[lb], o)
            report(bylabel[lb]["cls"].__name__, "<differs between interpreter runs>",
                   f"{lb}: two fresh interpreters (different hash salts) give a different {k}",
                   {"case": {"creator": lb, "call": k}, "implementation": y, "specification": x}, {"run_to_run": True})
    ctx.cov["isolated_subprocess_constructions"] = len(iso)
    for lb, o in iso.items():
        ctx.count_case(("cross-instance", "fresh interpreter", lb), True, None)
        if o == start[lb] or lb in unstable:
            continue
        k, x, y = first_difference(o, start[lb])
        # which earlier creator of the same class contaminates it?
        cls = bylabel[lb]["cls"]
        earlier = [ukey(it) for it in grid if it["cls"] is cls and ukey(it) != lb]
        culprit = None
        if earlier:
            for (last, o2), e in zip(isolated_many([[e, lb] for e in earlier]), earlier):
                if o2 != o:
                    culprit = e
                    break
        report(cls.__name__, "<cross-instance state>",
               f"{lb} constructed in this process gives a different {k} than constructed alone in a fresh interpreter"
               + (f" (constructing {culprit} first is enough)" if culprit else ""),
               {"case": {"creator": lb, "constructed_before": culprit or "the grid items before it", "call": k},
                "implementation": y, "specification": x}, {"cross_instance": True})
    ctx.cov["isolated_wall_s"] = round(time.time() - t0, 1)


def argument_cases(ctx, report):
    """objects handed to a constructor / from_path_or_dict: unchanged afterwards (also after the entry methods ran),
    the same specification built twice from them gives the same outputs, sharing = not sharing"""
    n = 0
    for case in G.arg_cases():
        kind = case["kind"]
        cls = case["label"].split("(")[0]

        def outputs(obj):
            res = {}
            for entry in G.ENTRY[kind]:
                for d in ("duckdb", "spark", "duckdb"):
                    try:
                        res[f"{entry}:{d}:{len(res)}"] = jsonable(call(obj, entry, d))
                    except Exception as e:
                        res[f"{entry}:{d}:{len(res)}"] = "ERR:" + type(e).__name__
            return res
        try:
            args = case["make_args"]()
            before = snapshot(args)
            obj = case["build"](args)
            cls = type(obj).__name__
            built = snapshot(args)
            o1 = outputs(obj)
            after = snapshot(args)
            o2 = outputs(case["build"](args))                  # second use of the same caller objects
            ref = outputs(case["build"](case["make_args"]()))    # fresh caller objects
            un = outputs(case["unshared"](case["make_args"]())) if case["unshared"] else None
        except Exception as e:
            report(cls, "<argument case raises>", f"{case['label']} raises {e!r}"[:300],
                   {"case": {"specification": case["label"]}, "implementation": repr(e)[:300]}, {"raises": True})
            continue
        n += 1
        ctx.count_case(("argument case", case["label"]), True, {"specification": case["label"]})
        ch1 = [p for p in diff_paths(before, built) if p.split(".")[-1] != "sql_dialect"]
        ch2 = [p for p in diff_paths(before, after) if p.split(".")[-1] != "sql_dialect"]
        if ch1 or ch2:
            report(cls, (ch1 or ch2)[0],
                   f"{case['label']}: the objects given by the caller are changed "
                   f"{'by construction' if ch1 else 'by the entry methods'}: {(ch1 or ch2)[:5]}",
                   {"case": {"specification": case["label"], "when": "construction" if ch1 else "entry methods"},
                    "implementation": {"changed": ch1 or ch2}, "specification": "caller's objects unchanged (sql_dialect slots aside)"},
                   {"caller_objects_changed": True})
        if o2 != o1 or ref != o1:
            k = next(k for k in o1 if o1[k] != (o2 if o2 != o1 else ref)[k])
            report(cls, "<second use differs>",
                   f"{case['label']}: building the specification {'again from the same objects' if o2 != o1 else 'from fresh equal objects'} "
                   f"gives a different {k}",
                   {"case": {"specification": case["label"], "call": k}, "implementation": (o2 if o2 != o1 else ref)[k],
                    "specification": o1[k]}, {"second_use_differs": True})
        if un is not None and un != o1:
            k = next(k for k in o1 if o1[k] != un[k])
            report(cls, "<sharing a sub-creator changes the result>",
                   f"{case['label']}: sharing one sub-creator object gives a different {k} than using two equal fresh ones",
                   {"case": {"specification": case["label"], "call": k}, "implementation": o1[k], "specification": un[k]},
                   {"sharing_differs": True})
    ctx.cov["argument_cases"] = n


SUPPORT_TABLE = os.path.join(os.path.dirname(__file__), "c17_supported.json")


def check_support_table(ctx, observed, report):
    """the pinned table of supported dialects per grid item and entry (a creator that starts refusing a
    dialect it used to support is a change of behaviour, not "unsupported")"""
    if not os.path.exists(SUPPORT_TABLE):
        ctx.obligation("pinned table of supported dialects present", False, SUPPORT_TABLE)
        return
    pinned = json.load(open(SUPPORT_TABLE))
    diffs = {k: (pinned.get(k), v) for k, v in observed.items() if pinned.get(k) != v}
    ctx.obligation("supported dialects per grid item = pinned table", not diffs, str(list(diffs.items())[:4]))
    ctx.cov["support_table_entries"] = len(pinned)
    for k, (exp, got) in list(diffs.items())[:3]:
        report(k.split(":", 1)[1].split("[")[0], "<supported dialects changed>",
               f"{k} supports {got}, the pinned table says {exp}",
               {"case": {"creator": k}, "implementation": got, "specification": exp}, {"support_table": True})


def sequences(ctx, dialects):
    seqs = []
    if not dialects:
        return seqs
    d0 = dialects[0]
    seqs.append([d0, d0])
    if len(dialects) > 1:
        seqs.append([dialects[0], dialects[1], dialects[0]])
        seqs.append([dialects[-1], dialects[0], dialects[-1], dialects[0]])
    n = 2 if ctx.quick else 8
    for _ in range(n):
        k = ctx.rng.choice([2, 3, 4])
        seqs.append([ctx.rng.choice(dialects) for _ in range(k)])
    uniq = []
    for s in seqs:
        if s not in uniq:
            uniq.append(s)
    return uniq


HEADER = """From Coq Require Import List Bool String.
From Splinkv Require Import Model.Creators.
From SplinkGen Require Import C17_gen.
Import ListNotations.
Open Scope string_scope.
Open Scope list_scope.
Definition prog_of (name : string) : list stmt * aexpr :=
  match find (fun x => String.eqb (fst x) name) all_progs with
  | Some x => snd x
  | None => ([SMutate "<no program>" (AConst "")], AConst "")
  end.
(* case: program name, history (dialect names), attributes observed to have changed, outputs equal fresh *)
Definition run_case (c : string * list string * list string * bool) : bool :=
  match c with (name, hist, changed, equal_fresh) =>
    let p := fst (prog_of name) in
    let out := snd (prog_of name) in
    let h := map TAtom hist in
    forallb (fun a => mem a (changed_attrs p h)) changed &&
    implb (pure p out) equal_fresh &&
    implb (pure p out) (outputs_all_equal_fresh p out h)
  end.
Notation length := List.length.
"""


def correspondence(ctx: Ctx, grid, allp, only=None, baseline=None):
    import sqlglot
    from splink.internals.dialects import SplinkDialect
    progs = {p["name"]: p for p in allp}
    found_classes: dict = {}
    expected_support: dict = {}
    terms, metas = [], []
    t0 = time.time()
    nparse = nparse_bad = 0
    unsupported = {}
    reported = set()

    def report(cls, attr, what, replay, extra=None):
        key = (cls, attr)
        found_classes.setdefault(cls, []).append(attr)
        if key in reported:
            return
        reported.add(key)
        feats = {"class": cls, "attr": attr}
        feats.update(extra or {})
        ctx.violation(what, replay, feats)

    for item in grid:
        kind, cls = item["kind"], item["cls"].__name__
        try:
            item["make"]()
        except Exception as e:
            report(cls, "<cannot be constructed>", f"{item['label']} cannot be constructed any more: {e!r}"[:300],
                   {"case": {"creator": item["label"]}, "implementation": repr(e)[:400],
                    "specification": "the grid item constructs on the pinned tree"}, {"construction_raises": True})
            continue
        for entry in G.ENTRY[kind]:
            if only is not None and entry != only[0]:
                continue
            pname = f"{item['cls'].__module__.split('.')[-1]}.{cls}.{entry}"
            dialects, why = supported(item, entry)
            for d, w in why.pop("__errors__", {}).items():
                report(cls, "<raises>", f"{item['label']}.{entry}({d}) raises something other than the library's "
                       f"unsupported-dialect refusal: {w}",
                       {"case": {"creator": item["label"], "entry": entry, "dialect": d}, "implementation": w,
                        "specification": "returns, or refuses the dialect with ValueError 'is not supported for' / "
                                         "NotImplementedError 'does not have'"}, {"raises": True})
            expected_support.setdefault(f"{ukey(item)}.{entry}", dialects)
            for d, w in why.items():
                unsupported.setdefault(w.split(":")[0], 0)
                unsupported[w.split(":")[0]] += 1
                if "parsing" in w.lower():
                    ctx.hist("unparsable_sql_at_construction", f"{item['label']}:{d}")
            ctx.hist("supported_dialects", len(dialects))
            written = set(progs.get(pname, {}).get("written", []))
            for seq in ([list(only[1])] if only is not None else sequences(ctx, dialects)):
                obj = item["make"]()
                before = snapshot(obj)
                outs, fresh = [], []
                try:
                    for d in seq:
                        outs.append(call(obj, entry, d))
                    for d in seq:
                        fresh.append(call(item["make"](), entry, d))
                except Exception as e:
                    report(cls, "<raises on reuse>",
                           f"{item['label']}.{entry} raises on a repeated call {seq}: {e!r}"[:300],
                           {"case": {"creator": item["label"], "entry": entry, "sequence": seq}, "implementation": repr(e)[:300]},
                           {"raises": True})
                    continue
                after = snapshot(obj)
                changed = diff_paths(before, after)
                visible = [p for p in changed if p.split(".")[-1] != "sql_dialect"]
                equal = jsonable(outs) == jsonable(fresh)
                nontrivial = len(set(seq)) >= 2 or (len(seq) >= 2 and bool(written))
                ctx.count_case((item["label"], entry, tuple(seq)), nontrivial,
                               {"creator": item["label"], "entry": entry, "sequence": seq, "changed": changed})
                ctx.hist("sequence_length", len(seq))
                ctx.hist("kind", kind)
                if kind == "blocking":
                    spec_arr = getattr(obj, "arrays_to_explode", None)
                    for d, o in zip(seq, outs):
                        got_arr = o.get("arrays_to_explode") if isinstance(o, dict) else None
                        if spec_arr and got_arr is not None and list(got_arr) != list(spec_arr):
                            report(cls, "<specified order not kept>",
                                   f"{item['label']}.{entry}({d}) returns arrays_to_explode {got_arr}, specified {list(spec_arr)}",
                                   {"case": {"creator": item["label"], "entry": entry, "sequence": seq}, "implementation": got_arr,
                                    "specification": list(spec_arr)}, {"order_not_kept": True})
                            break
                if not equal:
                    k = next(i for i in range(len(seq)) if jsonable(outs[i]) != jsonable(fresh[i]))
                    report(cls, "<output depends on history>",
                           f"{item['label']}.{entry}: call {k + 1} of {seq} differs from a fresh object's result",
                           {"case": {"creator": item["label"], "entry": entry, "sequence": seq, "call": k},
                            "implementation": jsonable(outs[k]), "specification": jsonable(fresh[k]),
                            "changed_attributes": changed},
                           {"history_dependent": True})
                if visible:
                    report(cls, visible[0],
                           f"{item['label']}.{entry} changes user-visible state of the creator objects: {visible[:6]}",
                           {"case": {"creator": item["label"], "entry": entry, "sequence": seq},
                            "implementation": {"changed": changed},
                            "specification": "only the sql_dialect slot of column expressions may be written"},
                           {"user_visible_change": True})
                outside = [p for p in changed if p not in written]
                if outside and pname in progs:
                    report(cls, outside[0],
                           f"{item['label']}.{entry} writes {outside[:4]} which the extracted effect summary does not contain",
                           {"case": {"creator": item["label"], "entry": entry, "sequence": seq},
                            "implementation": {"changed": changed}, "specification": {"summary_writes": sorted(written)}},
                           {"outside_summary": True})
                # parse every emitted SQL in its dialect
                for d, o in zip(seq, outs):
                    sg = SplinkDialect.from_string(d).sqlglot_dialect
                    for sql in sqls_of(kind, o if isinstance(o, dict) else {}):
                        nparse += 1
                        try:
                            sqlglot.parse_one(sql, read=sg)
                        except Exception as e:
                            nparse_bad += 1
                            report(cls, "<sql does not parse>",
                                   f"{item['label']}.{entry}({d}) emits SQL that sqlglot cannot parse in {sg}: {sql[:120]}",
                                   {"case": {"creator": item["label"], "entry": entry, "dialect": d}, "implementation": sql,
                                    "specification": f"parses in {sg}: {e!r}"[:200]}, {"unparsable": d})
                if pname in progs:
                    terms.append("(%s, %s, %s, %s)" % (E.cstr(pname), coq_list([E.cstr(d) for d in seq], "string"),
                                                       coq_list([E.cstr(p) for p in changed], "string"), "true" if equal else "false"))
                    metas.append({"program": pname, "creator": item["label"], "sequence": seq, "changed": changed, "equal": equal})
        # settings: the returned dict must be isolated from the creator
        if kind == "settings":
            obj = item["make"]()
            d1 = obj.create_settings_dict("duckdb")
            ref = copy.deepcopy(jsonable(d1))
            d1["comparisons"].append({"x": 1})
            if d1["comparisons"] and isinstance(d1["comparisons"][0], dict) and d1["comparisons"][0].get("comparison_levels"):
                d1["comparisons"][0]["comparison_levels"][0]["sql_condition"] = "tampered"
            d1["blocking_rules_to_generate_predictions"].clear()
            d2 = jsonable(obj.create_settings_dict("duckdb"))
            ctx.count_case((item["label"], "dict isolation"), True, None)
            if d2 != ref:
                report(cls, "<returned dict aliases the creator>",
                       f"{item['label']}: mutating the dict returned by create_settings_dict changes the next result",
                       {"case": {"creator": item["label"]}, "implementation": d2, "specification": ref}, {"dict_isolation": True})
    if baseline is not None and only is None:
        cross_instance_checks(ctx, grid, baseline[0], baseline[1], record_all(grid), report)
    if only is None:
        check_support_table(ctx, expected_support, report)
        argument_cases(ctx, report)
    ctx.cov["sql_snippets_parsed"] = nparse
    ctx.cov["sql_snippets_unparsable"] = nparse_bad
    ctx.cov["unsupported_dialect_reasons"] = unsupported
    ctx.cov["grid_items"] = len(grid)
    ctx.cov["x_wall_s"] = round(time.time() - t0, 1)
    if terms:
        bad, errs = ctx.eval_cases("C17_x", HEADER, terms, "run_case", shard=400)
        ctx.cov["coq_evaluated_histories"] = len(terms)
        ctx.obligation("correspondence: observed histories agree with the extracted programs evaluated in Coq",
                       not bad and not errs, "; ".join(errs)[:500])
        for e in errs[:2]:
            ctx.violation("C17 correspondence cases could not be evaluated in Coq", {"broken": "C17_x evaluation", "error": e[:1500]},
                          found_input=False)
        seen = set()
        for b in bad:
            m = metas[b]
            if m["program"] in seen:
                continue
            seen.add(m["program"])
            cls = m["program"].split(".")[1]
            report(cls, "<model mismatch>",
                   f"observed history of {m['creator']} disagrees with the program extracted for {m['program']}",
                   {"case": m, "specification": "changed attributes within the program's writes; pure => equal to fresh"},
                   {"model_mismatch": True})
    return found_classes
