"""C09  A saved model reloads to the same model.

 P  theorems in Properties/C09.v: `table_ok t d = true -> load d (save t l) = l`, second
    generation, pipelines (construction / reload paths) deliver their specification.
 T  translators/c09_tables.py regenerates the rule tables (as_dict, create_level_dict,
    create_comparison_dict, create_blocking_rule_dict) and loaders (constructors) from the
    working tree; `pipeline_ok` is evaluated in Coq on every pipeline; failed clauses are
    turned into concrete inputs and replayed on the real code.
 X  harness/c09_x.py: seeded models x training histories, saved through JSON text, reloaded
    (DuckDB; SQLite for portable models): predict() row-wise, second-generation JSON,
    and the Gallina save/load evaluated in Coq on the real level / comparison / settings /
    blocking-rule records against the real JSON.
"""
from __future__ import annotations

import json
import re

from harness.common import Ctx, REPO, git_blob
from translators import c09_tables as T

SOURCES = ["splink/internals/settings.py", "splink/internals/settings_creator.py", "splink/internals/comparison.py",
           "splink/internals/comparison_level.py", "splink/internals/blocking.py",
           "splink/internals/comparison_creator.py", "splink/internals/comparison_level_creator.py",
           "splink/internals/comparison_library.py", "splink/internals/comparison_level_library.py",
           "splink/internals/blocking_rule_creator.py", "splink/internals/blocking_rule_library.py",
           "splink/internals/linker_components/misc.py", "splink/internals/input_column.py"]


# ------------------------------------------------------------------------- Coq term parser
def tokenize(s):
    toks = []
    i = 0
    while i < len(s):
        c = s[i]
        if c.isspace():
            i += 1
        elif c in "[]();,":
            toks.append(c)
            i += 1
        elif c == '"':
            j = i + 1
            buf = []
            while True:
                if s[j] == '"':
                    if j + 1 < len(s) and s[j + 1] == '"':
                        buf.append('"')
                        j += 2
                        continue
                    break
                buf.append(s[j])
                j += 1
            toks.append(("str", "".join(buf)))
            i = j + 1
        else:
            j = i
            while j < len(s) and not s[j].isspace() and s[j] not in '[]();,"':
                j += 1
            toks.append(("atom", s[i:j]))
            i = j
    return toks


def parse_term(toks, pos=0):
    """returns (value, newpos).  Lists -> list, tuples -> tuple, applications -> ("app", head, *args)"""
    items = []
    while pos < len(toks) and toks[pos] not in ("]", ")", ";", ","):
        t = toks[pos]
        if t == "[":
            pos += 1
            elems = []
            while toks[pos] != "]":
                v, pos = parse_term(toks, pos)
                elems.append(v)
                if toks[pos] == ";":
                    pos += 1
            pos += 1
            items.append(elems)
        elif t == "(":
            pos += 1
            parts = []
            while True:
                v, pos = parse_term(toks, pos)
                parts.append(v)
                if toks[pos] == ",":
                    pos += 1
                    continue
                break
            assert toks[pos] == ")", toks[pos:pos + 5]
            pos += 1
            items.append(tuple(parts) if len(parts) > 1 else parts[0])
        elif isinstance(t, tuple) and t[0] == "str":
            items.append(t[1])
            pos += 1
        else:
            items.append(("atom", t[1]))
            pos += 1
    if len(items) == 1:
        return items[0], pos
    return ("app",) + tuple(items), pos


def coq_val_to_py(v):
    if v == ("atom", "VNone"):
        return None
    if isinstance(v, tuple) and v and v[0] == "app":
        head = v[1][1]
        if head == "VBool":
            return v[2][1] == "true"
        if head == "VNum":
            def num(x):
                if isinstance(x, tuple) and x[0] == "atom":
                    return int(x[1])
                if isinstance(x, tuple) and x[0] == "app":      # (- 3)
                    return int("".join(a[1] for a in x[1:]))
                raise ValueError(x)
            n, d = num(v[2]), num(v[3])
            return n // d if n % d == 0 else n / d
        if head == "VStr":
            return v[2]
        if head == "VList":
            return list(v[2])
    raise ValueError(f"cannot read Coq value {v!r}")


def coq_cls_to_py(c):
    if c == ("atom", "CG"):
        return ("G",)
    if isinstance(c, tuple) and c[0] == "app" and c[1] == ("atom", "CC"):
        return ("C", coq_val_to_py(c[2]))
    raise ValueError(c)


def eval_results(out: str):
    """the two `Eval vm_compute` answers of the generated file"""
    chunks = re.split(r"\n\s*=\s", "\n" + out)
    res = []
    for ch in chunks[1:]:
        body = re.split(r"\n\s*:\s", ch)[0]
        term, _ = parse_term(tokenize(body))
        res.append(term)
    return res


# ------------------------------------------------------------------------- T stage
def translator_stage(ctx: Ctx):
    pipelines, failures, notes, opaque = T.build_all()
    ctx.cov["translated_sources"] = {p: git_blob(REPO / p) for p in SOURCES}
    ctx.cov["translator_notes"] = notes
    ctx.cov["opaque_context_values"] = opaque[:40]
    for n in notes:
        ctx.trusted.append("translator: " + n)
    ctx.shape_failures = [f for f in failures if f.get("shape")]
    for f in ctx.shape_failures:
        # reported after the witnesses (a failing witness is the concrete input)
        ctx.obligation(f"shape of the save route: {f['group']}", False, f["why"])
    if not ctx.shape_failures:
        ctx.obligation("shape of the save route: children iterate the stored lists, the file is rewritten on every save", True)
    for f in [f for f in failures if not f.get("shape")]:
        ctx.obligation(f"translate {f['group']} serialisers", False, f["why"])
        ctx.violation(f"serialiser/constructor of group {f['group']} no longer has a shape the translator can model: {f['why']}",
                      {"broken": f"translation of {f['group']}", "why": f["why"]}, {"untranslatable": f["group"]},
                      found_input=False)
    text = T.gen_text(pipelines)
    ok, out = ctx.coqc_text("C09_gen", text)
    ctx.checker_cmds.append("coqc gen/C09_gen.v (Eval vm_compute in pipeline_ok / pipeline_cex on the regenerated tables)")
    if not ok:
        ctx.obligation("generated tables compile", False, out[-1500:])
        ctx.violation("generated C09 tables do not compile", {"broken": "coq/gen/C09_gen.v", "output": out[-1500:]},
                      found_input=False)
        return pipelines, {}, {}
    oks, cexs = eval_results(out)
    okd = {name: (b == ("atom", "true")) for name, b in oks}
    cexd = {}
    for name, lst in cexs:
        cexd[name] = [(k, {f: coq_cls_to_py(c) for f, c in sg}) for k, sg in lst]
    for p in pipelines:
        ctx.obligation(f"pipeline_ok {p.name} = true  ({p.doc})", okd.get(p.name, False),
                       f"{len(cexd.get(p.name, []))} failing class assignments")
    ctx.cov["pipelines"] = {p.name: {"stages": [s.name for s in p.stages], "rules": sum(len(s.rules) for s in p.stages),
                                     "targets": len(p.spec), "ok": okd.get(p.name, False)} for p in pipelines}
    if pipelines:
        p0 = pipelines[0]
        ctx.cov["samples"].append({"table_ok_obligation": {
            "pipeline": p0.name, "rules": [[k, str(g)[:80], str(v)[:80]] for k, g, v in p0.stages[0].rules][:4]}})
    return pipelines, okd, cexd


def run(ctx: Ctx):
    ctx.cov["rule"] = ("T: one pipeline_ok obligation per save/reload/construction path (level, comparison, settings, the three "
                       "blocking-rule classes), each decided in Coq over all class assignments of the fields the target depends "
                       "on. X: seeded models (creators or dicts; link types; tf / fixed / custom-label levels; salted / exploding "
                       "rules; custom prefixes; retained columns) x training histories (none, u, lambda, EM sessions), saved to "
                       "JSON text and reloaded; a case is non-trivial when it has >=2 comparisons, a trained parameter or a "
                       "non-default option, and predict() returns >=1 row; distinct by (settings JSON, history, backend).")
    ctx.trusted += [
        "translators/c09_symexec.py + c09_tables.py (Python ast/inspect symbolic execution of the straight-line serialiser code; "
        "unsupported constructs become opaque values, which can only make an obligation fail)",
        "specification side written by hand: allowed value classes per field, relevance constraints (tf weight / minimum u are "
        "meaningful only with a tf column), construction spec (supplied value or constructor default); checked against real "
        "objects by X (wfb evaluated in Coq on every real level)",
        "json.dumps / json.loads round-trip finite floats, strings, booleans, None and lists exactly (modelled, exercised by X)",
        "list comprehensions over children preserve order and length (structure of the model tree is compared by X)",
        "record fields hold JSON values; bool/number coercion (True == 1) not modelled",
    ]
    ok = ctx.proof_stage("Properties/C09.v")
    if not ok:
        ctx.violation("theorems of Properties/C09.v no longer check", {"broken": "Properties/C09.v"}, found_input=False)
    from harness import c09_x
    if ctx.replay:
        rp = json.loads(open(ctx.replay).read())
        feats = rp.get("features", {})
        if "field" in feats and "value" in feats and feats.get("field") != "comparison_description" \
                and isinstance(rp.get("case", {}).get("level"), dict):
            lvl = dict(rp["case"]["level"])
            f = feats["field"]
            v = lvl.pop(f, feats["value"])
            extra = {k: x for k, x in lvl.items() if k not in ("sql_condition", "label_for_charts")}
            okw, got, _ = c09_x.level_witness(f, v, extra)
            ctx.count_case(("replay", f, repr(v)), True, {"replay": ctx.replay, "result": got})
            if not okw:
                ctx.violation(f"replay: {f}={v!r} does not survive construction / save / reload: {got}",
                              {"case": rp["case"], "implementation": got}, feats)
            return
        if feats.get("field") == "comparison_description":
            route = feats.get("route", "dict")
            okw, got = c09_x.description_witness(route if route in c09_x.DESCRIPTION_KINDS else "dict")
            ctx.count_case(("replay", "description"), True, {"replay": ctx.replay, "result": got})
            if not okw:
                ctx.violation(f"replay: comparison description does not survive: {got}",
                              {"case": rp.get("case"), "implementation": got}, feats)
            return
    pipelines, okd, cexd = translator_stage(ctx)
    flags = c09_x.report_pipeline_failures(ctx, pipelines, okd, cexd)
    c09_x.correspondence(ctx, pipelines, flags)
