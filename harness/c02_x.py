"""C02 correspondence: real predict() / waterfall_chart() on DuckDB and SQLite vs the Gallina model
of Model/Scoring.v evaluated inside Coq.

Inputs of the model come from outside Splink: the level parameters from the seeded specification,
the outcome of every level's SQL condition per pair from a separate SELECT on the engine, the
term frequencies recomputed from the data (or taken from the registered lookup table) as exact
fractions.  The engine's POW for fractional weights is a finite table (base, exponent, value)
whose base/exponent must coincide exactly with what the model computes.
"""
from __future__ import annotations

import json
import math
from fractions import Fraction as Fr

import pandas as pd

from harness import c02_gen as G
from harness import splink_util as su
from harness.common import Ctx, coq_Q, coq_Z, coq_bool, coq_list, coq_opt

HEADER = """From Coq Require Import List Bool ZArith QArith Qabs.
From Splinkv Require Import Base.TV Model.Scoring.
Import ListNotations.
Local Open Scope Q_scope.
""" + G.COQ_LEVEL_HELPER + """
Definition tvn (n : nat) : tv := match n with 0%nat => F | 1%nat => T | _ => U end.
Definition qclose (eps a b : Q) : bool := Qle_bool (Qabs (a - b)) (eps * Qabs b).
Definition xclose (eps : Q) (a b : xq) : bool :=
  match a, b with Fin x, Fin y => qclose eps x y | Inf, Inf => true | _, _ => false end.
Definition oclose {A} (f : A -> A -> bool) (a b : option A) : bool :=
  match a, b with Some x, Some y => f x y | None, None => true | _, _ => false end.
Definition e9 : Q := 1 # 1000000000.
Definition e12 : Q := 1 # 1000000000000.
(* POW oracle: exact for exponent 1 and 0, otherwise the table row with exactly this base and
   exponent; -1 (never close to a positive engine value) when the row is missing *)
Definition tpow (tbl : list (Q * Q * Q)) (b e : Q) : Q :=
  if Qeq_bool e 1 then b else if Qeq_bool e 0 then 1 else
  match find (fun r => Qeq_bool (fst (fst r)) b && Qeq_bool (snd (fst r)) e) tbl with
  | Some r => snd r | None => -(1) end.
Definition zopt_eqb (a b : option Z) : bool := oclose Z.eqb a b.
Fixpoint all2 {A B} (f : A -> B -> bool) (l : list A) (l' : list B) : bool :=
  match l, l' with [] , [] => true | x :: t, y :: t' => f x y && all2 f t t' | _, _ => false end.

Record ipair := {
  p_outc : list (list nat);                       (* per comparison, per level: 0 F, 1 T, 2 NULL *)
  p_tf : list (option Q * option Q);              (* expected tf_l, tf_r per tf column *)
  p_itf : list (option Q * option Q);             (* engine's retained tf_ columns *)
  p_cols : list (option Z * option xq * option xq);  (* engine gamma_, bf_, bf_tf_adj_ *)
  p_score : option xq;                            (* 2^match_weight *)
  p_prob : option Q;
  p_kept_w : option bool;                         (* in the output of predict(threshold_match_weight) *)
  p_kept_p : option bool;
  p_wf : option (list xq * xq)                    (* waterfall bars (prior, parts) and final bar *)
}.
Definition mkp a b c d e f g h i := Build_ipair a b c d e f g h i.

(* exact = true: every number of the case is a power of two, so the engine's float arithmetic
   (products, log2) is exact and rows AT the threshold are compared too *)
Definition kept_ok (exact : bool) (T : option Q) (s : xq) (kept : option bool) : bool :=
  match T, kept with
  | Some t, Some k => match s with
                      | Fin q => if negb exact && qclose e9 q t then true else Bool.eqb k (keep t s)
                      | Inf => Bool.eqb k true end
  | None, None => true
  | _, _ => false
  end.

(* list of check codes that fail for one pair:
   1 gamma 2 bf 3 tf_adj 4 tf columns 5 score 6 probability 7 kept(weight) 8 kept(prob) 9 waterfall
   10 model has no value (NULL) but engine has / shape *)
Definition check_pair (p : Q) (cmps : list (list level)) (tbl : list (Q * Q * Q)) (Tw Tp : option Q) (exact : bool) (x : ipair) : list nat :=
  let tfs := fun k => nth k (p_tf x) (None, None) in
  let outcs := map (fun v => fun i => tvn (nth i v 2%nat)) (p_outc x) in
  (* p_cols = [] : the model was run with Splink's default retain flags, the intermediate columns do not exist *)
  let retained := match p_cols x with [] => false | _ => true end in
  let tfcols_ok := negb retained || all2 (fun a b => oclose (qclose e12) (fst a) (fst b) && oclose (qclose e12) (snd a) (snd b)) (p_itf x) (p_tf x) in
  match eval_all (tpow tbl) tfs cmps outcs with
  | None => (if forallb (fun c => match c with (None, _, _) => true | _ => false end) (p_cols x) then [] else [10%nat])
            ++ (match p_score x with None => [] | Some _ => [5%nat] end)
  | Some cs =>
      let terms := all_terms cs in
      let s := score_of_cols p cs in
      (if negb retained || all2 (fun c i => zopt_eqb (fst (fst i)) (Some (c_gamma c))) cs (p_cols x) then [] else [1%nat]) ++
      (if negb retained || all2 (fun c i => oclose (xclose e9) (snd (fst i)) (Some (c_bf c))) cs (p_cols x) then [] else [2%nat]) ++
      (if negb retained || all2 (fun c i => oclose (xclose e9) (snd i) (option_map Fin (c_tf c))) cs (p_cols x) then [] else [3%nat]) ++
      (if tfcols_ok then [] else [4%nat]) ++
      (if oclose (xclose e9) (p_score x) (Some s) then [] else [5%nat]) ++
      (if oclose (fun a b => Qle_bool (Qabs (a - b)) e9) (p_prob x) (Some (match_probability_of p terms)) then [] else [6%nat]) ++
      (if kept_ok exact Tw s (p_kept_w x) then [] else [7%nat]) ++
      (if kept_ok exact Tp s (p_kept_p x) then [] else [8%nat]) ++
      (match p_wf x with
       | None => []
       | Some (bars, fin) => if all2 (xclose e9) bars (prior_odds p :: terms) && xclose e9 fin s then [] else [9%nat]
       end)
  end.

Definition case_t := (Q * list (list level) * list (Q * Q * Q) * option Q * option Q * bool * list ipair)%type.
Definition report_case (c : case_t) : list (nat * list nat) :=
  match c with (p, cmps, tbl, Tw, Tp, exact, pairs) =>
    filter (fun r => negb (match snd r with [] => true | _ => false end))
           (combine (seq 0 (length pairs)) (map (check_pair p cmps tbl Tw Tp exact) pairs))
  end.
Definition run_case (c : case_t) : bool :=
  match c with (p, cmps, tbl, Tw, Tp, exact, pairs) =>
    forallb tf_generable cmps && match report_case c with [] => true | _ => false end
  end.
"""

DOM = {
    "a": ["ann", "anne", "anna", "bob", "bobb", "rob", "carl", "karl", "al"],
    "b": ["smith", "smyth", "smithe", "jones", "jone", "stone", "lee"],
    "c": ["x1", "x2", "y1", "xy", "x", "yy12"],
    "d": ["london", "londom", "leeds", "leed", "luton"],
}


def gen_data(rng, n=None):
    n = n or rng.randint(5, 9)
    rows = []
    for i in range(n):
        r = {"unique_id": i + 1}
        for c in G.COLS:
            dom = DOM[c]
            # skewed: first values common, last values rare; NULLs
            if rng.random() < 0.15:
                r[c] = None
            else:
                r[c] = dom[min(int(rng.expovariate(0.5)), len(dom) - 1)] if rng.random() < 0.7 else rng.choice(dom)
        rows.append(r)
    for c in G.COLS:                               # no all-NULL column
        if all(r[c] is None for r in rows):
            rows[0][c] = DOM[c][0]
    return rows


def gen_lookups(rng, spec, rows):
    """user-registered TF lookup tables for some TF columns: arbitrary short-decimal tf values,
    some data values deliberately missing (their tf becomes NULL)."""
    out = {}
    for c in spec["tf_cols"]:
        if rng.random() < 0.4:
            vals = sorted({r[c] for r in rows if r[c] is not None})
            tbl = {}
            for v in vals:
                if rng.random() < 0.75:
                    tbl[v] = rng.choice(["1/2", "1/4", "1/10", "3/100", "1/5", "7/10", "1/1000", "1/8"])
            if not tbl:
                tbl[vals[0]] = "1/4"
            tbl["zzz-unseen"] = "1/100"
            out[c] = tbl
    return out


def expected_tf(spec, rows, lookups):
    """tf value per (tf column, record id): exact fractions; None = NULL"""
    res = {}
    for c in spec["tf_cols"]:
        if c in lookups:
            res[c] = {r["unique_id"]: (Fr(lookups[c][r[c]]) if r[c] in lookups[c] else None) for r in rows}
        else:
            nn = [r[c] for r in rows if r[c] is not None]
            res[c] = {r["unique_id"]: (Fr(nn.count(r[c]), len(nn)) if r[c] is not None else None) for r in rows}
    return res


# ---------------------------------------------------------------------------------------------
# Python transcription of the model (used for the POW table, to describe failures and to shrink)
# ---------------------------------------------------------------------------------------------
def cvvs(levels):
    n = sum(1 for l in levels if l["kind"] != "null")
    out, c = [], n - 1
    for l in levels:
        if l["kind"] == "null":
            out.append(-1)
        else:
            out.append(c)
            c -= 1
    return out


def u_exact(levels, lv):
    if lv["disable"]:
        return Fr(lv["u"])
    for o in levels:
        if G.ecols(o) == [lv["tf_col"]]:
            return Fr(o["u"])
    return None


def py_cmp(levels, outc, tfv):
    """returns (gamma, bf (Fraction|'inf'), tf (None | ('one',) | ('pow', base, w)))"""
    cv = cvvs(levels)
    fired = None
    for i, l in enumerate(levels):
        if l["kind"] == "else" or outc[i] == 1:
            fired = i
            break
    if fired is None:
        return None
    g = cv[fired]
    j = cv.index(g)
    l = levels[j]
    bf = Fr(1) if l["kind"] == "null" else ("inf" if Fr(l["u"]) == 0 else Fr(l["m"]) / Fr(l["u"]))
    has_tf = any(x["tf_col"] for x in levels)
    tf = None
    if has_tf:
        tf = ("one",)
        if g != -1 and l["tf_col"] and Fr(l["w"]) != 0 and l["kind"] != "else":
            tl, tr = tfv[l["tf_col"]]
            lr = tl if tl is not None else tr
            rl = tr if tr is not None else tl
            if lr is not None:
                mu = Fr(l["min_u"])
                d = max(lr, rl) if mu == 0 else max(lr, rl, mu)
                tf = ("pow", u_exact(levels, l) / d, Fr(l["w"]))
    return g, bf, tf


def tf_value(tf):
    if tf is None:
        return None
    if tf[0] == "one":
        return Fr(1)
    _, b, w = tf
    if w == 1:
        return b
    return Fr(math.pow(float(b), float(w)))


def py_score(spec, outcs, tfv):
    prior = Fr(spec["prior"])
    s = prior / (1 - prior)
    cols, inf = [], False
    for c, oc in zip(spec["comparisons"], outcs):
        r = py_cmp(c["levels"], oc, tfv)
        if r is None:
            return None
        g, bf, tf = r
        cols.append({"gamma": g, "bf": bf, "tf": tf_value(tf), "tf_expr": tf})
        if bf == "inf":
            inf = True
        else:
            s *= bf
        if tf is not None:
            s *= tf_value(tf)
    return {"cols": cols, "score": "inf" if inf else s, "prob": Fr(1) if inf else s / (1 + s)}


# ---------------------------------------------------------------------------------------------
# implementation
# ---------------------------------------------------------------------------------------------
def frame(rows):
    d = pd.DataFrame(rows)
    for c in G.COLS:
        d[c] = d[c].astype("string")
    return d


def make_linker(case):
    spec = case["spec"]
    retain = case.get("retain", True)
    if spec["link_type"] == "dedupe_only":
        tabs, names = [frame(case["rows"])], None
    else:
        # two input tables (unique ids stay globally unique); term frequencies come from their concatenation
        k = case.get("split", len(case["rows"]) // 2)
        tabs, names = [frame(case["rows"][:k]), frame(case["rows"][k:])], ["ta", "tb"]
    lk = su.linker(tabs, G.settings_creator(spec, case["rules"], case["backend"], retain=retain), case["backend"], aliases=names)
    G.apply_setters(lk._settings_obj, spec)
    for c, tbl in case["lookups"].items():
        df = pd.DataFrame([{c: v, f"tf_{c}": float(Fr(t))} for v, t in tbl.items()])
        df[c] = df[c].astype("string")
        lk.table_management.register_term_frequency_lookup(df, c)
    return lk


def outcomes(case, lk, pairs):
    """engine-evaluated outcome (0 F / 1 T / 2 NULL) of every level condition for every pair of ids"""
    byid = {r["unique_id"]: r for r in case["rows"]}
    return outcomes_rows(case, lk, [(byid[i], byid[j]) for i, j in pairs])


def outcomes_rows(case, lk, rowpairs):
    """the same for explicit (left row, right row) dictionaries"""
    if not rowpairs:
        return []
    prow = []
    for k, (rl, rr) in enumerate(rowpairs):
        d = {"pid": k}
        for c in G.COLS:
            d[f"{c}_l"], d[f"{c}_r"] = rl.get(c), rr.get(c)
        prow.append(d)
    pdf = pd.DataFrame(prow)
    for c in G.COLS:
        pdf[f"{c}_l"] = pdf[f"{c}_l"].astype("string")
        pdf[f"{c}_r"] = pdf[f"{c}_r"].astype("string")
    conds = [[None if lo._is_else_level else lo.sql_condition for lo in comp.comparison_levels]
             for comp in lk._settings_obj.comparisons]
    sel = ", ".join(f"({s}) as c{ci}_{li}" for ci, cs in enumerate(conds) for li, s in enumerate(cs) if s is not None)
    if case["backend"] == "duckdb":
        import duckdb
        con = duckdb.connect()
        con.register("pdf0", pdf)
        casts = ", ".join(f"cast({c}_{s} as varchar) as {c}_{s}" for c in G.COLS for s in "lr")
        con.execute(f"create table pairs_t as select pid, {casts} from pdf0")
        cur = con.execute(f"select pid, {sel} from pairs_t")
        names = [d[0] for d in cur.description]
        res = cur.fetchall()
        con.close()
    else:
        con = lk._db_api.con
        con.execute("drop table if exists c02_pairs_t")
        cols = ", ".join(f"{c}_{s} text" for c in G.COLS for s in "lr")
        con.execute(f"create table c02_pairs_t (pid integer, {cols})")
        con.executemany(f"insert into c02_pairs_t values ({', '.join('?' * (1 + 2 * len(G.COLS)))})",
                        [[d["pid"]] + [d[f"{c}_{s}"] for c in G.COLS for s in "lr"] for d in prow])
        cur = con.execute(f"select pid, {sel} from c02_pairs_t")
        names = [d[0] for d in cur.description]
        res = cur.fetchall()
        con.execute("drop table c02_pairs_t")
    out = {}
    for row in res:
        r = dict(row) if isinstance(row, dict) else dict(zip(names, row))
        oc = []
        for ci, cs in enumerate(conds):
            v = []
            for li, s in enumerate(cs):
                if s is None:
                    v.append(0)
                else:
                    x = r[f"c{ci}_{li}"]
                    v.append(2 if x is None else int(bool(x)))
            oc.append(v)
        out[r["pid"]] = oc
    # cross-check the engine on the two condition kinds whose meaning is plain SQL equality / IS NULL
    for k, (rl, rr) in enumerate(rowpairs):
        for ci, comp in enumerate(case["spec"]["comparisons"]):
            for li, lv in enumerate(comp["levels"]):
                a, b = rl.get(lv["col"]), rr.get(lv["col"])
                if lv["kind"] == "null" and lv.get("both"):
                    exp = int(all(rl.get(c) is None or rr.get(c) is None for c in lv["both"]))
                elif lv["kind"] == "null":
                    exp = int(a is None or b is None)
                elif lv["kind"] == "exact":
                    exp = 2 if (a is None or b is None) else int(a == b)
                else:
                    continue
                if out[k][ci][li] != exp:
                    raise AssertionError(f"engine outcome {out[k][ci][li]} != {exp} for level {lv} on {a!r},{b!r}")
    return [out[k] for k in range(len(rowpairs))]


def fnum(x):
    """engine float -> exact Fraction | 'inf' | None"""
    if x is None:
        return None
    x = float(x)
    if math.isnan(x):
        return "nan"
    if math.isinf(x):
        return "inf" if x > 0 else "-inf"
    return Fr(x)


def run_impl(case):
    lk = make_linker(case)
    spec = case["spec"]
    recs = su.records(lk.inference.predict())
    pairs = [(int(r["unique_id_l"]), int(r["unique_id_r"])) for r in recs]
    res = {"pairs": pairs, "recs": recs, "kept_w": None, "kept_p": None, "wf": None}
    if case.get("thr_w") is not None:
        thr = case["thr_w"]
        if isinstance(thr, dict):                     # equal to the score of an output row
            thr = recs[thr["row"] % len(recs)]["match_weight"] if recs else 0.0
            if thr is None or math.isinf(thr) or math.isnan(thr):
                thr = 1.0
        res["thr_w_value"] = thr
        out = su.records(lk.inference.predict(threshold_match_weight=thr))
        res["kept_w"] = {(int(r["unique_id_l"]), int(r["unique_id_r"])) for r in out}
    if case.get("thr_p") is not None:
        thr = case["thr_p"]
        if isinstance(thr, dict):
            thr = recs[thr["row"] % len(recs)]["match_probability"] if recs else 0.5
            if thr is None or not (0 < thr < 1):
                thr = 0.5
        res["thr_p_value"] = thr
        out = su.records(lk.inference.predict(threshold_match_probability=thr))
        res["kept_p"] = {(int(r["unique_id_l"]), int(r["unique_id_r"])) for r in out}
    if case.get("waterfall") and case.get("retain", True) and recs:
        ch = lk.visualisations.waterfall_chart(recs, filter_nulls=False, as_dict=True)
        by = {}
        for v in ch["data"]["values"]:
            by.setdefault(v["record_number"], []).append(v)
        res["wf"] = [sorted(by[k], key=lambda v: v["bar_sort_order"]) for k in range(len(recs))]
    res["outcomes"] = outcomes(case, lk, pairs)
    res["conditions"] = [[lo.sql_condition for lo in comp.comparison_levels] for comp in lk._settings_obj.comparisons]
    return res


# ---------------------------------------------------------------------------------------------
# Coq terms
# ---------------------------------------------------------------------------------------------
def cx(v):
    """xq text from Fraction | 'inf'"""
    return "Inf" if v == "inf" else f"(Fin {coq_Q(v)})"


def oq(v):
    return "(@None Q)" if v is None else coq_opt(v, coq_Q)


def impl_cols(spec, rec):
    """engine columns of one output record -> (cols, score, prob, itf, bad_num)"""
    cols, bad_num = [], False
    for comp in spec["comparisons"]:
        nm = comp["name"]
        g = rec.get(f"gamma_{nm}")
        b, t = fnum(rec.get(f"bf_{nm}")), fnum(rec.get(f"bf_tf_adj_{nm}"))
        bad_num |= any(x in ("nan", "-inf") for x in (b, t)) or t == "inf"
        cols.append((g, b if b not in ("nan", "-inf") else None, t if t not in ("nan", "-inf", "inf") else None))
    mw, mp = rec.get("match_weight"), rec.get("match_probability")
    if mw is None:
        sc = None
    elif isinstance(mw, float) and math.isnan(mw):
        sc, bad_num = None, True
    elif math.isinf(mw):
        sc = "inf" if mw > 0 else Fr(0)
    else:
        sc = Fr(2.0 ** mw)
    mpq = fnum(mp)
    if mpq in ("nan", "inf", "-inf"):
        bad_num, mpq = True, None
    itf = [(fnum(rec.get(f"tf_{c}_l")), fnum(rec.get(f"tf_{c}_r"))) for c in spec["tf_cols"]]
    return cols, sc, mpq, itf, bad_num


def pair_term(spec, oc, tfv, rec, kw=None, kp=None, wf=None, retained=True):
    cols, sc, mpq, itf, bad_num = impl_cols(spec, rec)
    if not retained:
        # default retain flags: the intermediate columns must really be absent; only weight / probability are read
        leaked = [k for k in rec if k.startswith(("bf_", "tf_"))]
        if leaked:
            bad_num = True
        cols, itf = [], []
    t = ("(mkp " + coq_list([coq_list([f"{v}%nat" for v in lv], "nat") for lv in oc], "(list nat)") + " "
         + coq_list([f"({oq(tfv[c][0])}, {oq(tfv[c][1])})" for c in spec["tf_cols"]], "(option Q * option Q)") + " "
         + coq_list([f"({oq(a)}, {oq(b)})" for a, b in itf], "(option Q * option Q)") + " "
         + coq_list([f"({coq_opt(g, coq_Z)}, {coq_opt(b, cx)}, {coq_opt(t_, cx)})" for g, b, t_ in cols],
                    "(option Z * option xq * option xq)") + " "
         + coq_opt(sc, cx) + " " + oq(mpq) + " " + coq_opt(kw, coq_bool) + " " + coq_opt(kp, coq_bool) + " "
         + (("(Some (" + coq_list([cx(v) for v in wf[0]], "xq") + ", " + cx(wf[1]) + "))") if wf else "None") + ")")
    return t, bad_num


def pow_rows(py, powtbl):
    if py is not None:
        for col in py["cols"]:
            t = col["tf_expr"]
            if t is not None and t[0] == "pow" and t[2] not in (0, 1):
                powtbl[(t[1], t[2])] = tf_value(t)


def powtbl_term(powtbl):
    return coq_list([f"({coq_Q(b)}, {coq_Q(w)}, {coq_Q(v)})" for (b, w), v in powtbl.items()], "(Q * Q * Q)")


def case_term(case, impl):
    spec = case["spec"]
    tfexp = expected_tf(spec, case["rows"], case["lookups"])
    powtbl = {}
    pterms, infos = [], []
    waterfall_py_ok = True
    for k, ((i, j), rec, oc) in enumerate(zip(impl["pairs"], impl["recs"], impl["outcomes"])):
        tfv = {c: (tfexp[c][i], tfexp[c][j]) for c in spec["tf_cols"]}
        py = py_score(spec, oc, tfv)
        pow_rows(py, powtbl)
        mw = rec.get("match_weight")
        kw = None if impl["kept_w"] is None else ((i, j) in impl["kept_w"])
        kp = None if impl["kept_p"] is None else ((i, j) in impl["kept_p"])
        wf = None
        bad_wf = False
        if impl["wf"] is not None:
            bars = impl["wf"][k]
            vals = [fnum(b["bayes_factor"]) for b in bars]
            logs = [b["log2_bayes_factor"] for b in bars]
            if any(v in (None, "nan", "-inf") for v in vals):
                bad_wf = True
            else:
                wf = (vals[:-1], vals[-1])
                # the records add up: sum of the log2 bars = final bar = match_weight
                tot = sum(logs[:-1])
                fin = logs[-1]
                if math.isinf(fin) or math.isinf(tot):
                    waterfall_py_ok &= (fin == tot)
                else:
                    waterfall_py_ok &= abs(tot - fin) <= 1e-9 * max(1.0, abs(fin)) and abs(fin - mw) <= 1e-12 * max(1.0, abs(mw))
                for b in bars:
                    bfv, lg = b["bayes_factor"], b["log2_bayes_factor"]
                    if bfv > 0 and not math.isinf(bfv):
                        waterfall_py_ok &= abs(math.log2(bfv) - lg) <= 1e-9 * max(1.0, abs(lg))
        t, bad_num = pair_term(spec, oc, tfv, rec, kw, kp, wf, retained=case.get("retain", True))
        pterms.append(t)
        infos.append({"pair": (i, j), "py": py, "bad_num": bad_num or bad_wf})
    Tw = None if impl["kept_w"] is None else Fr(2.0 ** impl["thr_w_value"])
    Tp = None
    if impl["kept_p"] is not None:
        p = Fr(impl["thr_p_value"])
        Tp = p / (1 - p)
    term = (f"({coq_Q(Fr(spec['prior']))}, {G.cmps_term(spec)}, {powtbl_term(powtbl)}, {oq(Tw)}, {oq(Tp)}, "
            f"{coq_bool(bool(case.get('exact_thr')))}, " + coq_list(pterms, "ipair") + ")")
    return term, infos, waterfall_py_ok


CODES = {1: "gamma", 2: "bf column", 3: "bf_tf_adj column", 4: "tf_ columns", 5: "score (2^match_weight)",
         6: "match_probability", 7: "rows kept by weight threshold", 8: "rows kept by probability threshold",
         9: "waterfall records", 10: "NULL-ness"}
