"""Finite argument grid for every creator class of the three libraries (C17)."""
from __future__ import annotations

DIALECTS = ["duckdb", "spark", "sqlite", "postgres", "athena"]


def col_variants():
    from splink.internals.column_expression import ColumnExpression as CE
    return [("str", lambda: "name"), ("space", lambda: "first name"), ("lower", lambda: CE("name").lower()),
            ("substr", lambda: CE("name").substr(1, 3)), ("regex", lambda: CE("name").regex_extract("^[A-Z]+"))]


def grid():
    """list of dict(kind, cls, label, make) ; make() builds a fresh creator"""
    import splink.internals.blocking_rule_library as brl
    import splink.internals.comparison_level_library as cll
    import splink.internals.comparison_library as cl
    from splink.internals.column_expression import ColumnExpression as CE
    from splink.internals.settings_creator import SettingsCreator
    out = []

    def add(kind, cls, label, make):
        out.append({"kind": kind, "cls": cls, "label": f"{cls.__name__}[{label}]", "make": make})

    # ---------------------------------------------------------------- comparison levels
    for cn, col in col_variants():
        add("level", cll.NullLevel, cn, lambda col=col: cll.NullLevel(col()))
        add("level", cll.ExactMatchLevel, cn, lambda col=col: cll.ExactMatchLevel(col()))
        add("level", cll.LevenshteinLevel, cn, lambda col=col: cll.LevenshteinLevel(col(), 2))
        add("level", cll.JaroWinklerLevel, cn, lambda col=col: cll.JaroWinklerLevel(col(), 0.9))
    add("level", cll.NullLevel, "pattern", lambda: cll.NullLevel("name", valid_string_pattern="^[a-z]+$"))
    add("level", cll.ExactMatchLevel, "tf", lambda: cll.ExactMatchLevel("name", term_frequency_adjustments=True))
    add("level", cll.ExactMatchLevel, "configured",
        lambda: cll.ExactMatchLevel("name").configure(m_probability=0.9, u_probability=0.1, tf_adjustment_column="name",
                                                      tf_adjustment_weight=0.5, label_for_charts="same name",
                                                      fix_m_probability=True))
    add("level", cll.ExactMatchLevel, "tfcol-expression",
        lambda: cll.ExactMatchLevel("name").configure(tf_adjustment_column=CE("name")))
    add("level", cll.ElseLevel, "plain", lambda: cll.ElseLevel())
    add("level", cll.ElseLevel, "configured", lambda: cll.ElseLevel().configure(m_probability=0.2))
    add("level", cll.CustomLevel, "plain", lambda: cll.CustomLevel("name_l = name_r", "exact"))
    add("level", cll.CustomLevel, "nolabel", lambda: cll.CustomLevel("substr(name_l, 1, 2) = substr(name_r, 1, 2)"))
    add("level", cll.CustomLevel, "base-dialect",
        lambda: cll.CustomLevel("SUBSTR(name_l, 1, 2) = SUBSTR(name_r, 1, 2)", "two", base_dialect_str="duckdb"))
    for side in ("both", "left", "right"):
        add("level", cll.LiteralMatchLevel, side, lambda side=side: cll.LiteralMatchLevel("sex", "m", "string", side))
    add("level", cll.LiteralMatchLevel, "int", lambda: cll.LiteralMatchLevel("age", "3", "int"))
    add("level", cll.LiteralMatchLevel, "date", lambda: cll.LiteralMatchLevel("dob", "2000-01-01", "date"))
    add("level", cll.ColumnsReversedLevel, "one", lambda: cll.ColumnsReversedLevel("forename", "surname"))
    add("level", cll.ColumnsReversedLevel, "symmetrical",
        lambda: cll.ColumnsReversedLevel(CE("forename").lower(), "surname", symmetrical=True))
    add("level", cll.DamerauLevenshteinLevel, "1", lambda: cll.DamerauLevenshteinLevel("name", 1))
    add("level", cll.JaroLevel, "0.8", lambda: cll.JaroLevel("name", 0.8))
    add("level", cll.JaccardLevel, "0.8", lambda: cll.JaccardLevel(CE("name").lower(), 0.8))
    add("level", cll.DistanceFunctionLevel, "higher", lambda: cll.DistanceFunctionLevel("name", "my_fn", 0.7))
    add("level", cll.DistanceFunctionLevel, "lower",
        lambda: cll.DistanceFunctionLevel("name", "my_dist", 2, higher_is_more_similar=False))
    for fn, thr in (("levenshtein", 2), ("jaro_winkler", 0.9)):
        add("level", cll.PairwiseStringDistanceFunctionLevel, fn,
            lambda fn=fn, thr=thr: cll.PairwiseStringDistanceFunctionLevel("names", fn, thr))
    for is_string in (True, False):
        for metric, thr in (("day", 3), ("month", 1), ("year", 2), ("second", 30)):
            add("level", cll.AbsoluteTimeDifferenceLevel, f"{is_string}-{metric}",
                lambda s=is_string, m=metric, t=thr: cll.AbsoluteTimeDifferenceLevel("ts", input_is_string=s, threshold=t, metric=m))
            add("level", cll.AbsoluteDateDifferenceLevel, f"{is_string}-{metric}",
                lambda s=is_string, m=metric, t=thr: cll.AbsoluteDateDifferenceLevel("dob", input_is_string=s, threshold=t, metric=m))
    add("level", cll.AbsoluteDateDifferenceLevel, "format",
        lambda: cll.AbsoluteDateDifferenceLevel("dob", input_is_string=True, threshold=1, metric="month",
                                                datetime_format="%d/%m/%Y"))
    add("level", cll.AbsoluteDateDifferenceLevel, "expression",
        lambda: cll.AbsoluteDateDifferenceLevel(CE("dob").nullif(""), input_is_string=True, threshold=10, metric="day"))
    add("level", cll.DistanceInKMLevel, "plain", lambda: cll.DistanceInKMLevel("lat", "long", 5))
    add("level", cll.DistanceInKMLevel, "notnull", lambda: cll.DistanceInKMLevel("lat", "long", 50, not_null=True))
    add("level", cll.CosineSimilarityLevel, "0.9", lambda: cll.CosineSimilarityLevel("vec", 0.9))
    add("level", cll.ArrayIntersectLevel, "1", lambda: cll.ArrayIntersectLevel("arr", 1))
    add("level", cll.ArrayIntersectLevel, "3", lambda: cll.ArrayIntersectLevel("arr", 3))
    add("level", cll.ArraySubsetLevel, "plain", lambda: cll.ArraySubsetLevel("arr"))
    add("level", cll.ArraySubsetLevel, "empty", lambda: cll.ArraySubsetLevel("arr", empty_is_subset=True))
    add("level", cll.PercentageDifferenceLevel, "0.1", lambda: cll.PercentageDifferenceLevel("amount", 0.1))
    add("level", cll.AbsoluteDifferenceLevel, "5", lambda: cll.AbsoluteDifferenceLevel("amount", 5))
    add("level", cll.And, "two", lambda: cll.And(cll.ExactMatchLevel("name"), cll.LevenshteinLevel("surname", 1)))
    add("level", cll.And, "date",
        lambda: cll.And(cll.ExactMatchLevel("name"),
                        cll.AbsoluteDateDifferenceLevel("dob", input_is_string=True, threshold=1, metric="year")))
    add("level", cll.Or, "dict", lambda: cll.Or(cll.ExactMatchLevel("name"), {"sql_condition": "a_l = a_r"}))
    add("level", cll.Not, "null", lambda: cll.Not(cll.NullLevel("name")))
    add("level", cll.Not, "nested", lambda: cll.Not(cll.And(cll.ExactMatchLevel("name"), cll.NullLevel("surname"))))

    # ---------------------------------------------------------------- comparisons
    for cn, col in col_variants()[:3]:
        add("comparison", cl.ExactMatch, cn, lambda col=col: cl.ExactMatch(col()))
        add("comparison", cl.LevenshteinAtThresholds, cn, lambda col=col: cl.LevenshteinAtThresholds(col(), [1, 2]))
    # every defaulted argument left at its default (mutable default lists are shared between instances)
    for c in (cl.LevenshteinAtThresholds, cl.DamerauLevenshteinAtThresholds, cl.JaccardAtThresholds, cl.JaroAtThresholds,
              cl.JaroWinklerAtThresholds, cl.ArrayIntersectAtSizes, cl.CosineSimilarityAtThresholds):
        add("comparison", c, "defaults", lambda c=c: c("name"))
    add("comparison", cl.ExactMatch, "tf", lambda: cl.ExactMatch("name").configure(term_frequency_adjustments=True))
    add("comparison", cl.ExactMatch, "mu",
        lambda: cl.ExactMatch("name").configure(m_probabilities=[0.9, 0.1], u_probabilities=[0.1, 0.9]))
    add("comparison", cl.LevenshteinAtThresholds, "single-mu",
        lambda: cl.LevenshteinAtThresholds("name", 2).configure(m_probabilities=[0.7, 0.2, 0.1], term_frequency_adjustments=True))
    add("comparison", cl.DamerauLevenshteinAtThresholds, "1", lambda: cl.DamerauLevenshteinAtThresholds("name", [1]))
    add("comparison", cl.JaccardAtThresholds, "0.9", lambda: cl.JaccardAtThresholds("name", [0.9, 0.7]))
    add("comparison", cl.JaroAtThresholds, "0.9", lambda: cl.JaroAtThresholds("name", 0.9))
    add("comparison", cl.JaroWinklerAtThresholds, "two", lambda: cl.JaroWinklerAtThresholds("name", [0.9, 0.7]))
    add("comparison", cl.JaroWinklerAtThresholds, "tf-mu",
        lambda: cl.JaroWinklerAtThresholds("name", [0.9]).configure(term_frequency_adjustments=True,
                                                                   u_probabilities=[0.01, 0.09, 0.9]))
    add("comparison", cl.DistanceFunctionAtThresholds, "fn",
        lambda: cl.DistanceFunctionAtThresholds("name", "my_fn", [0.9, 0.5], higher_is_more_similar=True))
    add("comparison", cl.PairwiseStringDistanceFunctionAtThresholds, "lev",
        lambda: cl.PairwiseStringDistanceFunctionAtThresholds("names", "levenshtein", [1, 2]))
    for is_string in (True, False):
        add("comparison", cl.AbsoluteTimeDifferenceAtThresholds, str(is_string),
            lambda s=is_string: cl.AbsoluteTimeDifferenceAtThresholds("ts", input_is_string=s, metrics=["hour", "day"],
                                                                    thresholds=[1, 3]))
        add("comparison", cl.AbsoluteDateDifferenceAtThresholds, str(is_string),
            lambda s=is_string: cl.AbsoluteDateDifferenceAtThresholds("dob", input_is_string=s, metrics=["month", "year"],
                                                                    thresholds=[1, 5], term_frequency_adjustments=s))
    add("comparison", cl.AbsoluteDateDifferenceAtThresholds, "format",
        lambda: cl.AbsoluteDateDifferenceAtThresholds("dob", input_is_string=True, metrics="day", thresholds=10,
                                                      datetime_format="%d/%m/%Y", invalid_dates_as_null=False))
    add("comparison", cl.ArrayIntersectAtSizes, "sizes", lambda: cl.ArrayIntersectAtSizes("arr", [3, 1]))
    add("comparison", cl.DistanceInKMAtThresholds, "km", lambda: cl.DistanceInKMAtThresholds("lat", "long", [1, 10]))
    add("comparison", cl.CustomComparison, "creators",
        lambda: cl.CustomComparison(output_column_name="name", comparison_description="my name comparison",
                                    comparison_levels=[cll.NullLevel("name"), cll.ExactMatchLevel("name"),
                                                       cll.LevenshteinLevel("name", 2), cll.ElseLevel()]))
    add("comparison", cl.CustomComparison, "creators-mu",
        lambda: cl.CustomComparison(output_column_name="name",
                                    comparison_levels=[cll.NullLevel("name"), cll.ExactMatchLevel("name"), cll.ElseLevel()]
                                    ).configure(m_probabilities=[0.9, 0.1], u_probabilities=[0.2, 0.8]))
    add("comparison", cl.CustomComparison, "dicts",
        lambda: cl.CustomComparison(output_column_name="name", comparison_levels=[
            {"sql_condition": "name_l IS NULL OR name_r IS NULL", "label_for_charts": "null", "is_null_level": True},
            {"sql_condition": "name_l = name_r", "label_for_charts": "exact", "m_probability": 0.9, "tf_adjustment_column": "name"},
            {"sql_condition": "ELSE", "label_for_charts": "else"}]))
    add("comparison", cl.CustomComparison, "date-levels",
        lambda: cl.CustomComparison(output_column_name="dob", comparison_levels=[
            cll.NullLevel("dob"), cll.ExactMatchLevel("dob"),
            cll.AbsoluteDateDifferenceLevel("dob", input_is_string=True, threshold=1, metric="month"), cll.ElseLevel()]))
    add("comparison", cl.DateOfBirthComparison, "string", lambda: cl.DateOfBirthComparison("dob", input_is_string=True))
    add("comparison", cl.DateOfBirthComparison, "date",
        lambda: cl.DateOfBirthComparison("dob", input_is_string=False, datetime_thresholds=[1, 2], datetime_metrics=["month", "year"]))
    add("comparison", cl.PostcodeComparison, "plain", lambda: cl.PostcodeComparison("postcode"))
    add("comparison", cl.PostcodeComparison, "latlong",
        lambda: cl.PostcodeComparison("postcode", lat_col="lat", long_col="long", km_thresholds=[1, 10]))
    add("comparison", cl.PostcodeComparison, "latlong-default-thresholds",
        lambda: cl.PostcodeComparison("postcode", lat_col="lat", long_col="long"))
    add("comparison", cl.EmailComparison, "plain", lambda: cl.EmailComparison("email"))
    add("comparison", cl.NameComparison, "plain", lambda: cl.NameComparison("first_name"))
    add("comparison", cl.NameComparison, "dmeta", lambda: cl.NameComparison("first_name", dmeta_col_name="dm_first_name",
                                                                            jaro_winkler_thresholds=[0.95]))
    add("comparison", cl.ForenameSurnameComparison, "plain", lambda: cl.ForenameSurnameComparison("forename", "surname"))
    add("comparison", cl.ForenameSurnameComparison, "concat",
        lambda: cl.ForenameSurnameComparison("forename", "surname", forename_surname_concat_col_name="full_name"))
    add("comparison", cl.CosineSimilarityAtThresholds, "vec", lambda: cl.CosineSimilarityAtThresholds("vec", [0.9, 0.7]))

    # ---------------------------------------------------------------- blocking rules
    add("blocking", brl.ExactMatchRule, "col", lambda: brl.block_on("name"))
    add("blocking", brl.ExactMatchRule, "expr", lambda: brl.block_on("substr(name, 1, 2)"))
    add("blocking", brl.ExactMatchRule, "colexpr", lambda: brl.ExactMatchRule(CE("name").lower()))
    add("blocking", brl.ExactMatchRule, "salted", lambda: brl.block_on("name", salting_partitions=3))
    add("blocking", brl.ExactMatchRule, "exploding", lambda: brl.block_on("arr", arrays_to_explode=["arr"]))
    add("blocking", brl.ExactMatchRule, "exploding three arrays",
        lambda: brl.block_on("arr_postcodes", arrays_to_explode=["arr_postcodes", "arr_names", "arr_emails"]))
    add("blocking", brl.CustomRule, "exploding four arrays",
        lambda: brl.CustomRule("l.zeta = r.zeta and l.alpha = r.alpha", arrays_to_explode=["zeta", "alpha", "mid", "beta"]))
    add("blocking", brl.And, "two", lambda: brl.block_on("name", "dob"))
    add("blocking", brl.And, "salted", lambda: brl.block_on("name", "substr(dob, 1, 4)", salting_partitions=2))
    add("blocking", brl.And, "mixed", lambda: brl.And(brl.block_on("name"), brl.CustomRule("l.a = r.a", salting_partitions=4)))
    add("blocking", brl.Or, "two", lambda: brl.Or(brl.block_on("name"), brl.block_on("dob")))
    add("blocking", brl.Or, "dict", lambda: brl.Or(brl.block_on("name"), {"blocking_rule": "l.x = r.x"}))
    add("blocking", brl.Not, "one", lambda: brl.Not(brl.block_on("name")))
    add("blocking", brl.CustomRule, "plain", lambda: brl.CustomRule("l.name = r.name and l.dob = r.dob"))
    add("blocking", brl.CustomRule, "dialect",
        lambda: brl.CustomRule("SUBSTR(l.name, 1, 3) = SUBSTR(r.name, 1, 3)", sql_dialect="duckdb"))
    add("blocking", brl.CustomRule, "salted", lambda: brl.CustomRule("l.name = r.name", salting_partitions=5))
    add("blocking", brl.CustomRule, "exploding", lambda: brl.CustomRule("l.arr = r.arr", arrays_to_explode=["arr"]))

    # ---------------------------------------------------------------- settings
    def settings(kind):
        comps = [cl.ExactMatch("name").configure(term_frequency_adjustments=True), cl.LevenshteinAtThresholds("surname", 2)]
        brs = [brl.block_on("name"), "l.surname = r.surname"]
        if kind == "dicts":
            comps = [c.create_comparison_dict("duckdb") for c in comps]
            brs = [{"blocking_rule": "l.name = r.name"}, brl.block_on("surname", salting_partitions=2)]
        if kind == "dates":
            comps = [cl.DateOfBirthComparison("dob", input_is_string=True),
                     cl.CustomComparison(output_column_name="d2", comparison_levels=[
                         cll.NullLevel("d2"),
                         cll.AbsoluteDateDifferenceLevel("d2", input_is_string=True, threshold=1, metric="month"),
                         cll.ElseLevel()])]
        return SettingsCreator(link_type="dedupe_only", comparisons=comps, blocking_rules_to_generate_predictions=brs,
                               probability_two_random_records_match=0.01, additional_columns_to_retain=["age"])

    for kind in ("creators", "dicts", "dates"):
        add("settings", SettingsCreator, kind, lambda kind=kind: settings(kind))
    return out


ENTRY = {"level": ["get_comparison_level", "create_level_dict"], "comparison": ["get_comparison", "create_comparison_dict"],
         "blocking": ["get_blocking_rule", "create_blocking_rule_dict"], "settings": ["get_settings", "create_settings_dict"]}


def arg_cases():
    """specifications built from objects the caller keeps: the objects must come back unchanged, building the
    same specification twice from them must give the same result, and sharing one sub-creator between two
    places must be the same as using two equal fresh ones.  dict(kind, label, make_args, build, unshared)"""
    import splink.internals.blocking_rule_library as brl
    import splink.internals.comparison_level_library as cll
    import splink.internals.comparison_library as cl
    from splink.internals.settings_creator import SettingsCreator
    out = []

    def add(kind, label, make_args, build, unshared=None):
        out.append({"kind": kind, "label": label, "make_args": make_args, "build": build, "unshared": unshared})

    null = lambda: cll.NullLevel("email")      # noqa: E731
    add("level", "Not(shared null level)", lambda: [null()], lambda a: cll.Not(a[0]))
    add("level", "And(null, exact)", lambda: [null(), cll.ExactMatchLevel("email")], lambda a: cll.And(a[0], a[1]))
    add("level", "Or(Not(null), exact)", lambda: [null(), cll.ExactMatchLevel("email")], lambda a: cll.Or(cll.Not(a[0]), a[1]))
    add("level", "Not(level dict)", lambda: [{"sql_condition": "a_l = a_r", "label_for_charts": "a"}], lambda a: cll.Not(a[0]))
    add("comparison", "CustomComparison(null shared with And(Not(null), exact))", lambda: [null()],
        lambda a: cl.CustomComparison(output_column_name="email", comparison_levels=[
            a[0], cll.And(cll.Not(a[0]), cll.ExactMatchLevel("email")), cll.ElseLevel()]),
        lambda a: cl.CustomComparison(output_column_name="email", comparison_levels=[
            a[0], cll.And(cll.Not(null()), cll.ExactMatchLevel("email")), cll.ElseLevel()]))
    add("comparison", "CustomComparison(exact level shared by two levels)", lambda: [cll.ExactMatchLevel("email")],
        lambda a: cl.CustomComparison(output_column_name="email", comparison_levels=[
            cll.NullLevel("email"), a[0], cll.Or(a[0], cll.LevenshteinLevel("email", 1)), cll.ElseLevel()]),
        lambda a: cl.CustomComparison(output_column_name="email", comparison_levels=[
            cll.NullLevel("email"), a[0], cll.Or(cll.ExactMatchLevel("email"), cll.LevenshteinLevel("email", 1)), cll.ElseLevel()]))
    add("comparison", "CustomComparison(level dicts)",
        lambda: [[{"sql_condition": "a_l IS NULL OR a_r IS NULL", "label_for_charts": "n", "is_null_level": True},
                  {"sql_condition": "a_l = a_r", "label_for_charts": "e", "m_probability": 0.5}, {"sql_condition": "ELSE", "label_for_charts": "o"}]],
        lambda a: cl.CustomComparison(output_column_name="a", comparison_levels=a[0]))
    add("blocking", "Not(shared rule)", lambda: [brl.block_on("name")], lambda a: brl.Not(a[0]))
    add("blocking", "And(rule, Or(rule, other))", lambda: [brl.block_on("name", salting_partitions=2), brl.block_on("dob")],
        lambda a: brl.And(a[0], brl.Or(a[0], a[1])), lambda a: brl.And(a[0], brl.Or(brl.block_on("name", salting_partitions=2), a[1])))
    add("blocking", "Or(rule dict)", lambda: [{"blocking_rule": "l.x = r.x", "sql_dialect": "duckdb"}], lambda a: brl.Or(brl.block_on("name"), a[0]))

    def settings_dict():
        return {"link_type": "dedupe_only",
                "comparisons": [cl.ExactMatch("name").create_comparison_dict("duckdb")],
                "blocking_rules_to_generate_predictions": [
                    {"blocking_rule": "SUBSTR(l.name, 1, 2) = SUBSTR(r.name, 1, 2)", "sql_dialect": "duckdb"},
                    {"blocking_rule": "l.dob = r.dob", "sql_dialect": "duckdb", "salting_partitions": 2}, "l.city = r.city"],
                "additional_columns_to_retain": ["age"], "sql_dialect": "duckdb"}
    add("settings", "from_path_or_dict(settings dict with rule dicts carrying sql_dialect)", lambda: [settings_dict()],
        lambda a: SettingsCreator.from_path_or_dict(a[0]))
    add("settings", "SettingsCreator(shared comparison and rule creators)",
        lambda: [cl.ExactMatch("name").configure(term_frequency_adjustments=True), brl.block_on("name")],
        lambda a: SettingsCreator(link_type="dedupe_only", comparisons=[a[0]], blocking_rules_to_generate_predictions=[a[1], a[1]]))
    return out
